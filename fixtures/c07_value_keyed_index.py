"""Positive example for C07-K (expected count on the real tree is zero): an index keyed by the id a client asked for,
erased on removal without evidence that this very module registered the entry."""


class MessageManager:
    def connect_module(self, module, requested_id):
        module.mod_id = requested_id
        if self.taken(requested_id):
            self.remove_module(module)
            return False
        module.connected = True
        self.connected_ids.add(module.mod_id)
        return True

    def remove_module(self, module):
        if module.conn not in self.modules:
            return
        self.connected_ids.discard(module.mod_id)
        del self.modules[module.conn]


class Guarded:
    def connect_module(self, module, requested_id):
        module.connected = True
        self.by_name[module.name] = module

    def remove_module(self, module):
        if module.connected:
            self.by_name.pop(module.name, None)
        del self.modules[module.conn]
