"""Positive examples for C03-L (expected count on the real tree is zero): completion loops around a receive."""
import socket


def spins_on_eof(sock, view, size):
    nbytes = sock.recv_into(view, size, socket.MSG_WAITALL)
    while 0 < nbytes < size:
        nbytes += sock.recv_into(view[nbytes:], size - nbytes, socket.MSG_WAITALL)
    return nbytes


def stops_on_eof(sock, view, size):
    nbytes = sock.recv_into(view, size, socket.MSG_WAITALL)
    while 0 < nbytes < size:
        got = sock.recv_into(view[nbytes:], size - nbytes, socket.MSG_WAITALL)
        if got == 0:
            break
        nbytes += got
    return nbytes


def stops_on_eof_truthy(sock, size):
    chunks = []
    while size:
        chunk = sock.recv(size)
        if not chunk:
            return None
        chunks.append(chunk)
        size -= len(chunk)
    return b"".join(chunks)


def loop_condition_tests_result(sock):
    data = sock.recv(4096)
    while data:
        data = sock.recv(4096)
