"""Positive examples for C03-X / C07-X (expected count on the real tree is zero): a socket call other than close() made while a
client connection is torn down, protected only against ConnectionError.  shutdown() on a connection the peer has reset raises
OSError(ENOTCONN), which is not a ConnectionError: it escapes remove_module and run(), the manager dies."""
import socket


class Module:
    def close(self):
        try:
            self.conn.shutdown(socket.SHUT_RDWR)
        except ConnectionError:
            pass
        self.conn.close()

    def fine(self):
        try:
            self.conn.shutdown(socket.SHUT_RDWR)
        except OSError:
            pass
        self.conn.close()
