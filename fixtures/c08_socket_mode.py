"""Positive example for C08-M (expected count on the real tree is zero): a timeout left on the receive socket."""
import socket


class Client:
    def _socket_connect(self):
        self._sock = socket.socket(socket.AF_INET, socket.SOCK_STREAM)
        self._sock.settimeout(5.0)
        self._sock.connect(self._server)

    def _ok_connect(self):
        self._sock.settimeout(5.0)
        try:
            self._sock.connect(self._server)
        finally:
            self._sock.settimeout(None)
