"""Positive example for C01-R11 (expected count on the real tree is zero): a timeout put on an accepted client connection.
A socket with a timeout is non-blocking underneath: recv_into(..., MSG_WAITALL) then returns what is queued, the manager takes the
short count for a dead peer, drops the publisher and delivers the message to nobody."""


class MessageManager:
    def run(self):
        conn, address = self.listen_socket.accept()
        conn.settimeout(self.io_timeout)
        self.listen_socket.settimeout(1.0)   # the listening socket is not a client connection

    def fine(self, conn):
        conn.settimeout(None)
        conn.setblocking(True)
