"""Positive example for C04-X (expected count on the real tree is zero): "is this one of pyrtma's own core definitions?" decided by a
substring test on the path text.  `lab_core_defs.yaml` or `shared/core_defs_v2/units.yaml` then count as core definitions and are
silently left out of the C header only."""
CORE_DEFS_DIR = "core_defs"


def is_core_def(obj) -> bool:
    return CORE_DEFS_DIR in obj.src.as_posix()


def fine(obj) -> bool:
    return obj.src.parent.stem == "core_defs" or "core_defs" in obj.src.parts
