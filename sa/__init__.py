"""Repository-specific static analysis of pitt-rnel/pyrtma (see /verif/DESIGN.md)."""
