"""Check bookkeeping: rule instances (obligations), violations, known findings,
instance floors, evidence file, exit codes (0 clean / 1 VIOLATION / 2 ANALYSIS-ERROR)."""
from __future__ import annotations

import json
import os
import sys
import time
from typing import Dict, List, Optional

from .program import AnalysisError

VERIF = os.path.dirname(os.path.dirname(os.path.abspath(__file__)))


class Rule:
    def __init__(self, check: "Check", rid: str, desc: str, floor: int, necessary: str = ""):
        self.check = check
        self.id = rid
        self.desc = desc
        self.floor = floor
        self.necessary = necessary
        self.instances: List[dict] = []

    def _add(self, status, key, where, detail):
        # same normalised construct at another site of the same function: ordinal suffix in source order
        prior = [i for i in self.instances if i["key"].split("#")[0] == f"{self.id}|{key}" and i["where"] != where]
        same = [i for i in self.instances if i["key"].split("#")[0] == f"{self.id}|{key}" and i["where"] == where]
        if same:
            key = same[0]["key"][len(self.id) + 1:]
        elif prior:
            key = f"{key}#{len({i['where'] for i in prior}) + 1}"
        self.instances.append({"rule": self.id, "key": f"{self.id}|{key}", "where": where, "status": status, "detail": detail})

    def ok(self, key: str, where: str = "", detail: str = ""):
        self._add("ok", key, where, detail)

    def bad(self, key: str, where: str = "", detail: str = ""):
        self._add("violation", key, where, detail)

    def decide(self, cond: bool, key: str, where: str = "", ok_detail: str = "", bad_detail: str = ""):
        (self.ok if cond else self.bad)(key, where, ok_detail if cond else bad_detail)
        return cond


class Check:
    def __init__(self, pid: str, tier: str = "quick", root: str = "/repo", evidence_path: Optional[str] = None,
                 known_path: Optional[str] = None, quiet=False):
        self.pid = pid
        self.tier = tier
        self.root = root
        self.t0 = time.time()
        self.rules: Dict[str, Rule] = {}
        self.notes: List[str] = []
        self.units: Dict[str, object] = {}
        self.extra_coverage: Dict[str, object] = {}
        self.assumptions: List[str] = []
        self.explanation = ""
        self.deferred_errors: List[str] = []
        self.quiet = quiet
        self.evidence_path = evidence_path if evidence_path is not None else os.path.join(VERIF, "evidence", f"{pid}.json")
        self.known_path = known_path or os.path.join(VERIF, "known_findings.json")
        try:
            self.seed = int(os.environ.get("VERIF_SEED", "0"))
        except ValueError:
            self.seed = 0

    def rule(self, rid: str, desc: str, floor: int, necessary: str = "") -> Rule:
        if rid in self.rules:
            return self.rules[rid]
        r = Rule(self, rid, desc, floor, necessary)
        self.rules[rid] = r
        return r

    def note(self, text: str):
        self.notes.append(text)

    def defer_error(self, text: str):
        """An analysis error in one rule that must not hide violations already established by other rules:
        reported as ANALYSIS-ERROR (exit 2) only when no new violation is reported."""
        self.deferred_errors.append(text)

    # ------------------------------------------------------------------
    def _known(self) -> List[dict]:
        try:
            with open(self.known_path) as f:
                data = json.load(f)
        except FileNotFoundError:
            return []
        return [k for k in data.get("findings", []) if k.get("property") == self.pid and k.get("status", "open") == "open"]

    def finish(self) -> int:
        out = sys.stdout
        all_inst = [i for r in self.rules.values() for i in r.instances]
        # floors
        floor_errors = []
        for r in self.rules.values():
            if len(r.instances) < r.floor:
                floor_errors.append(f"rule {r.id} matched {len(r.instances)} instance(s), floor is {r.floor} ({r.desc})")
        known = self._known()
        known_keys = {k["key"]: k for k in known}
        viol = [i for i in all_inst if i["status"] == "violation"]
        new, matched = [], []
        for v in viol:
            if v["key"] in known_keys:
                matched.append(v)
            else:
                new.append(v)
        for r in self.rules.values():
            n_ok = sum(1 for i in r.instances if i["status"] == "ok")
            n_bad = len(r.instances) - n_ok
            if not self.quiet:
                print(f"RULE {r.id}: {len(r.instances)} instance(s) (floor {r.floor}), {n_ok} discharged, {n_bad} failing - {r.desc}", file=out)
        for n in self.notes:
            if not self.quiet:
                print(f"NOTE: {n}", file=out)
        seen_known = set()
        for v in matched:
            if v["key"] in seen_known:
                continue
            seen_known.add(v["key"])
            k = known_keys[v["key"]]
            print(f"KNOWN-FINDING: property={self.pid} {v['rule']} {v['where']} {k.get('what', v['detail'])}", file=out)
        stale = [k for k in known if k["key"] not in {v["key"] for v in viol}]
        for k in stale:
            print(f"NOTE: known finding no longer reproduced by the analysis (code changed or repaired?): {k['key']}", file=out)
        self._write_evidence(all_inst, new, matched)
        if new:
            for v in new:
                print(f"FAIL {v['where']} {v['rule']} [{v['key']}] {v['detail']}", file=out)
            rp = self._write_replay(new)
            print(f"VIOLATION property={self.pid} replay={rp}", file=out)
            return 1
        floor_errors = self.deferred_errors + floor_errors
        if floor_errors:
            # no violation found, but a rule matched fewer sites than confirmed by hand: never a silent pass
            for e in floor_errors:
                print(f"ANALYSIS-ERROR property={self.pid} {e}", file=out)
            self._write_evidence(all_inst, [], matched, error="; ".join(floor_errors))
            return 2
        if not self.quiet:
            print(f"OK property={self.pid} tier={self.tier}: {len(all_inst)} obligation(s), "
                  f"{len(all_inst) - len(viol)} discharged, {len(matched)} known finding instance(s)", file=out)
        return 0

    def _write_replay(self, new) -> str:
        d = os.path.join(os.path.dirname(self.evidence_path), "replay") if self.root != "/repo" else os.path.join(VERIF, "out")
        os.makedirs(d, exist_ok=True)
        p = os.path.join(d, f"{self.pid}.violations.json")
        with open(p, "w") as f:
            json.dump({"property": self.pid, "root": self.root, "violations": new}, f, indent=1)
        return p

    def _write_evidence(self, all_inst, new, matched, error: str = ""):
        if not self.evidence_path:
            return
        os.makedirs(os.path.dirname(self.evidence_path), exist_ok=True)
        ok = [i for i in all_inst if i["status"] == "ok"]
        distinct = len({i["key"] for i in all_inst})
        samples = []
        per_rule_seen: Dict[str, int] = {}
        for i in all_inst:
            c = per_rule_seen.get(i["rule"], 0)
            if c < 3:
                samples.append({"rule": i["rule"], "where": i["where"], "instance": i["key"], "status": i["status"], "detail": i["detail"][:400]})
                per_rule_seen[i["rule"]] = c + 1
        rules = {
            r.id: {"description": r.desc, "necessary_because": r.necessary, "floor": r.floor, "instances": len(r.instances),
                   "discharged": sum(1 for i in r.instances if i["status"] == "ok")}
            for r in self.rules.values()
        }
        cov = {
            "explanation": self.explanation or "path-/site-universal structural obligations decided from the source (static analysis)",
            "obligations": len(all_inst),
            "discharged": len(ok),
            "evaluations": max(1, len(all_inst)),
            "distinct_nontrivial": distinct,
            "rule": "one obligation per (rule, construct) instance discovered in the current tree; distinct = distinct (rule, normalised construct) keys",
            "samples": samples or [{"note": "no instance"}],
            "rules": rules,
            "units_analysed": self.units,
            "known_findings_matched": sorted({v["key"] for v in matched}),
            "new_violations": [v["key"] for v in new],
            "notes": self.notes,
            "root": self.root,
            "checker_cmd": f"./check {self.pid} --tier {self.tier}",
        }
        if error:
            cov["analysis_error"] = error
        cov.update(self.extra_coverage)
        ev = {
            "property_id": self.pid,
            "tier": self.tier,
            "seed": self.seed,
            "level": "other",
            "coverage": cov,
            "assumptions": self.assumptions,
            "wall_s": round(time.time() - self.t0, 3),
            "violations": len(new),
        }
        tmp = self.evidence_path + ".tmp"
        with open(tmp, "w") as f:
            json.dump(ev, f, indent=1, default=str)
        os.replace(tmp, self.evidence_path)
