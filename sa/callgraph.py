"""Whole-package call graph over resolved callees (sa.types)."""
from __future__ import annotations

import ast
from typing import Dict, List, Optional, Set, Tuple

from .program import FuncInfo, Program, walk_local, unparse
from .types import Types

LOG_LEVELS = {"debug", "info", "warning", "warn", "error", "exception", "critical", "log"}


class CallGraph:
    def __init__(self, prog: Program, types: Optional[Types] = None, logger_edge=True):
        self.prog = prog
        self.types = types or Types(prog)
        self.calls: Dict[str, List[Tuple[ast.Call, str, Optional[FuncInfo], str]]] = {}
        self.callers: Dict[str, List[Tuple[FuncInfo, ast.Call]]] = {}
        self.funcs: Dict[str, FuncInfo] = {}
        self.counts: Dict[str, Dict[str, int]] = {}
        self.unresolved: Dict[str, List[str]] = {}
        for f in prog.all_functions():
            self.funcs[f.key] = f
        for f in list(self.funcs.values()):
            lst = []
            cnt = self.counts.setdefault(f.module.name, {"internal": 0, "external": 0, "unresolved": 0})
            for n in walk_local(f.node):
                if not isinstance(n, ast.Call):
                    continue
                st, fi, desc = self.types.callee(f, n)
                cnt[st] += 1
                if st == "unresolved":
                    self.unresolved.setdefault(f.module.name, []).append(f"{f.qual}:{desc}")
                lst.append((n, st, fi, desc))
                if fi is not None:
                    self.callers.setdefault(fi.key, []).append((f, n))
                # logging through RTMALogger on a ClientLike object may call that object's send_message
                if (
                    logger_edge
                    and isinstance(n.func, ast.Attribute)
                    and n.func.attr in LOG_LEVELS
                    and isinstance(n.func.value, ast.Attribute)
                    and n.func.value.attr in ("logger", "_logger")
                    and f.cls is not None
                    and "ClientLike" in prog.base_names(f.cls)
                ):
                    sm = prog.find_method(f.cls, "send_message")
                    if sm is not None:
                        lst.append((n, "internal", sm, sm.key + " (via RTMALogHandler.emit)"))
            # property reads are call edges
            for n in walk_local(f.node):
                if isinstance(n, ast.Attribute) and isinstance(n.ctx, ast.Load):
                    bt = self.types.expr(f, n.value)
                    if bt.kind == "cls":
                        fi = self.prog.find_method(bt.cls, n.attr)
                        if fi is not None and any(d.split(".")[-1] == "property" for d in fi.decorators):
                            lst.append((n, "internal", fi, fi.key + " (property)"))  # type: ignore[arg-type]
            self.calls[f.key] = lst

    def callees(self, f: FuncInfo) -> List[FuncInfo]:
        return [fi for (_, st, fi, _) in self.calls.get(f.key, []) if fi is not None]

    def may_call(self, f: FuncInfo) -> Set[str]:
        seen: Set[str] = set()
        stack = [f]
        while stack:
            x = stack.pop()
            for c in self.callees(x):
                if c.key not in seen:
                    seen.add(c.key)
                    stack.append(c)
        return seen

    def resolved_share(self, module: str) -> float:
        c = self.counts.get(module, {})
        den = c.get("internal", 0) + c.get("unresolved", 0)
        return 1.0 if den == 0 else c.get("internal", 0) / den

    def call_sites_of(self, key: str) -> List[Tuple[FuncInfo, ast.Call]]:
        return list(self.callers.get(key, []))

    def calls_in_stmt(self, f: FuncInfo, stmt: ast.AST) -> List[Tuple[ast.AST, Optional[FuncInfo]]]:
        ids = {id(n) for n in walk_local(stmt)}
        return [(n, fi) for (n, st, fi, _) in self.calls.get(f.key, []) if id(n) in ids]


_CG_CACHE: Dict[int, CallGraph] = {}


def get(prog: Program) -> CallGraph:
    cg = _CG_CACHE.get(id(prog))
    if cg is None or cg.prog is not prog:
        cg = CallGraph(prog)
        _CG_CACHE.clear()
        _CG_CACHE[id(prog)] = cg
    return cg


def bind_args(callee: FuncInfo, call: ast.Call, bound_method: bool) -> Dict[str, ast.expr]:
    """Map callee parameter names to actual argument expressions."""
    params = callee.params()
    if bound_method and params and params[0] in ("self", "cls"):
        params = params[1:]
    out: Dict[str, ast.expr] = {}
    for i, a in enumerate(call.args):
        if isinstance(a, ast.Starred):
            break
        if i < len(params):
            out[params[i]] = a
    for kw in call.keywords:
        if kw.arg is not None:
            out[kw.arg] = kw.value
    return out
