"""Self-test of the checkers, both directions.

Variants are exact-once text replacements against the current tree (they refuse
to apply when their target is gone).  Each is applied to a scratch copy of
/repo/src outside /repo and /verif, the affected check is run with --root on the
copy, and the outcome compared: `fire` variants must produce exit 1 naming the
expected rule; `silent` (behaviour-preserving) variants must leave exit 0."""
from __future__ import annotations

import importlib.util
import json
import os
import shutil
import sys
import tempfile
import time
from concurrent.futures import ProcessPoolExecutor
from typing import Dict, List, Optional

VERIF = os.path.dirname(os.path.dirname(os.path.abspath(__file__)))


def load_variants() -> List[dict]:
    out = []
    d = os.path.join(VERIF, "selftest")
    for fn in sorted(os.listdir(d)):
        if fn.startswith("variants_") and fn.endswith(".py"):
            spec = importlib.util.spec_from_file_location(fn[:-3], os.path.join(d, fn))
            mod = importlib.util.module_from_spec(spec)
            spec.loader.exec_module(mod)
            for v in mod.VARIANTS:
                v = dict(v)
                v.setdefault("expect", "fire")
                out.append(v)
    names = [v["name"] for v in out]
    dup = {n for n in names if names.count(n) > 1}
    if dup:
        raise RuntimeError(f"duplicate variant names: {dup}")
    return out


def _apply(root: str, v: dict) -> Optional[str]:
    edits = v.get("edits") or [{"file": v["file"], "old": v["old"], "new": v["new"], "count": v.get("count", 1)}]
    for e in edits:
        p = os.path.join(root, e["file"])
        try:
            s = open(p, encoding="utf-8").read()
        except OSError as ex:
            return f"cannot read {e['file']}: {ex}"
        n = s.count(e["old"])
        if n != e.get("count", 1):
            return f"target text occurs {n} times in {e['file']} (need exactly {e.get('count', 1)})"
        s = s.replace(e["old"], e["new"])
        if p.endswith(".py"):
            try:
                compile(s, p, "exec")
            except SyntaxError as ex:
                return f"variant does not compile: {ex}"
        open(p, "w", encoding="utf-8").write(s)
    return None


def run_one(v: dict, repo: str = "/repo") -> dict:
    from io import StringIO
    import contextlib

    t0 = time.time()
    tmp = tempfile.mkdtemp(prefix="pyrtma-sa-")
    res = {"name": v["name"], "property": v["property"], "expect": v["expect"], "rule": v.get("rule", "")}
    try:
        shutil.copytree(os.path.join(repo, "src"), os.path.join(tmp, "src"), ignore=shutil.ignore_patterns("__pycache__", "*.pyc", "*.egg-info"))
        err = _apply(tmp, v)
        if err:
            res.update(outcome="inapplicable", detail=err)
            return res
        from . import main as M

        buf = StringIO()
        with contextlib.redirect_stdout(buf), contextlib.redirect_stderr(StringIO()):
            rc = M.run(v["property"], "quick", tmp, "none", quiet=True, selftest=False)
        out = buf.getvalue()
        fails = [l for l in out.splitlines() if l.startswith("FAIL ")]
        if v["expect"] == "fire":
            named = any((f" {v['rule']} " in l) for l in fails) if v.get("rule") else bool(fails)
            good = rc == 1 and named
            res.update(outcome="ok" if good else "MISSED", rc=rc, detail=(fails[0][:300] if fails else out[-300:]))
        else:
            good = rc == 0
            res.update(outcome="ok" if good else "FALSE-ALARM", rc=rc, detail=(fails[0][:300] if fails else out[-300:]))
        return res
    except Exception as ex:  # pragma: no cover
        res.update(outcome="ERROR", detail=f"{type(ex).__name__}: {ex}")
        return res
    finally:
        shutil.rmtree(tmp, ignore_errors=True)
        res["wall_s"] = round(time.time() - t0, 2)


def run_variants(variants: List[dict], jobs: int = 16) -> List[dict]:
    if not variants:
        return []
    with ProcessPoolExecutor(max_workers=min(jobs, len(variants))) as ex:
        return list(ex.map(run_one, variants))


def run_for_property(pid: str, chk=None) -> int:
    """Called by the thorough tier after the rules passed on /repo."""
    vs = [v for v in load_variants() if v["property"] == pid]
    results = run_variants(vs)
    bad = [r for r in results if r["outcome"] not in ("ok",)]
    fired = sum(1 for r in results if r["expect"] == "fire" and r["outcome"] == "ok")
    silent = sum(1 for r in results if r["expect"] == "silent" and r["outcome"] == "ok")
    print(f"SELFTEST property={pid}: {len(results)} variant(s): {fired} seeded violation(s) detected, {silent} behaviour-preserving edit(s) silent, {len(bad)} problem(s)")
    for r in bad:
        print(f"  SELFTEST-{r['outcome']} {r['name']} ({r['expect']} {r['rule']}): {r.get('detail', '')[:200]}")
    if chk is not None and chk.evidence_path:
        try:
            ev = json.load(open(chk.evidence_path))
            ev["coverage"]["selftest"] = {"variants": len(results), "seeded_detected": fired, "preserving_silent": silent,
                                          "problems": [r["name"] + ":" + r["outcome"] for r in bad],
                                          "names": [r["name"] for r in results]}
            json.dump(ev, open(chk.evidence_path, "w"), indent=1)
        except Exception:
            pass
    if bad:
        # a checker that misses its own seeded variant (or alarms on a preserving edit) is broken: analysis error, not a violation
        print(f"ANALYSIS-ERROR property={pid} self-test failed for {len(bad)} variant(s)")
        return 2
    return 0


def main(argv=None) -> int:
    import argparse

    ap = argparse.ArgumentParser()
    ap.add_argument("props", nargs="*")
    ap.add_argument("--name", default=None)
    ap.add_argument("-j", type=int, default=16)
    a = ap.parse_args(argv)
    vs = load_variants()
    if a.props:
        want = {p.upper() for p in a.props}
        vs = [v for v in vs if v["property"] in want]
    if a.name:
        vs = [v for v in vs if a.name in v["name"]]
    t0 = time.time()
    results = run_variants(vs, a.j)
    bad = 0
    for r in results:
        flag = "" if r["outcome"] == "ok" else "  <<<<<<"
        print(f"{r['outcome']:12s} {r['property']} {r['name']:45s} {r['expect']:6s} {r['rule']:8s} {r.get('wall_s', 0):5.1f}s {r.get('detail', '')[:150] if r['outcome'] != 'ok' else ''}{flag}")
        bad += r["outcome"] != "ok"
    print(f"{len(results)} variants, {bad} problem(s), {time.time() - t0:.1f}s")
    return 1 if bad else 0


if __name__ == "__main__":
    sys.exit(main())
