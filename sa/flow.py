"""Path queries over a CFG: must-precede, must-follow, counting, and the
disjunctive guard states ("which branch conditions hold whenever this node
executes", as a disjunction over incoming paths of conjunctions of facts)."""
from __future__ import annotations

import ast
from typing import Callable, Dict, FrozenSet, Iterable, List, Optional, Set, Tuple

from .cfg import CFG, Node, Edge
from .program import AnalysisError, unparse, walk_local, norm

NodePred = Callable[[Node], bool]


def _ids(cfg: CFG, p) -> Set[int]:
    if callable(p):
        return {n.id for n in cfg.nodes if p(n)}
    return {n.id if isinstance(n, Node) else n for n in p}


# ----------------------------------------------------------------------------
def reach(cfg: CFG, starts: Iterable[int], blocked: Set[int] = frozenset(), follow: Callable[[Edge], bool] = None,
          blocked_pass_exc=True) -> Set[int]:
    """Forward reachability.  Nodes in `blocked` are entered but their normal
    out-edges are not followed (their `exc` edges are, when blocked_pass_exc:
    a statement that raised did not complete)."""
    seen = set()
    stack = list(starts)
    while stack:
        x = stack.pop()
        if x in seen:
            continue
        seen.add(x)
        for e in cfg.succ[x]:
            if follow is not None and not follow(e):
                continue
            if x in blocked and not (blocked_pass_exc and e.kind == "exc"):
                continue
            if e.dst not in seen:
                stack.append(e.dst)
    return seen


def must_precede(cfg: CFG, A, B, follow=None) -> List[Node]:
    """B-nodes reachable from entry along a path on which no A-node completed.
    Empty list == on every path to B an A occurred earlier."""
    a, b = _ids(cfg, A), _ids(cfg, B)
    r = reach(cfg, [cfg.entry.id], blocked=a, follow=follow)
    return [cfg.nodes[x] for x in sorted(b - a) if x in r]


def must_follow(cfg: CFG, A, B, exits=("exit",), follow=None, from_exc_of_A=False) -> List[Tuple[Node, Node]]:
    """(A-node, exit-node) pairs such that some path from the completion of A
    reaches an exit of the listed kinds without passing a B-node."""
    a, b = _ids(cfg, A), _ids(cfg, B)
    exit_ids = {n.id for n in cfg.nodes if n.kind in exits}
    live = cfg.reachable_from_entry()
    bad = []
    for x in sorted(a & live):
        starts = [e.dst for e in cfg.succ[x] if (follow is None or follow(e)) and (from_exc_of_A or e.kind != "exc")]
        r = set()
        for s in starts:
            if s in b:
                continue
            r |= reach(cfg, [s], blocked=b, follow=follow, blocked_pass_exc=False)
        # blocked nodes are "entered" by reach(); an exit that is itself B cannot happen
        for ex in sorted(exit_ids & r):
            if ex not in b:
                bad.append((cfg.nodes[x], cfg.nodes[ex]))
    return bad


def count_on_paths(cfg: CFG, A, starts: Iterable[int], ends: Iterable[int], follow=None) -> Tuple[int, float]:
    """(min, max) number of A-nodes on any path from a start to an end node
    (both inclusive).  max is inf when an A-node lies on a cycle between them.
    Returns (-1, -1) if no path exists."""
    a = _ids(cfg, A)
    starts, ends = set(starts), set(ends)
    fwd = reach(cfg, starts, follow=follow)
    # backward reach
    back = set()
    stack = list(ends)
    while stack:
        x = stack.pop()
        if x in back:
            continue
        back.add(x)
        for e in cfg.pred[x]:
            if follow is not None and not follow(e):
                continue
            stack.append(e.src)
    region = fwd & back
    if not region or not (starts & region) or not (ends & region):
        return (-1, -1)
    # SCCs inside the region (iterative Tarjan)
    succ = {x: [e.dst for e in cfg.succ[x] if e.dst in region and (follow is None or follow(e))] for x in region}
    index, low, onstack, comp = {}, {}, set(), {}
    st, counter, ncomp = [], [0], [0]
    for root in region:
        if root in index:
            continue
        work = [(root, iter(succ[root]))]
        index[root] = low[root] = counter[0]
        counter[0] += 1
        st.append(root)
        onstack.add(root)
        while work:
            v, it = work[-1]
            advanced = False
            for w in it:
                if w not in index:
                    index[w] = low[w] = counter[0]
                    counter[0] += 1
                    st.append(w)
                    onstack.add(w)
                    work.append((w, iter(succ[w])))
                    advanced = True
                    break
                elif w in onstack:
                    low[v] = min(low[v], index[w])
            if advanced:
                continue
            work.pop()
            if work:
                u = work[-1][0]
                low[u] = min(low[u], low[v])
            if low[v] == index[v]:
                while True:
                    w = st.pop()
                    onstack.discard(w)
                    comp[w] = ncomp[0]
                    if w == v:
                        break
                ncomp[0] += 1
    members: Dict[int, List[int]] = {}
    for x, c in comp.items():
        members.setdefault(c, []).append(x)
    cyclic = {c for c, ms in members.items() if len(ms) > 1 or any(m in succ[m] for m in ms)}
    wmin = {c: (0 if c in cyclic else sum(1 for m in ms if m in a)) for c, ms in members.items()}
    # in a cyclic component a path may or may not pass A-nodes: min counts 0 is unsound only if the
    # A node is unavoidable inside; we keep min conservative (0) and max inf.
    wmax = {c: (float("inf") if (c in cyclic and any(m in a for m in ms)) else sum(1 for m in ms if m in a))
            for c, ms in members.items()}
    csucc: Dict[int, Set[int]] = {c: set() for c in members}
    for x in region:
        for y in succ[x]:
            if comp[x] != comp[y]:
                csucc[comp[x]].add(comp[y])
    # Tarjan numbers components in reverse topological order: successors have smaller numbers
    order = sorted(members)  # ascending = sinks first
    endc = {comp[x] for x in ends & region}
    best_min: Dict[int, float] = {}
    best_max: Dict[int, float] = {}
    for c in order:
        mins, maxs = [], []
        if c in endc:
            mins.append(0)
            maxs.append(0)
        for d in csucc[c]:
            if d in best_min:
                mins.append(best_min[d])
                maxs.append(best_max[d])
        if mins:
            best_min[c] = wmin[c] + min(mins)
            best_max[c] = wmax[c] + max(maxs)
    res_min, res_max = float("inf"), -1
    for s in starts & region:
        c = comp[s]
        if c in best_min:
            res_min = min(res_min, best_min[c])
            res_max = max(res_max, best_max[c])
    if res_max == -1:
        return (-1, -1)
    return (int(res_min), res_max)


# ----------------------------------------------------------------------------
# guard states

MUTATORS = {
    "add", "discard", "remove", "clear", "append", "extend", "insert", "pop", "popitem", "update", "setdefault",
    "sort", "reverse", "difference_update", "intersection_update", "symmetric_difference_update", "set", "reset",
}


def access_paths(e: ast.AST) -> Set[str]:
    """Dotted access paths (and their prefixes) read by an expression."""
    out = set()
    for n in ast.walk(e):
        if isinstance(n, ast.Name):
            out.add(n.id)
        elif isinstance(n, ast.Attribute):
            t = _path(n)
            if t:
                parts = t.split(".")
                for i in range(1, len(parts) + 1):
                    out.add(".".join(parts[:i]))
    return out


def _path(n: ast.AST) -> Optional[str]:
    if isinstance(n, ast.Name):
        return n.id
    if isinstance(n, ast.Attribute):
        b = _path(n.value)
        return f"{b}.{n.attr}" if b else None
    return None


def stores_of(node: Node, edge_kind: str = None) -> Set[str]:
    """Access paths (re)defined when `node` executes."""
    out: Set[str] = set()
    a = node.ast
    if a is None:
        return out

    def tgt(t):
        if isinstance(t, (ast.Tuple, ast.List)):
            for x in t.elts:
                tgt(x)
        elif isinstance(t, ast.Starred):
            tgt(t.value)
        elif isinstance(t, ast.Subscript):
            p = _path(t.value)
            if p:
                out.add(p)
        else:
            p = _path(t)
            if p:
                out.add(p)

    if node.kind == "for":
        tgt(a.target)  # type: ignore[attr-defined]
        # plain locals (re)bound inside the body are per-iteration temporaries: what was known about the previous iteration's
        # value must not survive into the statements that precede the rebinding in the next iteration
        for st in a.body:  # type: ignore[attr-defined]
            for x in ast.walk(st):
                if isinstance(x, ast.Name) and isinstance(x.ctx, ast.Store):
                    out.add(x.id)
        return out
    if node.kind == "with":
        for it in a.items:  # type: ignore[attr-defined]
            if it.optional_vars is not None:
                tgt(it.optional_vars)
        return out
    if node.kind == "handler":
        if a.name:  # type: ignore[attr-defined]
            out.add(a.name)  # type: ignore[attr-defined]
        return out
    if node.kind not in ("stmt", "test"):
        return out
    if isinstance(a, ast.Assign):
        for t in a.targets:
            tgt(t)
    elif isinstance(a, (ast.AugAssign, ast.AnnAssign)):
        tgt(a.target)
    elif isinstance(a, ast.Delete):
        for t in a.targets:
            tgt(t)
    elif isinstance(a, (ast.FunctionDef, ast.ClassDef)):
        out.add(a.name)
    elif isinstance(a, (ast.Import, ast.ImportFrom)):
        for al in a.names:
            out.add((al.asname or al.name).split(".")[0])
    for s in walk_local(a):
        if isinstance(s, ast.NamedExpr):
            tgt(s.target)
        elif isinstance(s, ast.Call) and isinstance(s.func, ast.Attribute) and s.func.attr in MUTATORS:
            p = _path(s.func.value)
            if p:
                out.add(p)
    return out


Fact = Tuple[str, bool]  # (normalised condition text, polarity)


class GuardStates:
    """Forward dataflow of disjunctive guard facts.

    state[n] = set of frozensets of facts; each frozenset is the conjunction of
    branch conditions known to hold on one class of paths reaching n (before n
    executes).  Facts are killed when a name / attribute path they read is
    stored to (assignment, loop target, mutator method call).  With
    `call_kill=f`, `f(node)` returns extra paths killed by the calls of a node
    (used for "any call on self may change self.*")."""

    LIMIT = 4000

    def __init__(self, cfg: CFG, call_kill: Callable[[Node], Set[str]] = None, edge_filter: Callable[[Edge], bool] = None, focus=None,
                 marks: Callable[[Edge], Optional[str]] = None, nonnull_calls: Tuple[str, ...] = ()):
        self.cfg = cfg
        self.edge_filter = edge_filter
        # marks(e) -> name: a ghost fact (name, True) is added to every state that crosses edge e and is never killed -
        # "this path went through e", combined with the ordinary facts (so that infeasible continuations are pruned)
        self.marks = marks
        # `x = <callee>(...)` for a callee named here leaves the fact `x is not None` (e.g. ContextVar.set returns a Token)
        self.nonnull_calls = tuple(nonnull_calls)
        # focus: AST nodes the caller will ask about.  Only facts that read an access path also read by a test enclosing
        # (or sharing the innermost loop with) a focus node are tracked - a slice that keeps the disjunctive state small in
        # long functions (run()) without losing any fact such a query can use.
        self.relevant: Optional[Set[str]] = None
        if focus:
            rel: Set[str] = set()
            loops = []
            for fn_ in focus:
                a = getattr(fn_, "_parent", None)
                inner = None
                while a is not None:
                    if isinstance(a, (ast.If, ast.While)):
                        rel |= access_paths(a.test)
                    if isinstance(a, (ast.For, ast.While)) and inner is None:
                        inner = a
                    if isinstance(a, (ast.FunctionDef, ast.AsyncFunctionDef)):
                        break
                    a = getattr(a, "_parent", None)
                if inner is not None:
                    loops.append(inner)
            for lp in loops:
                for x in ast.walk(lp):
                    if isinstance(x, (ast.If, ast.While)):
                        rel |= access_paths(x.test)
                    elif isinstance(x, ast.IfExp):
                        rel |= access_paths(x.test)
            self.relevant = rel
        self.exprs: Dict[str, ast.expr] = {}
        self._reads: Dict[str, Set[str]] = {}
        self.call_kill = call_kill
        self.state: Dict[int, Set[FrozenSet[Fact]]] = {n.id: set() for n in cfg.nodes}
        self._run()

    def _fact(self, cond: ast.expr, pol: bool) -> Fact:
        t = norm(cond)
        if t not in self.exprs:
            self.exprs[t] = cond
            self._reads[t] = access_paths(cond)
        return (t, pol)

    def _split_cond(self, cond: ast.expr, pol: bool) -> List[Fact]:
        """a true conjunction / false disjunction holds part by part: separate facts, so that a store to one operand's
        variable does not lose what is known about the others (`if not ready and m.is_logger: ...; ready = True`)"""
        if isinstance(cond, ast.BoolOp) and ((isinstance(cond.op, ast.And) and pol) or (isinstance(cond.op, ast.Or) and not pol)):
            out: List[Fact] = []  # the parts imply the whole: keeping only them keeps the number of atoms down
            for v in cond.values:
                out.extend(self._split_cond(v, pol))
            return out
        if isinstance(cond, ast.UnaryOp) and isinstance(cond.op, ast.Not):
            return self._split_cond(cond.operand, not pol)
        # `x is not None` is the negation of the atom `x is None` (same for != / not in): one atom, so that what an assignment
        # established (`x is None`: False) decides the test
        if isinstance(cond, ast.Compare) and len(cond.ops) == 1 and isinstance(cond.ops[0], (ast.IsNot, ast.NotEq, ast.NotIn)):
            pos = {ast.IsNot: ast.Is, ast.NotEq: ast.Eq, ast.NotIn: ast.In}[type(cond.ops[0])]()
            flipped = ast.copy_location(ast.Compare(left=cond.left, ops=[pos], comparators=cond.comparators), cond)
            return [self._fact(flipped, not pol)]
        return [self._fact(cond, pol)]

    def _tracked(self, cond: ast.expr) -> bool:
        return self.relevant is None or bool(access_paths(cond) & self.relevant)

    def _const_assign_facts(self, node: Node) -> List[Fact]:
        cf = self._const_assign_fact(node)
        if cf is None:
            return []
        out = [cf]
        # `x = "text"` / `x = 3` / `x = True`: x is not None either
        if cf[1] and " == " in cf[0]:
            t = cf[0].split(" == ")[0]
            out.append(self._fact(ast.parse(f"{t} is None", mode="eval").body, False))
        elif " is None" not in cf[0]:
            out.append(self._fact(ast.parse(f"{cf[0]} is None", mode="eval").body, False))
        return out

    def _const_assign_fact(self, node: Node) -> Optional[Fact]:
        """`x = None` / `x = 0` / `x = True` leaves a fact about x (value known after the store)."""
        a = node.ast
        if node.kind == "stmt" and isinstance(a, ast.AnnAssign) and a.value is not None:
            t, v = a.target, a.value
        elif node.kind != "stmt" or not isinstance(a, ast.Assign) or len(a.targets) != 1:
            return None
        else:
            t, v = a.targets[0], a.value
        if _path(t) is not None and isinstance(v, (ast.JoinedStr, ast.List, ast.Dict, ast.Tuple, ast.Set, ast.ListComp, ast.DictComp, ast.SetComp)):
            # a freshly built string / container is not None
            return self._fact(ast.parse(f"{_path(t)} is None", mode="eval").body, False)
        if _path(t) is not None and isinstance(v, ast.Call) and self.nonnull_calls and ast.unparse(v.func) in self.nonnull_calls:
            return self._fact(ast.parse(f"{_path(t)} is None", mode="eval").body, False)
        if _path(t) is None or not isinstance(v, ast.Constant):
            return None
        if v.value is None:
            return self._fact(ast.parse(f"{_path(t)} is None", mode="eval").body, True)
        if isinstance(v.value, bool):
            return self._fact(ast.parse(_path(t), mode="eval").body, v.value)
        if isinstance(v.value, (int, str)):
            return self._fact(ast.parse(f"{_path(t)} == {v.value!r}", mode="eval").body, True)
        return None

    def _copy_facts(self, node: Node, f2) -> List[Fact]:
        """`x = y` between plain locals: what is known about y's truth / None-ness holds for x afterwards."""
        a = node.ast
        if node.kind != "stmt" or not isinstance(a, ast.Assign) or len(a.targets) != 1 or not isinstance(a.targets[0], ast.Name) or not isinstance(a.value, ast.Name) \
                or a.targets[0].id == a.value.id:
            return []
        out = []
        src, tgt = a.value.id, a.targets[0].id
        for text, pol in f2:
            if text == src:
                out.append(self._fact(ast.Name(id=tgt, ctx=ast.Load()), pol))
            elif text == f"{src} is None":
                out.append(self._fact(ast.parse(f"{tgt} is None", mode="eval").body, pol))
        return [f for f in out if self._tracked(self.exprs[f[0]])]

    _PURE_FUNCS = ("isinstance", "len", "hasattr", "callable", "bool", "issubclass")

    def _flag_assign(self, node: Node):
        """`flag = <side-effect free condition>` (a comparison / and / or / not over names, attributes, constants and the
        pure builtins): afterwards flag and the condition have the same truth value, so the state is split in two - the
        correlation a later `if flag:` needs (the merge-duplicated-branches-with-a-flag refactor)."""
        a = node.ast
        if node.kind != "stmt" or not isinstance(a, ast.Assign) or len(a.targets) != 1 or not isinstance(a.targets[0], ast.Name):
            return None
        v = a.value
        if not isinstance(v, (ast.Compare, ast.BoolOp)) and not (isinstance(v, ast.UnaryOp) and isinstance(v.op, ast.Not)):
            return None
        for x in ast.walk(v):
            if isinstance(x, ast.Call):
                if not (isinstance(x.func, ast.Name) and x.func.id in self._PURE_FUNCS):
                    return None
            elif isinstance(x, (ast.NamedExpr, ast.Await, ast.Yield, ast.YieldFrom, ast.Lambda, ast.ListComp, ast.SetComp, ast.DictComp, ast.GeneratorExp, ast.Subscript)):
                return None
        if a.targets[0].id in access_paths(v):
            return None
        return a.targets[0], v

    def _kill(self, facts: FrozenSet[Fact], stores: Set[str]) -> FrozenSet[Fact]:
        if not stores or not facts:
            return facts
        keep = []
        for f in facts:
            reads = self._reads[f[0]]
            dead = False
            for s in stores:
                if s in reads:
                    dead = True
                    break
                # store to a.b kills facts reading a.b.c (prefix), handled by prefixes in reads;
                # store to a kills facts reading a.* (a in reads as prefix) - same set.
            if not dead:
                keep.append(f)
        return frozenset(keep)

    def _run(self):
        cfg = self.cfg
        self.state[cfg.entry.id] = {frozenset()}
        work = [cfg.entry.id]
        inwork = {cfg.entry.id}
        stores_cache: Dict[int, Set[str]] = {}
        while work:
            x = work.pop()
            inwork.discard(x)
            node = cfg.nodes[x]
            if x not in stores_cache:
                s = stores_of(node)
                if self.call_kill is not None:
                    s = s | self.call_kill(node)
                stores_cache[x] = s
            st = stores_cache[x]
            for e in cfg.succ[x]:
                if self.edge_filter is not None and not self.edge_filter(e):
                    continue
                outs = set()
                for facts in self.state[x]:
                    # an exc edge leaves before the statement completed: stores may or may not have
                    # happened -> kill as well (sound both ways: fewer facts)
                    f2 = self._kill(facts, st)
                    if e.cond is not None and self._tracked(e.cond):
                        fcs = self._split_cond(e.cond, e.pol)
                        if any((fc[0], not fc[1]) in f2 for fc in fcs):
                            continue  # the opposite is known on these paths: the branch is not taken
                        f2 = f2 | set(fcs)
                    if self.marks is not None:
                        mk = self.marks(e)
                        if mk:
                            if mk not in self.exprs:
                                self.exprs[mk] = ast.Name(id=mk, ctx=ast.Load())
                                self._reads[mk] = set()
                            f2 = f2 | {(mk, True)}
                    if e.kind != "exc":
                        for cf in self._const_assign_facts(node):
                            if self._tracked(self.exprs[cf[0]]):
                                f2 = f2 | {cf}
                        cp = self._copy_facts(node, facts)
                        if cp:
                            f2 = f2 | set(cp)
                        fa = self._flag_assign(node)
                        if fa is not None and self._tracked(fa[0]):
                            outs.add(f2 | {self._fact(fa[0], True), self._fact(fa[1], True)})
                            outs.add(f2 | {self._fact(fa[0], False), self._fact(fa[1], False)})
                            continue
                    outs.add(f2)
                tgt = self.state[e.dst]
                new = outs - tgt
                if new:
                    tgt |= new
                    if len(tgt) > self.LIMIT:
                        raise AnalysisError(f"guard state explosion in {cfg.func.name}")
                    if e.dst not in inwork:
                        inwork.add(e.dst)
                        work.append(e.dst)

    def at(self, node: Node) -> List[List[Tuple[ast.expr, bool]]]:
        """Disjunction (list) of conjunctions (list of (expr, polarity)) holding before `node`."""
        out = []
        for facts in self.state[node.id]:
            out.append([(self.exprs[t], pol) for (t, pol) in sorted(facts)])
        return out

    def at_expr(self, node: Node, sub: ast.AST) -> List[List[Tuple[ast.expr, bool]]]:
        """Facts holding when sub-expression `sub` of `node` is evaluated: those before the node plus the
        short-circuit context (`a and <sub>` evaluates sub only when a held, `a or <sub>` only when it did not,
        `x if t else <sub>` only when t did not)."""
        extra: List[Tuple[ast.expr, bool]] = []
        cur = sub
        top = node.ast
        while cur is not None and cur is not top:
            par = getattr(cur, "_parent", None)
            if isinstance(par, ast.BoolOp):
                for v in par.values:
                    if v is cur:
                        break
                    extra.append((v, isinstance(par.op, ast.And)))
            elif isinstance(par, ast.IfExp):
                if cur is par.body:
                    extra.append((par.test, True))
                elif cur is par.orelse:
                    extra.append((par.test, False))
            cur = par
        # conjunctions on the left of an `and` hold one by one
        flat: List[Tuple[ast.expr, bool]] = []
        for ex, pol in extra:
            if pol and isinstance(ex, ast.BoolOp) and isinstance(ex.op, ast.And):
                flat.extend((v, True) for v in ex.values)
            else:
                flat.append((ex, pol))
        return [p + flat for p in self.at(node)]

    def after_edge(self, e: Edge) -> List[List[Tuple[ast.expr, bool]]]:
        node = self.cfg.nodes[e.src]
        st = stores_of(node)
        out = []
        for facts in self.state[e.src]:
            f2 = self._kill(facts, st)
            if e.cond is not None and self._tracked(e.cond):
                fcs = self._split_cond(e.cond, e.pol)
                if any((fc[0], not fc[1]) in f2 for fc in fcs):
                    continue
                f2 = f2 | set(fcs)
            if e.kind != "exc":
                for cf in self._const_assign_facts(node):
                    if self._tracked(self.exprs[cf[0]]):
                        f2 = f2 | {cf}
                cp = self._copy_facts(node, facts)
                if cp:
                    f2 = f2 | set(cp)
                fa = self._flag_assign(node)
                if fa is not None and self._tracked(fa[0]):
                    out.append([(self.exprs[t], pol) for (t, pol) in sorted(f2 | {self._fact(fa[0], True), self._fact(fa[1], True)})])
                    out.append([(self.exprs[t], pol) for (t, pol) in sorted(f2 | {self._fact(fa[0], False), self._fact(fa[1], False)})])
                    continue
            out.append([(self.exprs[t], pol) for (t, pol) in sorted(f2)])
        return out


def guard_states(cfg: CFG, call_kill=None, edge_filter=None, focus=None, marks=None, nonnull_calls=()) -> GuardStates:
    return GuardStates(cfg, call_kill, edge_filter, focus, marks, nonnull_calls)
