"""Dispatcher: python -m sa.main <property-id> [--tier quick|thorough] [--root DIR] [--evidence PATH|none]"""
from __future__ import annotations

import argparse
import importlib
import os
import sys
import traceback

from .program import AnalysisError, Program
from .report import Check

STATS_FLOOR = {"modules": 30, "classes": 90, "functions": 400}


def run(pid: str, tier: str, root: str, evidence: str | None, quiet=False, selftest=True) -> int:
    ev = evidence
    if evidence == "none":
        ev = ""
    chk = Check(pid, tier, root, evidence_path=ev, quiet=quiet)
    try:
        mod = importlib.import_module(f"sa.rules.{pid.lower()}")
        extra = ("examples", "tests", "utils") if tier == "thorough" else ()
        prog = Program(root, extra_dirs=extra)
        st = prog.stats()
        if prog.parse_failures:
            raise AnalysisError("source files failed to parse: " + "; ".join(prog.parse_failures))
        for k, v in STATS_FLOOR.items():
            if st[k] < v:
                raise AnalysisError(f"coverage floor missed: {k}={st[k]} < {v}")
        chk.units.update(st)
        mod.run(prog, chk)
        rc = chk.finish()
        if rc == 0 and tier == "thorough" and selftest and root == "/repo" and os.environ.get("SA_NO_SELFTEST") != "1":
            from . import selftest as stmod

            rc = stmod.run_for_property(pid, chk)
        return rc
    except AnalysisError as e:
        print(f"ANALYSIS-ERROR property={pid} {e}")
        try:
            chk._write_evidence([], [], [], error=str(e))
        except Exception:
            pass
        return 2
    except Exception as e:  # internal error: never exit 1
        tb = traceback.format_exc()
        print(f"ANALYSIS-ERROR property={pid} internal error: {type(e).__name__}: {e}")
        print(tb, file=sys.stderr)
        try:
            chk._write_evidence([], [], [], error=f"internal error {type(e).__name__}: {e}")
        except Exception:
            pass
        return 2


def main(argv=None) -> int:
    ap = argparse.ArgumentParser()
    ap.add_argument("pid")
    ap.add_argument("--tier", default=os.environ.get("VERIF_TIER", "quick"), choices=["quick", "thorough"])
    ap.add_argument("--root", default="/repo")
    ap.add_argument("--evidence", default=None)
    ap.add_argument("--replay", default=None, help="re-run the check; the replay file lists the violating instances")
    ap.add_argument("--quiet", action="store_true")
    ap.add_argument("--no-selftest", action="store_true")
    a = ap.parse_args(argv)
    if a.replay:
        import json

        try:
            data = json.load(open(a.replay))
            print(f"replaying {len(data.get('violations', []))} instance(s) of {data.get('property')}:")
            for v in data.get("violations", []):
                print(f"  {v['where']} {v['key']}")
        except Exception as e:
            print(f"cannot read replay file: {e}")
    return run(a.pid.upper(), a.tier, a.root, a.evidence, a.quiet, selftest=not a.no_selftest)


if __name__ == "__main__":
    sys.exit(main())
