"""Statement-level control-flow graph for one Python function.

Nodes are simple statements plus the decision points of compound statements
(`if`/`while` tests, `for` heads, `with` enter/exit, `except` handler entries).
Edges carry a kind and, for branch edges, the condition with its polarity.
`finally` bodies are duplicated per continuation kind (normal / exception /
return / break / continue) so paths through them stay precise.

Exception edges: a statement that contains a call, `raise`, `assert`, `yield`
or `await` gets an `exc` edge to the innermost enclosing handler dispatch (and
outward when no handler there is catch-all), ending at the function's
`raise` exit.  An explicit `raise X(...)` whose class name is known goes to the
first handler that catches it according to the class table handed in.
"""
from __future__ import annotations

import ast
from dataclasses import dataclass, field
from typing import Callable, Dict, List, Optional, Set, Tuple, Iterable

from .program import AnalysisError, walk_local, unparse

BUILTIN_EXC_PARENTS = {
    "BaseException": None,
    "Exception": "BaseException",
    "KeyboardInterrupt": "BaseException",
    "SystemExit": "BaseException",
    "GeneratorExit": "BaseException",
    "ArithmeticError": "Exception",
    "ZeroDivisionError": "ArithmeticError",
    "OverflowError": "ArithmeticError",
    "FloatingPointError": "ArithmeticError",
    "AssertionError": "Exception",
    "AttributeError": "Exception",
    "BufferError": "Exception",
    "EOFError": "Exception",
    "ImportError": "Exception",
    "ModuleNotFoundError": "ImportError",
    "LookupError": "Exception",
    "IndexError": "LookupError",
    "KeyError": "LookupError",
    "MemoryError": "Exception",
    "NameError": "Exception",
    "OSError": "Exception",
    "IOError": "Exception",
    "ConnectionError": "OSError",
    "BrokenPipeError": "ConnectionError",
    "ConnectionAbortedError": "ConnectionError",
    "ConnectionRefusedError": "ConnectionError",
    "ConnectionResetError": "ConnectionError",
    "FileExistsError": "OSError",
    "FileNotFoundError": "OSError",
    "PermissionError": "OSError",
    "TimeoutError": "OSError",
    "BlockingIOError": "OSError",
    "InterruptedError": "OSError",
    "ReferenceError": "Exception",
    "RuntimeError": "Exception",
    "NotImplementedError": "RuntimeError",
    "RecursionError": "RuntimeError",
    "StopIteration": "Exception",
    "SyntaxError": "Exception",
    "TypeError": "Exception",
    "ValueError": "Exception",
    "UnicodeError": "ValueError",
    "UnicodeDecodeError": "UnicodeError",
    "UnicodeEncodeError": "UnicodeError",
    "Warning": "Exception",
    "FutureWarning": "Warning",
    "DeprecationWarning": "Warning",
    "UserWarning": "Warning",
}


@dataclass
class Node:
    id: int
    kind: str  # entry exit raise stmt test for with with_exit handler dispatch join
    ast: Optional[ast.AST] = None  # the statement, or the test / handler node
    stmt: Optional[ast.stmt] = None  # owning statement

    def __repr__(self):
        t = ""
        if self.ast is not None:
            t = " ".join(unparse(self.ast).split())[:60]
        return f"<{self.id}:{self.kind} L{getattr(self.ast, 'lineno', '?')} {t}>"


@dataclass
class Edge:
    src: int
    dst: int
    kind: str  # n true false iter done exc except
    cond: Optional[ast.expr] = None
    pol: bool = True


class _Frame:
    def __init__(self, kind, **kw):
        self.kind = kind  # 'try' 'finally' 'loop'
        self.__dict__.update(kw)
        self.cache: Dict[object, Node] = {}


def _contains_raising(n: ast.AST) -> bool:
    for s in walk_local(n):
        if isinstance(s, (ast.Call, ast.Raise, ast.Assert, ast.Yield, ast.YieldFrom, ast.Await)):
            return True
    return False


def _handler_names(h: ast.ExceptHandler) -> Optional[List[str]]:
    """Class names an except clause catches; None = bare except."""
    if h.type is None:
        return None
    ts = h.type.elts if isinstance(h.type, ast.Tuple) else [h.type]
    return [unparse(t).split(".")[-1] for t in ts]


class CFG:
    def __init__(self, func: ast.FunctionDef, exc_parent: Optional[Callable[[str], Optional[str]]] = None):
        self.func = func
        self.nodes: List[Node] = []
        self.succ: Dict[int, List[Edge]] = {}
        self.pred: Dict[int, List[Edge]] = {}
        self._exc_parent = exc_parent or (lambda name: BUILTIN_EXC_PARENTS.get(name))
        self.entry = self._node("entry")
        self.exit = self._node("exit")
        self.raise_exit = self._node("raise")
        outs = self._block(func.body, [(self.entry, "n", None, True)], [])
        self._connect(outs, self.exit)

    # -- construction helpers ------------------------------------------------
    def _node(self, kind, a=None, stmt=None) -> Node:
        n = Node(len(self.nodes), kind, a, stmt)
        self.nodes.append(n)
        self.succ[n.id] = []
        self.pred[n.id] = []
        return n

    def _edge(self, src: Node, dst: Node, kind="n", cond=None, pol=True):
        for e in self.succ[src.id]:
            if e.dst == dst.id and e.kind == kind and e.cond is cond and e.pol == pol:
                return
        e = Edge(src.id, dst.id, kind, cond, pol)
        self.succ[src.id].append(e)
        self.pred[dst.id].append(e)

    def _connect(self, dangling, dst: Node):
        for src, kind, cond, pol in dangling:
            self._edge(src, dst, kind, cond, pol)

    def _is_subclass(self, name: str, of: str) -> Optional[bool]:
        """True/False when known, None when the class is unknown."""
        seen = 0
        cur: Optional[str] = name
        known = False
        while cur is not None and seen < 50:
            if cur == of:
                return True
            nxt = self._exc_parent(cur)
            if nxt is None and cur not in BUILTIN_EXC_PARENTS:
                return None if not known else None
            known = True
            cur = nxt
            seen += 1
        return False

    # -- exception / jump routing --------------------------------------------
    def _route_exc(self, src: Node, frames: List[_Frame], exc_name: Optional[str] = None, kind="exc"):
        """Add exceptional out-edges of `src` under `frames` (innermost last)."""
        cur_srcs = [(src, kind, None, True)]
        i = len(frames) - 1
        while i >= 0:
            fr = frames[i]
            if fr.kind == "try":
                if exc_name is not None:
                    # explicit raise of a named class: go to the first handler that catches it
                    matched = None
                    maybe = False
                    for h, hnode in fr.handlers:
                        names = _handler_names(h)
                        if names is None:
                            matched = hnode
                            break
                        res = [self._is_subclass(exc_name, nm) for nm in names]
                        if any(r is True for r in res):
                            matched = hnode
                            break
                        if any(r is None for r in res):
                            maybe = True
                            self._connect(cur_srcs, hnode)
                    if matched is not None:
                        self._connect(cur_srcs, matched)
                        return
                    # not (certainly) caught here: continue outward
                else:
                    self._connect(cur_srcs, fr.dispatch)
                    if fr.catch_all:
                        return
                    if fr.dispatch_routed:
                        return
                    fr.dispatch_routed = True
                    cur_srcs = [(fr.dispatch, "exc", None, True)]
            elif fr.kind == "finally":
                key = ("exc",)
                if key in fr.cache:
                    self._connect(cur_srcs, fr.cache[key])
                    return
                j = self._node("join", None, None)
                fr.cache[key] = j
                self._connect(cur_srcs, j)
                outs = self._block(fr.body, [(j, "n", None, True)], frames[:i])
                # after the finally body the exception continues outward
                cont = self._node("join", None, None)
                self._connect(outs, cont)
                cur_srcs = [(cont, "exc", None, True)]
            i -= 1
        self._connect(cur_srcs, self.raise_exit)

    def _route_jump(self, src_dangling, frames: List[_Frame], what: str):
        """Route return / break / continue through enclosing finally bodies."""
        cur = src_dangling
        i = len(frames) - 1
        while i >= 0:
            fr = frames[i]
            if fr.kind == "finally":
                key = (what, id(self._jump_target(frames[:i], what)))
                if key in fr.cache:
                    self._connect(cur, fr.cache[key])
                    return
                j = self._node("join")
                fr.cache[key] = j
                self._connect(cur, j)
                cur = self._block(fr.body, [(j, "n", None, True)], frames[:i])
            elif fr.kind == "loop" and what in ("break", "continue"):
                if what == "break":
                    fr.breaks.extend(cur)
                else:
                    self._connect(cur, fr.head)
                return
            i -= 1
        if what == "return":
            self._connect(cur, self.exit)
        else:
            raise AnalysisError(f"'{what}' outside loop in {self.func.name}")

    def _jump_target(self, frames, what):
        if what == "return":
            return self.exit
        for fr in reversed(frames):
            if fr.kind == "loop":
                return fr
        return None

    # -- statement translation -------------------------------------------------
    def _block(self, stmts, dangling, frames) -> list:
        for st in stmts:
            if not dangling:
                # unreachable code: still build it (so nodes exist) from nowhere
                pass
            dangling = self._stmt(st, dangling, frames)
        return dangling

    def _simple(self, st, dangling, frames, kind="stmt", a=None) -> Node:
        n = self._node(kind, a if a is not None else st, st)
        self._connect(dangling, n)
        return n

    def _stmt(self, st, dangling, frames) -> list:
        if isinstance(st, ast.If):
            t = self._simple(st, dangling, frames, "test", st.test)
            if _contains_raising(st.test):
                self._route_exc(t, frames)
            tv = _const_truth(st.test)
            outs = []
            if tv is not False:
                outs += self._block(st.body, [(t, "true", st.test, True)], frames)
            if tv is not True:
                if st.orelse:
                    outs += self._block(st.orelse, [(t, "false", st.test, False)], frames)
                else:
                    outs.append((t, "false", st.test, False))
            return outs
        if isinstance(st, ast.While):
            t = self._simple(st, dangling, frames, "test", st.test)
            if _contains_raising(st.test):
                self._route_exc(t, frames)
            fr = _Frame("loop", head=t, breaks=[])
            tv = _const_truth(st.test)
            if tv is not False:
                body_out = self._block(st.body, [(t, "true", st.test, True)], frames + [fr])
                self._connect(body_out, t)
            outs = []
            if tv is not True:
                if st.orelse:
                    outs += self._block(st.orelse, [(t, "false", st.test, False)], frames)
                else:
                    outs.append((t, "false", st.test, False))
            outs += fr.breaks
            return outs
        if isinstance(st, (ast.For, ast.AsyncFor)):
            h = self._simple(st, dangling, frames, "for", st)
            if _contains_raising(st.iter):
                self._route_exc(h, frames)
            fr = _Frame("loop", head=h, breaks=[])
            body_out = self._block(st.body, [(h, "iter", None, True)], frames + [fr])
            self._connect(body_out, h)
            outs = []
            if st.orelse:
                outs += self._block(st.orelse, [(h, "done", None, True)], frames)
            else:
                outs.append((h, "done", None, True))
            outs += fr.breaks
            return outs
        if isinstance(st, (ast.With, ast.AsyncWith)):
            w = self._simple(st, dangling, frames, "with", st)
            self._route_exc(w, frames)
            body_out = self._block(st.body, [(w, "n", None, True)], frames)
            x = self._node("with_exit", st, st)
            self._connect(body_out, x)
            return [(x, "n", None, True)]
        if isinstance(st, ast.Try) or type(st).__name__ == "TryStar":
            return self._try(st, dangling, frames)
        if isinstance(st, ast.Return):
            n = self._simple(st, dangling, frames)
            if st.value is not None and _contains_raising(st.value):
                self._route_exc(n, frames)
            self._route_jump([(n, "n", None, True)], frames, "return")
            return []
        if isinstance(st, ast.Raise):
            n = self._simple(st, dangling, frames)
            name = None
            if st.exc is not None:
                e = st.exc.func if isinstance(st.exc, ast.Call) else st.exc
                if isinstance(e, (ast.Name, ast.Attribute)):
                    name = unparse(e).split(".")[-1]
                    # `raise e` of a caught variable: class unknown
                    if isinstance(st.exc, ast.Name) and not name[:1].isupper():
                        name = None
            self._route_exc(n, frames, name, kind="exc")
            return []
        if isinstance(st, ast.Break):
            n = self._simple(st, dangling, frames)
            self._route_jump([(n, "n", None, True)], frames, "break")
            return []
        if isinstance(st, ast.Continue):
            n = self._simple(st, dangling, frames)
            self._route_jump([(n, "n", None, True)], frames, "continue")
            return []
        if isinstance(st, ast.Assert):
            n = self._simple(st, dangling, frames, "test", st.test)
            n.stmt = st
            self._route_exc(n, frames, "AssertionError")
            # the failing outcome is the exc edge; normal continuation knows the test held
            return [(n, "true", st.test, True)]
        if type(st).__name__ == "Match":
            raise AnalysisError(f"match statement not supported (function {self.func.name})")
        # simple statement (Assign, AugAssign, AnnAssign, Expr, Delete, Pass, Import, Global, nested defs ...)
        n = self._simple(st, dangling, frames)
        if not isinstance(st, (ast.FunctionDef, ast.AsyncFunctionDef, ast.ClassDef)) and (_contains_raising(st) or (
                # inside a try block with handlers the author expects its statements to raise: attribute access (a property or a
                # validating descriptor) and subscripts count there, although elsewhere only calls do
                any(fr.kind == "try" for fr in frames) and any(isinstance(x, (ast.Attribute, ast.Subscript)) for x in walk_local(st)))):
            self._route_exc(n, frames)
        return [(n, "n", None, True)]

    def _try(self, st: ast.Try, dangling, frames) -> list:
        outer = list(frames)
        fin_frame = None
        if st.finalbody:
            fin_frame = _Frame("finally", body=st.finalbody)
            outer = outer + [fin_frame]
        handlers = []
        catch_all = False
        for h in st.handlers:
            hn = self._node("handler", h, st)
            handlers.append((h, hn))
            names = _handler_names(h)
            if names is None or any(nm in ("Exception", "BaseException") for nm in names):
                catch_all = True
        inner = outer
        if handlers:
            disp = self._node("dispatch", st, st)
            tf = _Frame("try", handlers=handlers, dispatch=disp, catch_all=catch_all, dispatch_routed=False)
            for h, hn in handlers:
                self._edge(disp, hn, "except", h.type, True)
            inner = outer + [tf]
        body_out = self._block(st.body, dangling, inner)
        if st.orelse:
            body_out = self._block(st.orelse, body_out, outer)
        outs = list(body_out)
        for h, hn in handlers:
            outs += self._block(h.body, [(hn, "n", None, True)], outer)
        if fin_frame is not None:
            j = self._node("join")
            self._connect(outs, j)
            outs = self._block(st.finalbody, [(j, "n", None, True)], frames)
        return outs

    # -- queries ----------------------------------------------------------------
    def nodes_where(self, pred: Callable[[Node], bool]) -> List[Node]:
        return [n for n in self.nodes if pred(n)]

    def nodes_of_stmt(self, st: ast.AST) -> List[Node]:
        return [n for n in self.nodes if n.ast is st or (n.stmt is st and n.kind in ("stmt", "for", "with"))]

    def reachable_from_entry(self) -> Set[int]:
        seen = {self.entry.id}
        stack = [self.entry.id]
        while stack:
            x = stack.pop()
            for e in self.succ[x]:
                if e.dst not in seen:
                    seen.add(e.dst)
                    stack.append(e.dst)
        return seen


def _const_truth(e: ast.expr) -> Optional[bool]:
    if isinstance(e, ast.Constant):
        return bool(e.value)
    return None


_CACHE: Dict[int, CFG] = {}


def build(func: ast.FunctionDef, exc_parent=None) -> CFG:
    key = id(func)
    c = _CACHE.get(key)
    if c is None or c.func is not func:
        c = CFG(func, exc_parent)
        _CACHE[key] = c
    return c
