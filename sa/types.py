"""Annotation-driven receiver / callee resolution (no type checker is available).

Types come from what the repository writes down: parameter, attribute and
dataclass-field annotations, constructor calls, return annotations, element
types of annotated containers, and `for` targets over them."""
from __future__ import annotations

import ast
from dataclasses import dataclass
from typing import Dict, List, Optional, Tuple

from .program import ClassInfo, FuncInfo, ModuleInfo, Program, unparse, walk_local


@dataclass(frozen=True)
class T:
    kind: str  # cls ext type dict set list tuple iter unknown module func
    cls: Optional[ClassInfo] = None
    name: str = ""
    key: Optional["T"] = None
    elem: Optional["T"] = None
    items: Tuple["T", ...] = ()
    fn: Optional[FuncInfo] = None

    def __str__(self):
        if self.kind == "cls":
            return self.cls.name
        if self.kind == "type":
            return f"Type[{self.elem}]"
        if self.kind in ("ext", "module"):
            return self.name
        if self.kind == "dict":
            return f"Dict[{self.key},{self.elem}]"
        if self.kind in ("set", "list", "iter"):
            return f"{self.kind}[{self.elem}]"
        if self.kind == "tuple":
            return "Tuple[" + ",".join(map(str, self.items)) + "]"
        return self.kind

    def is_cls(self, name: str) -> bool:
        return self.kind == "cls" and self.cls.name == name


UNKNOWN = T("unknown")
INT = T("ext", name="int")

_CONTAINER_NAMES = {
    "Dict": "dict", "dict": "dict", "DefaultDict": "dict", "defaultdict": "dict", "Counter": "dict", "OrderedDict": "dict",
    "Mapping": "dict", "MutableMapping": "dict",
    "Set": "set", "set": "set", "FrozenSet": "set", "frozenset": "set",
    "List": "list", "list": "list", "Sequence": "list", "Deque": "list", "deque": "list",
    "Iterable": "iter", "Iterator": "iter", "Generator": "iter", "Collection": "iter",
    "Tuple": "tuple", "tuple": "tuple",
}


class Types:
    def __init__(self, prog: Program):
        self.prog = prog
        self._local_cache: Dict[int, Dict[str, T]] = {}

    # -- annotations ------------------------------------------------------------
    def ann(self, m: ModuleInfo, a: Optional[ast.expr]) -> T:
        if a is None:
            return UNKNOWN
        if isinstance(a, ast.Constant) and isinstance(a.value, str):
            try:
                return self.ann(m, ast.parse(a.value, mode="eval").body)
            except SyntaxError:
                return UNKNOWN
        if isinstance(a, (ast.Name, ast.Attribute)):
            txt = unparse(a)
            c = self.prog.resolve_class_name(m, txt)
            if c is not None:
                return T("cls", cls=c)
            last = txt.split(".")[-1]
            if last in _CONTAINER_NAMES:
                return T(_CONTAINER_NAMES[last], key=UNKNOWN, elem=UNKNOWN)
            head = txt.split(".")[0]
            if head in m.imports:
                return T("ext", name=m.imports[head] + txt[len(head):])
            return T("ext", name=txt)
        if isinstance(a, ast.Subscript):
            base = unparse(a.value).split(".")[-1]
            args = a.slice.elts if isinstance(a.slice, ast.Tuple) else [a.slice]
            if base == "Optional":
                return self.ann(m, args[0])
            if base == "Union":
                for x in args:
                    t = self.ann(m, x)
                    if t.kind in ("cls",):
                        return t
                return self.ann(m, args[0])
            if base in ("Type", "type"):
                return T("type", elem=self.ann(m, args[0]))
            k = _CONTAINER_NAMES.get(base)
            if k == "dict":
                if len(args) == 2:
                    return T("dict", key=self.ann(m, args[0]), elem=self.ann(m, args[1]))
                return T("dict", key=self.ann(m, args[0]), elem=INT)  # Counter[int]
            if k in ("set", "list", "iter"):
                return T(k, elem=self.ann(m, args[0]))
            if k == "tuple" and len(args) == 2 and isinstance(args[1], ast.Constant) and args[1].value is Ellipsis:
                return T("list", elem=self.ann(m, args[0]))  # Tuple[X, ...]: a homogeneous sequence
            if k == "tuple":
                return T("tuple", items=tuple(self.ann(m, x) for x in args if not (isinstance(x, ast.Constant) and x.value is Ellipsis)))
            c = self.prog.resolve_class_name(m, unparse(a.value))
            if c is not None:
                return T("cls", cls=c)
            return self.ann(m, a.value)  # e.g. ContextVar[bool] -> external ContextVar
        if isinstance(a, ast.BinOp) and isinstance(a.op, ast.BitOr):
            l = self.ann(m, a.left)
            return l if l.kind == "cls" else self.ann(m, a.right)
        return UNKNOWN

    # -- attribute lookup -----------------------------------------------------------
    def attr_type(self, c: ClassInfo, attr: str) -> T:
        for ci in self.prog.mro(c):
            if attr in ci.attr_ann:
                return self.ann(ci.module, ci.attr_ann[attr])
            if attr in ci.methods:
                fi = ci.methods[attr]
                if any(d.split(".")[-1] in ("property", "cached_property") for d in fi.decorators):
                    return self.ann(ci.module, fi.node.returns)
                return T("func", fn=fi)
        # un-annotated self.x = <expr> in __init__: infer from the RHS
        for ci in self.prog.mro(c):
            init = ci.methods.get("__init__")
            if init is None:
                continue
            for n in walk_local(init.node):
                if isinstance(n, ast.Assign):
                    for t in n.targets:
                        if isinstance(t, ast.Attribute) and isinstance(t.value, ast.Name) and t.value.id == "self" and t.attr == attr:
                            return self.expr(init, n.value)
        return UNKNOWN

    # -- locals -------------------------------------------------------------------
    def locals_of(self, f: FuncInfo) -> Dict[str, T]:
        key = id(f.node)
        if key in self._local_cache:
            return self._local_cache[key]
        env: Dict[str, T] = {}
        self._local_cache[key] = env
        m = f.module
        args = f.node.args
        allargs = args.posonlyargs + args.args + args.kwonlyargs
        for i, a in enumerate(allargs):
            if a.annotation is not None:
                env[a.arg] = self.ann(m, a.annotation)
            elif i == 0 and f.cls is not None and a.arg in ("self",):
                env[a.arg] = T("cls", cls=f.cls)
            elif i == 0 and f.cls is not None and a.arg == "cls":
                env[a.arg] = T("type", elem=T("cls", cls=f.cls))
        # two passes so that later definitions feeding earlier loops resolve
        for _ in range(2):
            for n in walk_local(f.node):
                if isinstance(n, ast.Assign) and len(n.targets) == 1:
                    self._bind(f, env, n.targets[0], self.expr(f, n.value, env))
                elif isinstance(n, ast.AnnAssign) and isinstance(n.target, ast.Name):
                    env[n.target.id] = self.ann(m, n.annotation)
                elif isinstance(n, (ast.For, ast.AsyncFor)):
                    self._bind(f, env, n.target, self.elem_of(self.expr(f, n.iter, env)))
                elif isinstance(n, (ast.With, ast.AsyncWith)):
                    for it in n.items:
                        if it.optional_vars is not None:
                            self._bind(f, env, it.optional_vars, self.expr(f, it.context_expr, env))
                elif isinstance(n, ast.NamedExpr):
                    self._bind(f, env, n.target, self.expr(f, n.value, env))
                elif isinstance(n, ast.comprehension):
                    self._bind(f, env, n.target, self.elem_of(self.expr(f, n.iter, env)))
        return env

    def _comp_env(self, f, e, env):
        """env extended with the comprehension's own targets (bound from its iterables, left to right)."""
        env2 = dict(env)
        for gen in e.generators:
            self._bind(f, env2, gen.target, self.elem_of(self.expr(f, gen.iter, env2)))
        return env2

    def _bind(self, f, env, target, t: T):
        if isinstance(target, ast.Name):
            if t.kind != "unknown" or target.id not in env:
                if target.id in env and env[target.id].kind != "unknown" and t.kind == "unknown":
                    return
                old = env.get(target.id)
                # a rebinding whose element type could not be inferred does not erase a known one of the same container kind
                if old is not None and old.kind == t.kind and t.kind in ("list", "set", "iter") and (t.elem is None or t.elem.kind == "unknown") and old.elem is not None and old.elem.kind != "unknown":
                    return
                env[target.id] = t
        elif isinstance(target, (ast.Tuple, ast.List)):
            items = t.items if t.kind == "tuple" else ()
            for i, x in enumerate(target.elts):
                self._bind(f, env, x, items[i] if i < len(items) else UNKNOWN)

    def elem_of(self, t: T) -> T:
        if t.kind in ("set", "list", "iter"):
            return t.elem or UNKNOWN
        if t.kind == "dict":
            return t.key or UNKNOWN
        if t.kind == "tuple" and t.items and all(x == t.items[0] for x in t.items):
            return t.items[0]
        return UNKNOWN

    # -- expressions --------------------------------------------------------------
    def expr(self, f: FuncInfo, e: ast.expr, env: Dict[str, T] = None) -> T:
        if env is None:
            env = self.locals_of(f)
        m = f.module
        if isinstance(e, ast.Name):
            if e.id in env:
                return env[e.id]
            if e.id in m.classes:
                return T("type", elem=T("cls", cls=m.classes[e.id]))
            if e.id in m.functions:
                return T("func", fn=m.functions[e.id])
            if e.id in m.imports:
                tgt = m.imports[e.id]
                if tgt in self.prog.modules:
                    return T("module", name=tgt)
                c = self.prog.resolve_class_name(m, e.id)
                if c is not None:
                    return T("type", elem=T("cls", cls=c))
                modname, _, nm = tgt.rpartition(".")
                if modname in self.prog.modules and nm in self.prog.modules[modname].functions:
                    return T("func", fn=self.prog.modules[modname].functions[nm])
                return T("ext", name=tgt)
            if e.id in m.assigns and not getattr(self, "_in_modvar", False):
                self._in_modvar = True
                try:
                    t = self.expr(f, m.assigns[e.id], {})
                finally:
                    self._in_modvar = False
                return t
            return UNKNOWN
        if isinstance(e, ast.Attribute):
            bt = self.expr(f, e.value, env)
            if bt.kind == "cls":
                return self.attr_type(bt.cls, e.attr)
            if bt.kind == "type" and bt.elem and bt.elem.kind == "cls":
                at = self.attr_type(bt.elem.cls, e.attr)
                return at
            if bt.kind == "module":
                mm = self.prog.modules[bt.name]
                if e.attr in mm.classes:
                    return T("type", elem=T("cls", cls=mm.classes[e.attr]))
                if e.attr in mm.functions:
                    return T("func", fn=mm.functions[e.attr])
                if e.attr in mm.assigns:
                    return T("ext", name="const")
                return UNKNOWN
            if bt.kind == "ext":
                return T("ext", name=f"{bt.name}.{e.attr}")
            if bt.kind in ("dict", "set", "list", "iter", "tuple"):
                return T("ext", name=f"<{bt.kind}>.{e.attr}", elem=bt)  # bound container method
            return UNKNOWN
        if isinstance(e, ast.Call):
            return self._call(f, e, env)
        if isinstance(e, ast.Subscript):
            bt = self.expr(f, e.value, env)
            if isinstance(e.slice, ast.Slice):
                return bt
            if bt.kind == "dict":
                return bt.elem or UNKNOWN
            if bt.kind in ("list", "iter"):
                return bt.elem or UNKNOWN
            if bt.kind == "tuple" and isinstance(e.slice, ast.Constant) and isinstance(e.slice.value, int):
                i = e.slice.value
                return bt.items[i] if -len(bt.items) <= i < len(bt.items) else UNKNOWN
            return UNKNOWN
        if isinstance(e, (ast.List, ast.ListComp)):
            el = UNKNOWN
            if isinstance(e, ast.List) and e.elts:
                first = e.elts[0]
                el = self.elem_of(self.expr(f, first.value, env)) if isinstance(first, ast.Starred) else self.expr(f, first, env)
            if isinstance(e, ast.ListComp):
                el = self.expr(f, e.elt, self._comp_env(f, e, env))
            return T("list", elem=el)
        if isinstance(e, (ast.Set, ast.SetComp)):
            if isinstance(e, ast.SetComp):
                return T("set", elem=self.expr(f, e.elt, self._comp_env(f, e, env)))
            return T("set", elem=self.expr(f, e.elts[0], env) if isinstance(e, ast.Set) and e.elts else UNKNOWN)
        if isinstance(e, ast.GeneratorExp):
            return T("iter", elem=self.expr(f, e.elt, self._comp_env(f, e, env)))
        if isinstance(e, ast.Tuple):
            if any(isinstance(x, ast.Starred) for x in e.elts):
                # `(*a, *b)`: a homogeneous snapshot sequence, typed like the list display
                el = UNKNOWN
                for x in e.elts:
                    t = self.elem_of(self.expr(f, x.value, env)) if isinstance(x, ast.Starred) else self.expr(f, x, env)
                    if t.kind != "unknown":
                        el = t
                        break
                return T("list", elem=el)
            return T("tuple", items=tuple(self.expr(f, x, env) for x in e.elts))
        if isinstance(e, ast.Dict):
            return T("dict", key=UNKNOWN, elem=UNKNOWN)
        if isinstance(e, ast.Constant):
            return T("ext", name=type(e.value).__name__)
        if isinstance(e, ast.IfExp):
            t = self.expr(f, e.body, env)
            return t if t.kind != "unknown" else self.expr(f, e.orelse, env)
        if isinstance(e, ast.BoolOp):
            for v in e.values:
                t = self.expr(f, v, env)
                if t.kind != "unknown":
                    return t
        if isinstance(e, ast.Await):
            return self.expr(f, e.value, env)
        return UNKNOWN

    def _call(self, f: FuncInfo, e: ast.Call, env) -> T:
        fn = e.func
        # builtin container constructors / itertools
        if isinstance(fn, ast.Name):
            nm = fn.id
            if nm in ("list", "sorted", "reversed", "tuple") and e.args:
                return T("list", elem=self.elem_of(self.expr(f, e.args[0], env)))
            if nm in ("set", "frozenset"):
                return T("set", elem=self.elem_of(self.expr(f, e.args[0], env)) if e.args else UNKNOWN)
            if nm == "iter" and e.args:
                return T("iter", elem=self.elem_of(self.expr(f, e.args[0], env)))
            if nm == "chain" and e.args:
                for a in e.args:
                    t = self.elem_of(self.expr(f, a, env))
                    if t.kind != "unknown":
                        return T("iter", elem=t)
                return T("iter", elem=UNKNOWN)
            if nm == "enumerate" and e.args:
                return T("iter", elem=T("tuple", items=(INT, self.elem_of(self.expr(f, e.args[0], env)))))
            if nm == "zip":
                return T("iter", elem=T("tuple", items=tuple(self.elem_of(self.expr(f, a, env)) for a in e.args)))
            if nm in ("len", "int", "max", "min", "sum", "abs", "round"):
                return INT
            if nm == "super":
                if f.cls is not None:
                    return T("super", cls=f.cls)
                return UNKNOWN
            if nm == "cast" and len(e.args) == 2:
                return self.ann(f.module, e.args[0])
        ft = self.expr(f, fn, env)
        if ft.kind == "type" and ft.elem is not None:
            return ft.elem
        if ft.kind == "func" and ft.fn is not None:
            return self.ann(ft.fn.module, ft.fn.node.returns)
        if ft.kind == "ext" and ft.elem is not None and ft.name.startswith("<"):
            cont = ft.elem
            meth = ft.name.split(".")[-1]
            if cont.kind == "dict":
                if meth == "values":
                    return T("iter", elem=cont.elem)
                if meth == "keys":
                    return T("iter", elem=cont.key)
                if meth == "items":
                    return T("iter", elem=T("tuple", items=(cont.key or UNKNOWN, cont.elem or UNKNOWN)))
                if meth in ("get", "pop", "setdefault"):
                    return cont.elem or UNKNOWN
                if meth == "copy":
                    return cont
            if cont.kind in ("set", "list"):
                if meth in ("copy", "union", "difference", "intersection"):
                    return cont
                if meth == "pop":
                    return cont.elem or UNKNOWN
            return UNKNOWN
        if isinstance(fn, ast.Attribute):
            bt = self.expr(f, fn.value, env)
            if fn.attr in ("from_buffer", "from_buffer_copy", "from_dict", "from_json", "from_random", "copy") and bt.kind == "type":
                return bt.elem or UNKNOWN
            if bt.kind == "super":
                fi = self.prog.find_method(bt.cls, fn.attr, skip_self=True)
                if fi is not None:
                    return self.ann(fi.module, fi.node.returns)
            if bt.kind == "ext":
                if bt.name in ("socket.socket",) and fn.attr == "accept":
                    return T("tuple", items=(T("ext", name="socket.socket"), UNKNOWN))
                if bt.name == "socket" and fn.attr == "socket":
                    return T("ext", name="socket.socket")
        if ft.kind == "ext":
            if ft.name == "socket.socket":
                return T("ext", name="socket.socket")
            return T("ext", name=ft.name + "()")
        return UNKNOWN

    # -- callee resolution -----------------------------------------------------------
    def callee(self, f: FuncInfo, call: ast.Call) -> Tuple[str, Optional[FuncInfo], str]:
        """-> (status, FuncInfo|None, description); status in internal/external/unresolved"""
        fn = call.func
        env = self.locals_of(f)
        if isinstance(fn, ast.Attribute):
            bt = self.expr(f, fn.value, env)
            if bt.kind == "cls":
                fi = self.prog.find_method(bt.cls, fn.attr)
                if fi is not None:
                    return ("internal", fi, fi.key)
                at = self.attr_type(bt.cls, fn.attr)
                if at.kind != "unknown":
                    return ("external", None, f"{bt.cls.name}.{fn.attr}:{at}")
                # method of an external base class (ctypes.Structure, logging.Logger, ...)
                if any(self.prog.resolve_class_name(ci.module, b) is None for ci in self.prog.mro(bt.cls) for b in ci.base_exprs):
                    return ("external", None, f"{bt.cls.name}.{fn.attr} (external base)")
                return ("unresolved", None, f"{bt.cls.name}.{fn.attr}")
            if bt.kind == "super":
                fi = self.prog.find_method(bt.cls, fn.attr, skip_self=True)
                if fi is not None:
                    return ("internal", fi, fi.key)
                return ("external", None, f"super().{fn.attr}")
            if bt.kind == "type" and bt.elem is not None and bt.elem.kind == "cls":
                fi = self.prog.find_method(bt.elem.cls, fn.attr)
                if fi is not None:
                    return ("internal", fi, fi.key)
                return ("external", None, f"{bt.elem.cls.name}.{fn.attr} (external base)")
            if bt.kind == "module":
                mm = self.prog.modules[bt.name]
                if fn.attr in mm.functions:
                    return ("internal", mm.functions[fn.attr], mm.functions[fn.attr].key)
                if fn.attr in mm.classes:
                    init = self.prog.find_method(mm.classes[fn.attr], "__init__")
                    return ("internal" if init else "external", init, f"{bt.name}.{fn.attr}()")
                return ("unresolved", None, f"{bt.name}.{fn.attr}")
            if bt.kind in ("ext", "dict", "set", "list", "iter", "tuple"):
                return ("external", None, f"{bt}.{fn.attr}")
            return ("unresolved", None, unparse(fn))
        if isinstance(fn, ast.Name):
            t = self.expr(f, fn, env)
            if t.kind == "func" and t.fn is not None:
                return ("internal", t.fn, t.fn.key)
            if t.kind == "type" and t.elem is not None and t.elem.kind == "cls":
                init = self.prog.find_method(t.elem.cls, "__init__")
                if init is not None:
                    return ("internal", init, init.key)
                return ("external", None, f"{t.elem.cls.name}()")
            if t.kind == "ext":
                return ("external", None, t.name)
            import builtins

            if hasattr(builtins, fn.id):
                return ("external", None, f"builtins.{fn.id}")
            # nested function defined in this function
            for q, fi in f.module.functions.items():
                if q == f"{f.qual}.<locals>.{fn.id}":
                    return ("internal", fi, fi.key)
            return ("unresolved", None, fn.id)
        if isinstance(fn, ast.Call):
            return ("external", None, "call-result")
        return ("unresolved", None, unparse(fn))
