"""Source-level expansion of calls to helper functions that did not exist when the rules were written.

The rules of sa/rules are intraprocedural wherever the property is about the order / dominance of statements
inside one function (forward_message, read_message, connect_module, run, ...).  "Extract method" is the most
common behaviour-preserving refactor and would hide those statements behind a call.  Before the program is
indexed, every call to a function that is *not* in the vocabulary the rules were written against
(sa/known_functions.json: the functions of the pinned tree) is therefore expanded in place when it can be done
exactly:

    self.helper(a, b)            ->  body of helper, parameters bound, locals renamed
    x = self.helper(a)           ->  body, each `return E` becoming `x = E`
    return self.helper(a)        ->  body (its returns now return from the caller)
    if self.helper(a): ...       ->  tmp = <expansion>; if tmp: ...

Expansion is a semantics-preserving rewrite (call by value with fresh local names; `return` inside the helper is
eliminated by structuring, never by jumps), so it can only make the analysed program *more* explicit; calls that
cannot be expanded exactly (generators, *args, returns inside loops/try for the statement forms, recursion,
dynamic receivers) are left as calls.  On the pinned tree nothing is expanded.
"""
from __future__ import annotations

import ast
import copy
import json
import os
from typing import Callable, Dict, List, Optional, Set, Tuple

MAX_DEPTH = 3
MAX_STMTS = 120

_KNOWN: Optional[Dict[str, Set[str]]] = None


_SIGS: Dict[str, Dict[str, str]] = {}


def known_functions() -> Dict[str, Set[str]]:
    global _KNOWN
    if _KNOWN is None:
        p = os.path.join(os.path.dirname(os.path.abspath(__file__)), "known_functions.json")
        try:
            raw = json.load(open(p))
            _SIGS.update(raw.pop("#signatures", {}))
            _KNOWN = {k: set(v) for k, v in raw.items()}
        except (OSError, ValueError):
            _KNOWN = {}
    return _KNOWN


def body_signature(fn: ast.FunctionDef, own_names: Set[str]) -> str:
    """digest of a function's parameters and body in which the names of the module's own functions are blanked: equal for a
    function and its renamed copy (whose recursive / sibling calls were renamed along)"""
    import hashlib

    body = [b for b in fn.body if not (isinstance(b, ast.Expr) and isinstance(b.value, ast.Constant) and isinstance(b.value.value, str))]
    order = _local_order(fn, body)
    return _digest_with(fn, body, order, own_names, blank_attrs=None)


def _local_order(fn: ast.FunctionDef, body) -> Dict[str, str]:
    # local variables (parameters, assigned names, handler names) are numbered in order of first appearance: the digest is
    # also equal for a copy whose locals were renamed along with the function
    order: Dict[str, str] = {}
    for a in fn.args.posonlyargs + fn.args.args + fn.args.kwonlyargs + ([fn.args.vararg] if fn.args.vararg else []) + ([fn.args.kwarg] if fn.args.kwarg else []):
        order.setdefault(a.arg, f"_L{len(order)}")
    stored = set()
    for b in body:
        for n in ast.walk(b):
            if isinstance(n, ast.Name) and isinstance(n.ctx, (ast.Store, ast.Del)):
                stored.add(n.id)
            elif isinstance(n, ast.ExceptHandler) and n.name:
                stored.add(n.name)
            elif isinstance(n, ast.arg):
                stored.add(n.arg)

    class Seq(ast.NodeVisitor):  # source order
        def visit_Name(self, n):
            if n.id in stored:
                order.setdefault(n.id, f"_L{len(order)}")

        def visit_ExceptHandler(self, n):
            if n.name:
                order.setdefault(n.name, f"_L{len(order)}")
            self.generic_visit(n)

        def visit_arg(self, n):
            order.setdefault(n.arg, f"_L{len(order)}")

    for b in body:
        Seq().visit(b)
    return order


def _digest_with(fn, body, order, own_names, blank_attrs) -> str:
    """canonical text of the body, written directly (no copy of the tree): locals numbered, names of the module's own
    functions blanked, keywords of sibling calls by position; with blank_attrs every attribute name is blanked and collected"""
    import hashlib

    out: List[str] = []
    w = out.append

    def own_call(n) -> bool:
        return (isinstance(n.func, ast.Attribute) and n.func.attr in own_names) or (isinstance(n.func, ast.Name) and n.func.id in own_names and n.func.id not in order)

    def dump(n, kw_pos=None):
        if isinstance(n, ast.AST):
            if isinstance(n, ast.Name):
                w("N(")
                w(order[n.id] if n.id in order else ("_F_" if n.id in own_names else n.id))
                w(type(n.ctx).__name__[0])
                w(")")
                return
            if isinstance(n, ast.Attribute):
                w("A(")
                dump(n.value)
                if blank_attrs is not None:
                    blank_attrs.append(n.attr)
                    w("._A_")
                else:
                    w("._F_" if n.attr in own_names else "." + n.attr)
                w(type(n.ctx).__name__[0])
                w(")")
                return
            if isinstance(n, ast.arg):
                w("a(" + order.get(n.arg, n.arg) + ")")
                return
            if isinstance(n, ast.keyword):
                w("k(" + (kw_pos if kw_pos is not None and n.arg is not None else str(n.arg)) + "=")
                dump(n.value)
                w(")")
                return
            if isinstance(n, ast.Call):
                own = own_call(n)
                w("C(")
                dump(n.func)
                w("|")
                for a in n.args:
                    dump(a)
                    w(",")
                w("|")
                for i_, k in enumerate(n.keywords):
                    dump(k, f"_K{i_}" if own else None)
                    w(",")
                w(")")
                return
            if isinstance(n, ast.ExceptHandler):
                w("H(")
                dump(n.type)
                w("," + (order.get(n.name, n.name) if n.name else "-") + ",")
                dump(n.body)
                w(")")
                return
            if isinstance(n, ast.Constant):
                w("K(" + repr(n.value) + ")")
                return
            w(type(n).__name__ + "(")
            for f_ in n._fields:
                dump(getattr(n, f_, None))
                w(",")
            w(")")
        elif isinstance(n, list):
            w("[")
            for x in n:
                dump(x)
                w(",")
            w("]")
        else:
            w(repr(n))

    dump(body)
    nargs = len(fn.args.posonlyargs + fn.args.args + fn.args.kwonlyargs)
    return hashlib.sha1((str(nargs) + "|" + "".join(out)).encode()).hexdigest()[:16]


def attr_signature(fn: ast.FunctionDef, own_names: Set[str]) -> Tuple[str, List[str]]:
    """(digest of the function with every attribute name blanked and its locals numbered, the attribute names in source
    order): two versions of a function that differ only by renamed attributes (and renamed locals / parameters) have equal
    digests and position-wise related name lists"""
    body = [b for b in fn.body if not (isinstance(b, ast.Expr) and isinstance(b.value, ast.Constant) and isinstance(b.value.value, str))]
    names: List[str] = []
    dg = _digest_with(fn, body, _local_order(fn, body), own_names, blank_attrs=names)
    return dg, names


def undo_attr_renames(trees: Dict[str, ast.Module]) -> List[str]:
    """Attributes that were merely renamed (`self._sock` -> `self._socket` everywhere) get their original names back: for every
    function of the pinned tree whose attribute-blanked digest is unchanged, the attribute names are compared position by
    position with the recorded ones; a consistent one-to-one mapping from names that did not exist to names that no longer
    exist is a rename."""
    kf = known_functions()
    asigs = _SIGS.get("#attrs", {})
    if not kf or not asigs:
        return []
    votes: Dict[str, Dict[str, int]] = {}
    current_attrs: Set[str] = set()
    for t in trees.values():
        for n in ast.walk(t):
            if isinstance(n, ast.Attribute):
                current_attrs.add(n.attr)
    old_vocab: Set[str] = set()
    for mod, d in asigs.items():
        for q, (dg, names) in d.items():
            old_vocab.update(names)
    for mod, t in trees.items():
        d = asigs.get(mod)
        if not d:
            continue
        present: Dict[str, ast.FunctionDef] = {}
        for st in t.body:
            if isinstance(st, ast.FunctionDef):
                present[st.name] = st
            elif isinstance(st, ast.ClassDef):
                for m in st.body:
                    if isinstance(m, ast.FunctionDef):
                        present[f"{st.name}.{m.name}"] = m
        own = {q.split(".")[-1] for q in list(d) + list(present)}
        for q, (dg, names) in d.items():
            fn = present.get(q)
            if fn is None:
                continue
            dg2, names2 = attr_signature(fn, own)
            if dg2 != dg or len(names2) != len(names):
                continue
            for a, b in zip(names2, names):
                if a != b:
                    votes.setdefault(a, {}).setdefault(b, 0)
                    votes[a][b] += 1
    plan: Dict[str, str] = {}
    for new, olds in votes.items():
        if len(olds) == 1:
            old = next(iter(olds))
            if new not in old_vocab and old not in current_attrs and old not in plan.values():
                plan[new] = old
    if not plan:
        return []
    for t in trees.values():
        for n in ast.walk(t):
            if isinstance(n, ast.Attribute) and n.attr in plan:
                n.attr = plan[n.attr]
            elif isinstance(n, ast.AnnAssign) and isinstance(n.target, ast.Name) and n.target.id in plan and isinstance(getattr(n, "_in_class", None), bool):
                pass
    # a renamed method: its definition carries the name as well
    defined = {m.name for t in trees.values() for c in ast.walk(t) if isinstance(c, ast.ClassDef) for m in c.body if isinstance(m, ast.FunctionDef)}
    for t in trees.values():
        for c in [c for c in ast.walk(t) if isinstance(c, ast.ClassDef)]:
            for m in c.body:
                if isinstance(m, ast.FunctionDef) and m.name in plan and plan[m.name] not in defined:
                    m.name = plan[m.name]
    # the attribute named by a string in hasattr / getattr / setattr / delattr
    for t in trees.values():
        for n in ast.walk(t):
            if isinstance(n, ast.Call) and isinstance(n.func, ast.Name) and n.func.id in ("hasattr", "getattr", "setattr", "delattr") and len(n.args) >= 2 \
                    and isinstance(n.args[1], ast.Constant) and n.args[1].value in plan:
                n.args[1].value = plan[n.args[1].value]
    # class-level annotations / slots naming the attribute
    for t in trees.values():
        for cls in [c for c in ast.walk(t) if isinstance(c, ast.ClassDef)]:
            for st in cls.body:
                if isinstance(st, ast.AnnAssign) and isinstance(st.target, ast.Name) and st.target.id in plan:
                    st.target.id = plan[st.target.id]
                elif isinstance(st, ast.Assign):
                    for x in st.targets:
                        if isinstance(x, ast.Name) and x.id in plan:
                            x.id = plan[x.id]
    return [f".{k} -> .{v}" for k, v in sorted(plan.items())]


def undo_renames(trees: Dict[str, ast.Module]) -> List[str]:
    """A function of the pinned tree that is missing, while a function unknown to the vocabulary with exactly its body (up
    to the names of the module's functions) exists in the same place, was renamed: the analysis renames it back
    everywhere (names carry no behaviour), so that rules anchored on the original name keep working."""
    kf = known_functions()
    if not kf or not _SIGS:
        return []
    plan: Dict[str, str] = {}  # new simple name -> old simple name
    method_news: Set[str] = set()
    for mod, t in trees.items():
        known, sigs = kf.get(mod, set()), _SIGS.get(mod, {})
        if not sigs:
            continue
        present: Dict[str, ast.FunctionDef] = {}
        for st in t.body:
            if isinstance(st, ast.FunctionDef):
                present[st.name] = st
            elif isinstance(st, ast.ClassDef):
                for m in st.body:
                    if isinstance(m, ast.FunctionDef):
                        present[f"{st.name}.{m.name}"] = m
        missing = {q for q in sigs if q not in present}
        unknown = {q: d for q, d in present.items() if q not in known}
        if not missing or not unknown:
            continue
        own = {q.split(".")[-1] for q in list(sigs) + list(present)}
        usig = {q: body_signature(d, own) for q, d in unknown.items()}
        for old in sorted(missing):
            cands = [q for q, sg in usig.items() if sg == sigs[old] and q.rsplit(".", 1)[0:-1] == old.rsplit(".", 1)[0:-1]]
            if len(cands) == 1:
                new_s, old_s = cands[0].split(".")[-1], old.split(".")[-1]
                if plan.get(new_s, old_s) == old_s:
                    plan[new_s] = old_s
                    if "." in old:
                        method_news.add(new_s)
    if not plan:
        return []
    # the old names must be free (nothing else is called that now)
    used = set()
    for t in trees.values():
        for n in ast.walk(t):
            if isinstance(n, ast.Attribute):
                used.add(n.attr)
            elif isinstance(n, ast.Name):
                used.add(n.id)
            elif isinstance(n, ast.FunctionDef):
                used.add(n.name)
    # (a method's old name may also be the name of another class's method - as it was before the rename; only plain functions,
    # which are referenced by bare name, need the name to be unused)
    method_olds = {v for k, v in plan.items() if k in method_news}
    plan = {k: v for k, v in plan.items() if v not in used or v in method_olds}
    if not plan:
        return []
    for t in trees.values():
        for n in ast.walk(t):
            if isinstance(n, ast.Attribute) and n.attr in plan:
                n.attr = plan[n.attr]
            elif isinstance(n, ast.Name) and n.id in plan:
                n.id = plan[n.id]
            elif isinstance(n, ast.FunctionDef) and n.name in plan:
                n.name = plan[n.name]
            elif isinstance(n, ast.keyword) and n.arg in plan:
                pass
    return [f"{k} -> {v}" for k, v in sorted(plan.items())]


def _contains(stmts, kinds) -> bool:
    for s in stmts:
        for n in _walk_no_nested(s):
            if isinstance(n, kinds):
                return True
    return False


def _walk_no_nested(node):
    stack = [node]
    first = True
    while stack:
        n = stack.pop()
        yield n
        if not first and isinstance(n, (ast.FunctionDef, ast.AsyncFunctionDef, ast.ClassDef, ast.Lambda)):
            continue
        first = False
        stack.extend(ast.iter_child_nodes(n))


def _returns_only_structured(stmts) -> bool:
    """every Return sits directly in the function body or in (nested) if/else branches - not in loops, try, with, match"""
    for s in stmts:
        if isinstance(s, ast.Return):
            continue
        if isinstance(s, ast.If):
            if not _returns_only_structured(s.body) or not _returns_only_structured(s.orelse):
                return False
            continue
        if isinstance(s, ast.Try) and not s.finalbody and not _contains(s.body, ast.Return):
            # `try: A except E: H; return` followed by REST  ==  `try: A except E: H else: REST`
            if all(_returns_only_structured(h.body) for h in s.handlers) and _returns_only_structured(s.orelse):
                continue
            return False
        if _contains([s], ast.Return):
            return False
    return True


def _lift_loop_returns(stmts: List[ast.stmt]) -> Optional[List[ast.stmt]]:
    """`return E` inside a loop (of a helper that is expanded where its value is assigned or dropped) becomes
    `_rv = E; _rf = True; break` (+ `if _rf: break` after enclosing inner loops) and `if _rf: return _rv` after the outermost
    loop - the same control flow with every `return` outside the loops.  None when a return sits inside with / match."""
    for s in stmts:
        for n in _walk_no_nested(s):
            if isinstance(n, ast.With) and _contains(n.body, ast.Return) and any(isinstance(a, (ast.For, ast.While)) for a in [s]):
                pass
    used = {n.id for s in stmts for n in ast.walk(s) if isinstance(n, ast.Name)}
    rf, rv = "_returned", "_retval"
    k = 0
    while rf in used or rv in used:
        k += 1
        rf, rv = f"_returned{k}", f"_retval{k}"
    changed = [False]

    def in_loop(block: List[ast.stmt]) -> List[ast.stmt]:
        out: List[ast.stmt] = []
        for s in block:
            if isinstance(s, ast.Return):
                changed[0] = True
                out.append(ast.copy_location(ast.Assign(targets=[ast.Name(id=rv, ctx=ast.Store())], value=s.value or ast.Constant(value=None)), s))
                out.append(ast.copy_location(ast.Assign(targets=[ast.Name(id=rf, ctx=ast.Store())], value=ast.Constant(value=True)), s))
                out.append(ast.copy_location(ast.Break(), s))
                return out
            if isinstance(s, (ast.For, ast.While)):
                had = _contains(s.body, ast.Return) or _contains(s.orelse, ast.Return)
                if had:
                    return None  # a return under two loop levels: the helper is left as written (rules that know helpers judge it)
                s.body = in_loop(s.body)
                if _contains(s.orelse, ast.Return):
                    return None
                out.append(s)
                if had:
                    out.append(ast.copy_location(ast.If(test=ast.Name(id=rf, ctx=ast.Load()), body=[ast.Break()], orelse=[]), s))
                continue
            if isinstance(s, ast.If):
                b1, b2 = in_loop(s.body), in_loop(s.orelse)
                if b1 is None or b2 is None:
                    return None
                s.body, s.orelse = b1 or [ast.Pass()], b2
                out.append(s)
                continue
            if isinstance(s, ast.Try):
                parts = [in_loop(s.body), in_loop(s.orelse), in_loop(s.finalbody)] + [in_loop(h.body) for h in s.handlers]
                if any(p_ is None for p_ in parts) or _contains(s.finalbody, ast.Return):
                    return None
                s.body, s.orelse, s.finalbody = parts[0] or [ast.Pass()], parts[1], parts[2]
                for h, p_ in zip(s.handlers, parts[3:]):
                    h.body = p_ or [ast.Pass()]
                out.append(s)
                continue
            if _contains([s], ast.Return):
                return None  # with / match: left alone
            out.append(s)
        return out

    def top(block: List[ast.stmt]) -> Optional[List[ast.stmt]]:
        out: List[ast.stmt] = []
        for s in block:
            if isinstance(s, (ast.For, ast.While)) and _contains([s], ast.Return):
                if _contains(s.orelse, ast.Return):
                    return None
                nb = in_loop(s.body)
                if nb is None:
                    return None
                s.body = nb
                out.append(s)
                out.append(ast.copy_location(ast.If(test=ast.Name(id=rf, ctx=ast.Load()), body=[ast.Return(value=ast.Name(id=rv, ctx=ast.Load()))], orelse=[]), s))
            elif isinstance(s, ast.If) and _contains([s], ast.Return):
                b1, b2 = top(s.body), top(s.orelse)
                if b1 is None or b2 is None:
                    return None
                s.body, s.orelse = b1 or [ast.Pass()], b2
                out.append(s)
            else:
                out.append(s)
        return out

    res = top(stmts)
    if res is None or not changed[0]:
        return None
    init = [ast.Assign(targets=[ast.Name(id=rf, ctx=ast.Store())], value=ast.Constant(value=False)), ast.Assign(targets=[ast.Name(id=rv, ctx=ast.Store())], value=ast.Constant(value=None))]
    for x in init:
        ast.copy_location(x, stmts[0])
    res = init + res
    for x in res:
        ast.fix_missing_locations(x)
    return res


def _always_returns(stmts) -> bool:
    if not stmts:
        return False
    s = stmts[-1]
    if isinstance(s, (ast.Return, ast.Raise)):
        return True
    if isinstance(s, ast.If):
        return bool(s.orelse) and _always_returns(s.body) and _always_returns(s.orelse)
    return False


def _pure(e) -> bool:
    if isinstance(e, (ast.Name, ast.Constant)):
        return True
    if isinstance(e, ast.Attribute):
        return _pure(e.value)
    return False


_SIMPLE_CALLS = {"ctypes.sizeof", "sizeof", "len", "int", "float", "bool", "str", "bytes", "min", "max", "abs", "tuple", "list"}


def _simple(e) -> bool:
    """an expression without side effects whose value does not depend on when it is evaluated within a short helper"""
    if _pure(e):
        return True
    if isinstance(e, ast.Call) and isinstance(e.func, ast.Attribute) and e.func.attr == "get" and _pure(e.func.value) and 1 <= len(e.args) <= 2 and all(_simple(a) for a in e.args) and not e.keywords:
        return True  # mapping lookup
    if isinstance(e, ast.Call):
        return ast.unparse(e.func) in _SIMPLE_CALLS and not e.keywords and all(_simple(a) for a in e.args)
    if isinstance(e, ast.BinOp):
        return _simple(e.left) and _simple(e.right)
    if isinstance(e, ast.UnaryOp):
        return _simple(e.operand)
    if isinstance(e, ast.BoolOp):
        return all(_simple(v) for v in e.values)
    if isinstance(e, ast.Compare):
        return _simple(e.left) and all(_simple(c) for c in e.comparators)
    if isinstance(e, ast.Subscript):
        return _simple(e.value) and (isinstance(e.slice, ast.Slice) or _simple(e.slice))
    if isinstance(e, (ast.Tuple, ast.List)):
        return all(_simple(x) for x in e.elts)
    if isinstance(e, ast.JoinedStr):
        return all(isinstance(v, ast.Constant) or (isinstance(v, ast.FormattedValue) and _simple(v.value) and v.format_spec is None) for v in e.values)
    if isinstance(e, ast.Call) and isinstance(e.func, ast.Attribute) and e.func.attr == "get" and _pure(e.func.value) and 1 <= len(e.args) <= 2 and all(_simple(a) for a in e.args) and not e.keywords:
        return True  # mapping lookup
    return False


class _Rename(ast.NodeTransformer):
    def __init__(self, rename: Dict[str, str], subst: Dict[str, ast.expr]):
        self.rename, self.subst = rename, subst

    def visit_Name(self, n):
        if n.id in self.subst and isinstance(n.ctx, ast.Load):
            return ast.copy_location(copy.deepcopy(self.subst[n.id]), n)
        if n.id in self.rename:
            return ast.copy_location(ast.Name(id=self.rename[n.id], ctx=n.ctx), n)
        return n

    def visit_ExceptHandler(self, n):
        if n.name and n.name in self.rename:
            n.name = self.rename[n.name]
        self.generic_visit(n)
        return n


class Expander:
    def __init__(self, tree: ast.Module, modname: str, known: Set[str]):
        self.tree, self.modname, self.known = tree, modname, known
        self.funcs: Dict[str, ast.FunctionDef] = {}
        self.classes: Dict[str, Dict[str, ast.FunctionDef]] = {}
        self.bases: Dict[str, List[str]] = {}
        self.count = 0
        self.sites: List[str] = []
        self._n = 0
        for st in tree.body:
            if isinstance(st, ast.FunctionDef):
                self.funcs[st.name] = st
            elif isinstance(st, ast.ClassDef):
                self.classes[st.name] = {m.name: m for m in st.body if isinstance(m, ast.FunctionDef)}
                self.bases[st.name] = [b.id for b in st.bases if isinstance(b, ast.Name)]
        # components: `self.table = SubscriptionTable()` in __init__, SubscriptionTable a class of this module that the rules
        # never saw (none of its methods in the vocabulary): calls `self.table.m(...)` are expanded with self := self.table
        self.components: Dict[str, Dict[str, str]] = {}
        new_classes = {cn for cn, ms in self.classes.items() if not any(f"{cn}.{mn}" in known for mn in ms) and f"={cn}" not in known}
        for cn, ms in self.classes.items():
            init = ms.get("__init__")
            if init is None:
                continue
            seen_attr: Dict[str, int] = {}
            for n in ast.walk(init):
                tv = None
                if isinstance(n, ast.Assign) and len(n.targets) == 1:
                    tv = (n.targets[0], n.value)
                elif isinstance(n, ast.AnnAssign) and n.value is not None:
                    tv = (n.target, n.value)
                if tv and isinstance(tv[0], ast.Attribute) and isinstance(tv[0].value, ast.Name) and tv[0].value.id == "self":
                    seen_attr[tv[0].attr] = seen_attr.get(tv[0].attr, 0) + 1
                    if isinstance(tv[1], ast.Call) and isinstance(tv[1].func, ast.Name) and tv[1].func.id in new_classes and tv[1].func.id != cn:
                        self.components.setdefault(cn, {})[tv[0].attr] = tv[1].func.id
            for a_ in list(self.components.get(cn, {})):
                if seen_attr.get(a_, 0) != 1:
                    del self.components[cn][a_]
        # an attribute re-bound outside __init__ is not a fixed component
        for cn, comp in self.components.items():
            for mn, m in self.classes[cn].items():
                if mn == "__init__":
                    continue
                for n in ast.walk(m):
                    if isinstance(n, ast.Attribute) and isinstance(n.ctx, (ast.Store, ast.Del)) and isinstance(n.value, ast.Name) and n.value.id == "self" and n.attr in comp:
                        comp.pop(n.attr, None)

    # ---- resolution -------------------------------------------------------------------------------------
    def _method(self, cname: str, mname: str, seen=()) -> Optional[Tuple[ast.FunctionDef, str]]:
        if cname in seen or cname not in self.classes:
            return None
        if mname in self.classes[cname]:
            return self.classes[cname][mname], f"{cname}.{mname}"
        for b in self.bases.get(cname, []):
            r = self._method(b, mname, seen + (cname,))
            if r:
                return r
        return None

    def resolve(self, call: ast.Call, cname: Optional[str]):
        fn = call.func
        if isinstance(fn, ast.Attribute) and isinstance(fn.value, ast.Name):
            if fn.value.id == "self" and cname:
                r = self._method(cname, fn.attr)
                if r:
                    d, q = r
                    return d, q, self._kind(d)
            elif fn.value.id in self.classes:
                r = self._method(fn.value.id, fn.attr)
                if r and self._kind(r[0]) == "static":
                    return r[0], r[1], "static"
        elif isinstance(fn, ast.Attribute) and isinstance(fn.value, ast.Attribute) and isinstance(fn.value.value, ast.Name) and fn.value.value.id == "self" and cname:
            comp = self.components.get(cname, {}).get(fn.value.attr)
            if comp:
                r = self._method(comp, fn.attr)
                if r and self._kind(r[0]) == "method":
                    return r[0], r[1], "method"
        elif isinstance(fn, ast.Name) and fn.id in self.funcs:
            return self.funcs[fn.id], fn.id, "function"
        return None

    @staticmethod
    def _kind(d: ast.FunctionDef) -> str:
        decs = [ast.unparse(x) for x in d.decorator_list]
        if not decs:
            return "method"
        if decs == ["staticmethod"]:
            return "static"
        return "other"

    def eligible(self, d: ast.FunctionDef, qual: str, kind: str, stack: Tuple[str, ...]) -> bool:
        if qual in self.known or qual in stack or len(stack) > MAX_DEPTH:
            return False
        if kind == "other" or (kind == "function" and d.decorator_list):
            return False
        a = d.args
        if a.vararg or a.kwarg:
            return False
        if _contains(d.body, (ast.Yield, ast.YieldFrom, ast.Await, ast.Global, ast.Nonlocal, ast.FunctionDef, ast.AsyncFunctionDef, ast.ClassDef)):
            return False
        if sum(1 for _ in ast.walk(d)) > MAX_STMTS * 12:
            return False
        return True

    # ---- expansion -----------------------------------------------------------------------------------------
    def bind(self, d: ast.FunctionDef, call: ast.Call, kind: str):
        a = d.args
        params = [x.arg for x in a.posonlyargs + a.args]
        anns = {x.arg: x.annotation for x in a.posonlyargs + a.args + a.kwonlyargs}
        actual: Dict[str, ast.expr] = {}
        if kind == "method":
            if not params:
                return None
            recv = call.func.value if isinstance(call.func, ast.Attribute) else ast.Name(id="self", ctx=ast.Load())
            actual[params[0]] = copy.deepcopy(recv)
            params = params[1:]
        if any(isinstance(x, ast.Starred) for x in call.args) or any(k.arg is None for k in call.keywords):
            return None
        if len(call.args) > len(params):
            return None
        for p, v in zip(params, call.args):
            actual[p] = v
        kwonly = [x.arg for x in a.kwonlyargs]
        for k in call.keywords:
            if k.arg in actual or k.arg not in params + kwonly:
                return None
            actual[k.arg] = k.value
        allp = [x.arg for x in a.posonlyargs + a.args]
        defaults = dict(zip(allp[len(allp) - len(a.defaults):], a.defaults))
        for x, dv in zip(a.kwonlyargs, a.kw_defaults):
            if dv is not None:
                defaults[x.arg] = dv
        for p in params + kwonly:
            if p not in actual:
                if p not in defaults:
                    return None
                actual[p] = defaults[p]
        return actual, anns

    def expand(self, call: ast.Call, d: ast.FunctionDef, qual: str, kind: str, mode: str, target, cname, stack) -> Optional[List[ast.stmt]]:
        b = self.bind(d, call, kind)
        if b is None:
            return None
        actual, anns = b
        body = copy.deepcopy(d.body)
        if body and isinstance(body[0], ast.Expr) and isinstance(body[0].value, ast.Constant) and isinstance(body[0].value.value, str):
            body = body[1:]
        if mode != "return" and not _returns_only_structured(body):
            body = _lift_loop_returns(body)
            if body is None or not _returns_only_structured(body):
                return None
        self._n += 1
        suf = f"__{d.name.strip('_')}{self._n}"
        stored: Set[str] = set()
        for s in body:
            for n in _walk_no_nested(s):
                if isinstance(n, ast.Name) and isinstance(n.ctx, (ast.Store, ast.Del)):
                    stored.add(n.id)
                elif isinstance(n, ast.ExceptHandler) and n.name:
                    stored.add(n.name)
        rename, subst, pre = {}, {}, []
        loads: Dict[str, int] = {}
        for s_ in body:
            for n in _walk_no_nested(s_):
                if isinstance(n, ast.Name) and isinstance(n.ctx, ast.Load):
                    loads[n.id] = loads.get(n.id, 0) + 1
        for p, v in actual.items():
            if p not in stored and (_pure(v) or (_simple(v) and loads.get(p, 0) <= 1)):
                subst[p] = v
            else:
                rename[p] = p + suf
                tgt = ast.Name(id=p + suf, ctx=ast.Store())
                if anns.get(p) is not None:
                    pre.append(ast.AnnAssign(target=tgt, annotation=copy.deepcopy(anns[p]), value=copy.deepcopy(v), simple=1))
                else:
                    pre.append(ast.Assign(targets=[tgt], value=copy.deepcopy(v)))
        for n in stored:
            if n not in rename:
                rename[n] = n + suf
        # `x = self.make(...)` where make builds one local and returns it at its end: let that local *be* x (no alias)
        drop_tail = False
        if mode == "assign" and body and isinstance(body[-1], ast.Return) and body[-1].value is not None and not _contains(body[:-1], ast.Return):
            rv = body[-1].value
            pairs = None
            tail_assigns: List[Tuple[str, ast.expr]] = []
            if isinstance(target, ast.Name) and isinstance(rv, ast.Name):
                pairs = [(target.id, rv.id)]
            elif isinstance(target, ast.Tuple) and isinstance(rv, ast.Tuple) and len(target.elts) == len(rv.elts) and all(isinstance(x, ast.Name) for x in target.elts):
                # element-wise: a returned local becomes the target itself, any other element is assigned in order
                pairs = [(t_.id, l_.id) for t_, l_ in zip(target.elts, rv.elts) if isinstance(l_, ast.Name) and l_.id in stored]
                tail_assigns = [(t_.id, l_) for t_, l_ in zip(target.elts, rv.elts) if not (isinstance(l_, ast.Name) and l_.id in stored)]
                tnames = {t_.id for t_ in target.elts}
                # later elements must not read a target that an earlier element assigns (tuple assignment is simultaneous)
                plocals = {l_ for _, l_ in pairs}
                if any(isinstance(n, ast.Name) and n.id in tnames and n.id not in plocals for _, v_ in tail_assigns for n in ast.walk(v_)):
                    pairs = None
            if pairs and len({l_ for _, l_ in pairs}) == len(pairs) and all(l_ in stored and l_ not in actual for _, l_ in pairs):
                locs = {l_ for _, l_ in pairs}
                clash = False
                for tname, lname in pairs:
                    if any(isinstance(n, ast.Name) and n.id == tname and n.id not in locs for st_ in body for n in _walk_no_nested(st_)):
                        clash = True
                    if any(isinstance(n, ast.Name) and n.id == tname for v in actual.values() for n in ast.walk(v)):
                        clash = True
                # a target that is also another pair's local would be renamed twice
                if {t_ for t_, _ in pairs} & (locs - {l_ for t_, l_ in pairs if t_ == l_}) - {t_ for t_, l_ in pairs if t_ == l_}:
                    clash = clash or any(t_ in locs and t_ != l_ for t_, l_ in pairs)
                if not clash:
                    for tname, lname in pairs:
                        rename[lname] = tname
                    drop_tail = True
                    self._tail_assigns = tail_assigns
        rn = _Rename(rename, subst)
        body = [rn.visit(s) for s in body]
        if drop_tail:
            extra = [ast.Assign(targets=[ast.Name(id=t_, ctx=ast.Store())], value=rn.visit(copy.deepcopy(v_))) for t_, v_ in getattr(self, "_tail_assigns", [])]
            self._tail_assigns = []
            body = body[:-1] + extra
            mode = "stmt"
        if mode == "return":
            if not _always_returns(body):
                body = body + [ast.Return(value=ast.Constant(value=None))]
        else:
            if mode == "assign" and not _always_returns(body):
                body = body + [ast.Return(value=ast.Constant(value=None))]
            body = self._structure(body, [], mode, target)
        out = pre + body
        if not out:
            out = [ast.Pass()]
        for s in out:
            for n in ast.walk(s):
                if not hasattr(n, "lineno") and isinstance(n, (ast.stmt, ast.expr)):
                    ast.copy_location(n, call)
            ast.fix_missing_locations(s)
        self.count += 1
        self.sites.append(f"{'.'.join(stack[-1:])} <- {qual}")
        return self.block(out, cname, stack + (qual,))

    def _effect(self, v, mode, target) -> List[ast.stmt]:
        if mode == "assign":
            return [ast.Assign(targets=[copy.deepcopy(target)], value=v if v is not None else ast.Constant(value=None))]
        if v is None or _pure(v):
            return []
        return [ast.Expr(value=v)]

    def _structure(self, stmts, cont, mode, target) -> List[ast.stmt]:
        if not stmts:
            return copy.deepcopy(cont)
        s, rest = stmts[0], stmts[1:]
        if isinstance(s, ast.Return):
            return self._effect(s.value, mode, target)
        if isinstance(s, ast.If) and _contains([s], ast.Return):
            after = self._structure(rest, cont, mode, target)
            body = self._structure(s.body, after, mode, target) or [ast.Pass()]
            orelse = self._structure(s.orelse, after, mode, target)
            return [ast.copy_location(ast.If(test=s.test, body=body, orelse=orelse), s)]
        if isinstance(s, ast.Try) and _contains([s], ast.Return):
            after = self._structure(rest, cont, mode, target)
            handlers = [ast.copy_location(ast.ExceptHandler(type=h.type, name=h.name, body=self._structure(h.body, after, mode, target) or [ast.Pass()]), h) for h in s.handlers]
            orelse = self._structure(s.orelse, after, mode, target)
            return [ast.copy_location(ast.Try(body=s.body, handlers=handlers, orelse=orelse, finalbody=[]), s)]
        return [s] + self._structure(rest, cont, mode, target)

    # ---- traversal ----------------------------------------------------------------------------------------------
    def _try(self, s: ast.stmt, cname, stack) -> Optional[List[ast.stmt]]:
        g = self._gen_consumer(s, cname, stack)
        if g is not None:
            return g

        def res(c):
            if not isinstance(c, ast.Call):
                return None
            r = self.resolve(c, cname)
            if r is None:
                return None
            d, q, kind = r
            return (d, q, kind) if self.eligible(d, q, kind, stack) else None

        if isinstance(s, ast.Expr):
            r = res(s.value)
            if r:
                return self.expand(s.value, r[0], r[1], r[2], "stmt", None, cname, stack)
        elif isinstance(s, ast.Return) and s.value is not None:
            r = res(s.value)
            if r:
                return self.expand(s.value, r[0], r[1], r[2], "return", None, cname, stack)
        elif isinstance(s, ast.Assign) and len(s.targets) == 1:
            r = res(s.value)
            if r and (_pure(s.targets[0]) or (isinstance(s.targets[0], ast.Tuple) and all(isinstance(e, ast.Name) for e in s.targets[0].elts))):
                return self.expand(s.value, r[0], r[1], r[2], "assign", s.targets[0], cname, stack)
        elif isinstance(s, ast.AnnAssign) and s.value is not None and isinstance(s.target, ast.Name):
            r = res(s.value)
            if r:
                return self.expand(s.value, r[0], r[1], r[2], "assign", ast.Name(id=s.target.id, ctx=ast.Store()), cname, stack)
        elif isinstance(s, ast.For) and isinstance(s.iter, ast.Call):
            r = res(s.iter)
            if r:
                self._n += 1
                tmp = f"_inl_{r[0].name.strip('_')}{self._n}"
                ex = self.expand(s.iter, r[0], r[1], r[2], "assign", ast.Name(id=tmp, ctx=ast.Store()), cname, stack)
                if ex is not None:
                    s.iter = ast.copy_location(ast.Name(id=tmp, ctx=ast.Load()), s.iter)
                    s.body = self.block(s.body, cname, stack)
                    s.orelse = self.block(s.orelse, cname, stack)
                    return ex + [s]
        elif isinstance(s, ast.With) and len(s.items) == 1 and isinstance(s.items[0].context_expr, ast.Call):
            ex = self._with_cm(s, cname, stack)
            if ex is not None:
                return ex
        elif isinstance(s, ast.If):
            t = s.test
            neg = isinstance(t, ast.UnaryOp) and isinstance(t.op, ast.Not)
            c = t.operand if neg else t
            r = res(c)
            if r:
                self._n += 1
                tmp = f"_inl_{r[0].name.strip('_')}{self._n}"
                ex = self.expand(c, r[0], r[1], r[2], "assign", ast.Name(id=tmp, ctx=ast.Store()), cname, stack)
                if ex is not None:
                    nt = ast.Name(id=tmp, ctx=ast.Load())
                    s.test = ast.copy_location(ast.UnaryOp(op=ast.Not(), operand=nt) if neg else nt, t)
                    ast.fix_missing_locations(s)
                    s.body = self.block(s.body, cname, stack)
                    s.orelse = self.block(s.orelse, cname, stack)
                    return ex + [s]
        return None

    # ---- generator functions ------------------------------------------------------------------------------------------
    _GT = "__gen_target__"

    def _is_new_generator(self, call, cname, stack):
        if not isinstance(call, ast.Call):
            return None
        r = self.resolve(call, cname) or None
        if r is None:
            r2 = self.resolve_any(call, cname)
            if r2 is None:
                return None
            r = (r2[0], r2[1], "method" if r2[2] == "cm-method" else "function")
        d, q, kind = r
        if q in self.known or q in stack or len(stack) > MAX_DEPTH or d.decorator_list or d.args.vararg or d.args.kwarg:
            return None
        if not _contains(d.body, (ast.Yield, ast.YieldFrom)):
            return None
        if _contains(d.body, (ast.Await, ast.Global, ast.Nonlocal, ast.FunctionDef, ast.AsyncFunctionDef, ast.ClassDef, ast.Lambda)):
            return None
        # every yield is a statement of its own
        for b in d.body:
            for n in _walk_no_nested(b):
                if isinstance(n, (ast.Yield, ast.YieldFrom)):
                    pass
        stm = [n for b in d.body for n in _walk_no_nested(b) if isinstance(n, ast.Expr) and isinstance(n.value, (ast.Yield, ast.YieldFrom))]
        allY = [n for b in d.body for n in _walk_no_nested(b) if isinstance(n, (ast.Yield, ast.YieldFrom))]
        if len(stm) != len(allY) or len(allY) > 48:
            return None
        return d, q, kind

    def _gen_consumer(self, s, cname, stack) -> Optional[List[ast.stmt]]:
        """statements that consume a generator function added after the rules were written:
             for T in G(a): BODY                       -> body of G with `T = <yielded>; BODY` at every yield
             X = list(G(a)) / tuple(..) / dict(G(a))    -> X = [] / {} filled at every yield
             f.writelines(G(a))                         -> f.write(<yielded>) at every yield
             ... SEP.join(G(a)) ...                     -> the parts collected into a list first"""
        def fresh(prefix):
            self._n += 1
            return f"_{prefix}{self._n}"

        # --- rewrite the other consumers into the for form
        if isinstance(s, (ast.Assign, ast.AnnAssign)) and isinstance(s.value, ast.Call) and isinstance(s.value.func, ast.Name) and s.value.func.id in ("list", "tuple", "dict") \
                and len(s.value.args) == 1 and not s.value.keywords and self._is_new_generator(s.value.args[0], cname, stack):
            tgt = s.targets[0] if isinstance(s, ast.Assign) and len(s.targets) == 1 else (s.target if isinstance(s, ast.AnnAssign) else None)
            if tgt is None or not _pure(tgt):
                return None
            kind = s.value.func.id
            init = ast.copy_location(ast.Assign(targets=[tgt], value=(ast.Dict(keys=[], values=[]) if kind == "dict" else ast.List(elts=[], ctx=ast.Load()))), s)
            load = copy.deepcopy(tgt)
            for x in ast.walk(load):
                if hasattr(x, "ctx"):
                    x.ctx = ast.Load()
            if kind == "dict":
                k, v = fresh("k"), fresh("v")
                body = [ast.Assign(targets=[ast.Subscript(value=load, slice=ast.Name(id=k, ctx=ast.Load()), ctx=ast.Store())], value=ast.Name(id=v, ctx=ast.Load()))]
                loop = ast.For(target=ast.Tuple(elts=[ast.Name(id=k, ctx=ast.Store()), ast.Name(id=v, ctx=ast.Store())], ctx=ast.Store()), iter=s.value.args[0], body=body, orelse=[])
            else:
                e = fresh("e")
                body = [ast.Expr(value=ast.Call(func=ast.Attribute(value=load, attr="append", ctx=ast.Load()), args=[ast.Name(id=e, ctx=ast.Load())], keywords=[]))]
                loop = ast.For(target=ast.Name(id=e, ctx=ast.Store()), iter=s.value.args[0], body=body, orelse=[])
            ast.copy_location(loop, s)
            for x in (init, loop):
                ast.fix_missing_locations(x)
            ex = self._for_gen(loop, cname, stack)
            return None if ex is None else [init] + ex
        if isinstance(s, ast.Expr) and isinstance(s.value, ast.Call) and isinstance(s.value.func, ast.Attribute) and s.value.func.attr == "writelines" and len(s.value.args) == 1 \
                and _pure(s.value.func.value) and self._is_new_generator(s.value.args[0], cname, stack):
            e = fresh("line")
            body = [ast.Expr(value=ast.Call(func=ast.Attribute(value=s.value.func.value, attr="write", ctx=ast.Load()), args=[ast.Name(id=e, ctx=ast.Load())], keywords=[]))]
            loop = ast.copy_location(ast.For(target=ast.Name(id=e, ctx=ast.Store()), iter=s.value.args[0], body=body, orelse=[]), s)
            ast.fix_missing_locations(loop)
            return self._for_gen(loop, cname, stack)
        if isinstance(s, (ast.Assign, ast.AnnAssign, ast.Return, ast.Expr, ast.AugAssign)):
            # [ELT for T in G(a) if C] somewhere inside the statement: built by an explicit loop into a temporary first
            comps = [n for n in ast.walk(s) if isinstance(n, (ast.ListComp, ast.GeneratorExp)) and len(n.generators) == 1 and not n.generators[0].is_async
                     and self._is_new_generator(n.generators[0].iter, cname, stack)]
            if len(comps) == 1:
                c0 = comps[0]
                tmp = fresh("items")
                init = ast.copy_location(ast.Assign(targets=[ast.Name(id=tmp, ctx=ast.Store())], value=ast.List(elts=[], ctx=ast.Load())), s)
                app = ast.Expr(value=ast.Call(func=ast.Attribute(value=ast.Name(id=tmp, ctx=ast.Load()), attr="append", ctx=ast.Load()), args=[c0.elt], keywords=[]))
                body = [app]
                for cond in reversed(c0.generators[0].ifs):
                    body = [ast.If(test=cond, body=body, orelse=[])]
                loop = ast.copy_location(ast.For(target=c0.generators[0].target, iter=c0.generators[0].iter, body=body, orelse=[]), s)
                for x in (init, loop):
                    ast.fix_missing_locations(x)
                ex = self._for_gen(loop, cname, stack)
                if ex is None:
                    return None

                class RC(ast.NodeTransformer):
                    def visit_ListComp(self_, n):
                        if n is c0:
                            return ast.copy_location(ast.Name(id=tmp, ctx=ast.Load()), n)
                        self_.generic_visit(n)
                        return n

                    visit_GeneratorExp = visit_ListComp

                s2 = RC().visit(s)
                ast.fix_missing_locations(s2)
                return [init] + ex + self.block([s2], cname, stack)
            # list(G(a)) / dict(G(a)) somewhere inside the statement: computed into a temporary first
            wraps = [n for n in ast.walk(s) if isinstance(n, ast.Call) and isinstance(n.func, ast.Name) and n.func.id in ("list", "tuple", "dict") and len(n.args) == 1 and not n.keywords
                     and self._is_new_generator(n.args[0], cname, stack)]
            if len(wraps) == 1 and not (isinstance(s, (ast.Assign, ast.AnnAssign)) and s.value is wraps[0]):
                tmp = fresh("items")
                pre = ast.copy_location(ast.Assign(targets=[ast.Name(id=tmp, ctx=ast.Store())], value=copy.deepcopy(wraps[0])), s)
                ast.fix_missing_locations(pre)
                ex = self._gen_consumer(pre, cname, stack)
                if ex is None:
                    return None

                class RW(ast.NodeTransformer):
                    def visit_Call(self_, n):
                        if n is wraps[0]:
                            return ast.copy_location(ast.Name(id=tmp, ctx=ast.Load()), n)
                        self_.generic_visit(n)
                        return n

                s2 = RW().visit(s)
                ast.fix_missing_locations(s2)
                return ex + self.block([s2], cname, stack)
            joins = [n for n in ast.walk(s) if isinstance(n, ast.Call) and isinstance(n.func, ast.Attribute) and n.func.attr == "join" and isinstance(n.func.value, ast.Constant)
                     and len(n.args) == 1 and self._is_new_generator(n.args[0], cname, stack)]
            if len(joins) == 1:
                parts, e = fresh("parts"), fresh("e")
                init = ast.copy_location(ast.Assign(targets=[ast.Name(id=parts, ctx=ast.Store())], value=ast.List(elts=[], ctx=ast.Load())), s)
                body = [ast.Expr(value=ast.Call(func=ast.Attribute(value=ast.Name(id=parts, ctx=ast.Load()), attr="append", ctx=ast.Load()), args=[ast.Name(id=e, ctx=ast.Load())], keywords=[]))]
                loop = ast.copy_location(ast.For(target=ast.Name(id=e, ctx=ast.Store()), iter=joins[0].args[0], body=body, orelse=[]), s)
                for x in (init, loop):
                    ast.fix_missing_locations(x)
                ex = self._for_gen(loop, cname, stack)
                if ex is None:
                    return None
                joins[0].args[0] = ast.copy_location(ast.Name(id=parts, ctx=ast.Load()), joins[0])
                return [init] + ex + self.block([s], cname, stack)
        if isinstance(s, ast.For) and not s.orelse:
            return self._for_gen(s, cname, stack)
        return None

    def _for_gen(self, s: ast.For, cname, stack) -> Optional[List[ast.stmt]]:
        g = self._is_new_generator(s.iter, cname, stack)
        if g is None:
            return None
        d, q, kind = g
        # how the caller's body leaves an iteration decides where a yield may stand
        def own(kinds):
            out = []
            st = list(s.body)
            while st:
                x = st.pop()
                if isinstance(x, kinds):
                    out.append(x)
                if isinstance(x, (ast.For, ast.While, ast.FunctionDef, ast.AsyncFunctionDef, ast.ClassDef, ast.Lambda)):
                    continue
                st.extend(ast.iter_child_nodes(x))
            return out

        has_continue, has_break = bool(own(ast.Continue)), bool(own(ast.Break))
        d2 = copy.deepcopy(d)
        # positions of the yields inside G
        def tail_ok(body, in_loop_depth, is_tail_of_func):
            """walk G: every yield statement must be (a) inside a loop as the last thing of an iteration when the caller
            continues, (b) inside exactly one loop that ends G when the caller breaks"""
            ok = True
            for i, st in enumerate(body):
                last = i == len(body) - 1
                if isinstance(st, ast.Expr) and isinstance(st.value, (ast.Yield, ast.YieldFrom)):
                    if isinstance(st.value, ast.YieldFrom):
                        if has_break and not (in_loop_depth == 0 and last and is_tail_of_func):
                            ok = False
                    else:
                        if has_continue and not (in_loop_depth >= 1 and last):
                            ok = False
                        if has_break and not (in_loop_depth == 1):
                            ok = False
                elif isinstance(st, (ast.For, ast.While)):
                    inner_tail = last and is_tail_of_func
                    if has_break and _contains(st.body, (ast.Yield, ast.YieldFrom)) and not (in_loop_depth == 0 and inner_tail):
                        ok = False
                    ok = ok and tail_ok(st.body, in_loop_depth + 1, False) and tail_ok(st.orelse, in_loop_depth, last and is_tail_of_func)
                elif isinstance(st, ast.If):
                    # a yield that ends an if-branch ends the iteration only when the if itself is last
                    for br in (st.body, st.orelse):
                        if has_continue and _contains(br, (ast.Yield, ast.YieldFrom)) and not last:
                            ok = False
                        ok = ok and tail_ok(br, in_loop_depth, last and is_tail_of_func)
                elif isinstance(st, ast.Try):
                    for br in [st.body, st.orelse, st.finalbody] + [h.body for h in st.handlers]:
                        if has_continue and _contains(br, (ast.Yield, ast.YieldFrom)) and not last:
                            ok = False
                        ok = ok and tail_ok(br, in_loop_depth, last and is_tail_of_func)
                elif isinstance(st, ast.With):
                    if has_continue and _contains(st.body, (ast.Yield, ast.YieldFrom)) and not last:
                        ok = False
                    ok = ok and tail_ok(st.body, in_loop_depth, last and is_tail_of_func)
            return ok

        gbody = [b for b in d2.body if not (isinstance(b, ast.Expr) and isinstance(b.value, ast.Constant) and isinstance(b.value.value, str))]
        if not tail_ok(gbody, 0, True):
            return None
        marks = []
        # a generator that only ever yields one of its own locals (`for m in snapshot: ... yield m`) into a plain name: that
        # local *is* the caller's loop variable (no second name for the same object)
        ynames = {n.value.value.id if isinstance(n.value.value, ast.Name) else None for b in gbody for n in _walk_no_nested(b)
                  if isinstance(n, ast.Expr) and isinstance(n.value, ast.Yield)}
        has_yf = any(isinstance(n, ast.YieldFrom) for b in gbody for n in _walk_no_nested(b))
        same_local = None
        if isinstance(s.target, ast.Name) and len(ynames) == 1 and None not in ynames and not has_yf:
            v_ = next(iter(ynames))
            params_ = {a.arg for a in d2.args.posonlyargs + d2.args.args + d2.args.kwonlyargs}
            stored_ = {n.id for b in gbody for n in _walk_no_nested(b) if isinstance(n, ast.Name) and isinstance(n.ctx, ast.Store)}
            if v_ in stored_ and v_ not in params_:
                same_local = v_
                for b in gbody:
                    for n in _walk_no_nested(b):
                        if isinstance(n, ast.Name) and n.id == v_:
                            n.id = Expander._GT

        class Y(ast.NodeTransformer):
            def visit_Expr(self_, n):
                if isinstance(n.value, ast.Yield) and same_local is not None:
                    marks.append(1)
                    return ast.copy_location(ast.Expr(value=ast.Name(id=Expander._MARK, ctx=ast.Load())), n)
                if isinstance(n.value, ast.Yield):
                    marks.append(1)
                    v = n.value.value if n.value.value is not None else ast.Constant(value=None)
                    return [ast.copy_location(ast.Assign(targets=[ast.Name(id=Expander._GT, ctx=ast.Store())], value=v), n),
                            ast.copy_location(ast.Expr(value=ast.Name(id=Expander._MARK, ctx=ast.Load())), n)]
                if isinstance(n.value, ast.YieldFrom):
                    marks.append(1)
                    return ast.copy_location(ast.For(target=ast.Name(id=Expander._GT, ctx=ast.Store()), iter=n.value.value,
                                                     body=[ast.Expr(value=ast.Name(id=Expander._MARK, ctx=ast.Load()))], orelse=[]), n)
                return n

        Y().visit(d2)
        ast.fix_missing_locations(d2)
        ex = self.expand(s.iter, d2, q, kind, "stmt", None, cname, stack)
        if ex is None:
            return None
        inner = self.block(s.body, cname, stack)
        target = s.target

        # `for k, v in G(): BODY` with `yield (a, <expr>)`: when BODY reads k and v once each and all but one yielded element are
        # plain paths / constants, the elements are written where BODY reads them (no temporaries)
        tnames = [e.id for e in target.elts] if isinstance(target, ast.Tuple) and all(isinstance(e, ast.Name) for e in target.elts) else None
        direct = False
        if tnames:
            loads_ = {}
            stores_ = set()
            for st_ in inner:
                for n_ in ast.walk(st_):
                    if isinstance(n_, ast.Name) and n_.id in tnames:
                        if isinstance(n_.ctx, ast.Load):
                            loads_[n_.id] = loads_.get(n_.id, 0) + 1
                        else:
                            stores_.add(n_.id)
            direct = not stores_ and all(loads_.get(t_, 0) == 1 for t_ in tnames)

        direct_name = False
        if isinstance(target, ast.Name):
            l_ = sum(1 for st_ in inner for n_ in ast.walk(st_) if isinstance(n_, ast.Name) and n_.id == target.id and isinstance(n_.ctx, ast.Load))
            s_ = sum(1 for st_ in inner for n_ in ast.walk(st_) if isinstance(n_, ast.Name) and n_.id == target.id and not isinstance(n_.ctx, ast.Load))
            direct_name = l_ == 1 and s_ == 0 and len(inner) == 1
        # BODY == `X.append(T)`: a `yield from it` is `X.extend(it)`
        append_to = None
        if isinstance(target, ast.Name) and len(inner) == 1 and isinstance(inner[0], ast.Expr) and isinstance(inner[0].value, ast.Call) and isinstance(inner[0].value.func, ast.Attribute) \
                and inner[0].value.func.attr == "append" and len(inner[0].value.args) == 1 and isinstance(inner[0].value.args[0], ast.Name) and inner[0].value.args[0].id == target.id:
            append_to = inner[0].value.func.value

        class Put(ast.NodeTransformer):
            def visit_Expr(self_, n):
                if isinstance(n.value, ast.Name) and n.value.id == Expander._MARK:
                    return copy.deepcopy(inner)
                return n

            def visit_Assign(self_, n):
                self_.generic_visit(n)
                if len(n.targets) == 1 and isinstance(n.targets[0], ast.Name) and n.targets[0].id.startswith(Expander._GT):
                    return ast.copy_location(ast.Assign(targets=[copy.deepcopy(target)], value=n.value), n)
                return n

            def visit_For(self_, n):
                self_.generic_visit(n)
                if isinstance(n.target, ast.Name) and n.target.id.startswith(Expander._GT):
                    n.target = copy.deepcopy(target)
                return n

            def visit_Name(self_, n):
                if n.id.startswith(Expander._GT) and isinstance(target, ast.Name):
                    return ast.copy_location(ast.Name(id=target.id, ctx=n.ctx), n)
                return n

        def fuse(stmts):
            """[`__gen_target__ = (a, b)`, <mark>] -> BODY[k := a, v := b] when allowed"""
            res = []
            i = 0
            while i < len(stmts):
                st = stmts[i]
                nx = stmts[i + 1] if i + 1 < len(stmts) else None
                if direct and isinstance(st, ast.Assign) and len(st.targets) == 1 and isinstance(st.targets[0], ast.Name) and st.targets[0].id.startswith(Expander._GT) \
                        and isinstance(st.value, ast.Tuple) and len(st.value.elts) == len(tnames) and isinstance(nx, ast.Expr) and isinstance(nx.value, ast.Name) and nx.value.id == Expander._MARK \
                        and sum(0 if (_pure(e_) or isinstance(e_, ast.Constant)) else 1 for e_ in st.value.elts) <= 1:
                    sub = _Rename({}, dict(zip(tnames, st.value.elts)))
                    res.extend(sub.visit(copy.deepcopy(b_)) for b_ in inner)
                    i += 2
                    continue
                if direct_name and isinstance(st, ast.Assign) and len(st.targets) == 1 and isinstance(st.targets[0], ast.Name) and st.targets[0].id.startswith(Expander._GT) \
                        and isinstance(nx, ast.Expr) and isinstance(nx.value, ast.Name) and nx.value.id == Expander._MARK:
                    sub = _Rename({}, {target.id: st.value})
                    res.extend(sub.visit(copy.deepcopy(b_)) for b_ in inner)
                    i += 2
                    continue
                if append_to is not None and isinstance(st, ast.For) and isinstance(st.target, ast.Name) and st.target.id.startswith(Expander._GT) and len(st.body) == 1 \
                        and isinstance(st.body[0], ast.Expr) and isinstance(st.body[0].value, ast.Name) and st.body[0].value.id == Expander._MARK and not st.orelse:
                    res.append(ast.copy_location(ast.Expr(value=ast.Call(func=ast.Attribute(value=copy.deepcopy(append_to), attr="extend", ctx=ast.Load()), args=[st.iter], keywords=[])), st))
                    i += 1
                    continue
                for fld in ("body", "orelse", "finalbody"):
                    v_ = getattr(st, fld, None)
                    if isinstance(v_, list) and v_ and isinstance(v_[0], ast.stmt):
                        setattr(st, fld, fuse(v_))
                if isinstance(st, ast.Try):
                    for h_ in st.handlers:
                        h_.body = fuse(h_.body)
                res.append(st)
                i += 1
            return res

        ex = fuse(ex)
        out = []
        for st in ex:
            r_ = Put().visit(st)
            out.extend(r_ if isinstance(r_, list) else [r_])
        for st in out:
            ast.fix_missing_locations(st)
        self.sites.append(f"generator {q} expanded at line {getattr(s, 'lineno', 0)}")
        return out

    _MARK = "__with_body__"

    def _with_cm(self, s: ast.With, cname, stack) -> Optional[List[ast.stmt]]:
        """`with self.on_write_failure(module, header): BODY` where on_write_failure is a @contextmanager generator added
        after the rules were written, with exactly one `yield` statement: the generator body with BODY in place of the yield
        (an exception of BODY is thrown in at the yield, a handler there that swallows it ends the with normally - the same
        control flow as the inlined try/except)."""
        call = s.items[0].context_expr
        r = self.resolve_any(call, cname)
        if r is None:
            return None
        d, q, kind = r
        if q in self.known or q in stack or len(stack) > MAX_DEPTH:
            return None
        decs = [ast.unparse(x).split(".")[-1] for x in d.decorator_list]
        if decs != ["contextmanager"] or d.args.vararg or d.args.kwarg:
            return None
        if _contains(d.body, (ast.YieldFrom, ast.Await, ast.Global, ast.Nonlocal, ast.FunctionDef, ast.AsyncFunctionDef, ast.ClassDef, ast.Return, ast.Lambda)):
            return None
        ys = [n for b in d.body for n in ast.walk(b) if isinstance(n, ast.Yield)]
        if len(ys) != 1:
            return None
        d2 = copy.deepcopy(d)
        d2.decorator_list = []
        found = []

        class Y(ast.NodeTransformer):
            def visit_Expr(self_, n):
                if isinstance(n.value, ast.Yield):
                    found.append(n.value.value)
                    return ast.copy_location(ast.Expr(value=ast.Name(id=Expander._MARK, ctx=ast.Load())), n)
                return n

        Y().visit(d2)
        if len(found) != 1:
            return None  # the yield is not a statement of its own (`x = yield`)
        as_t = s.items[0].optional_vars
        if as_t is not None and (found[0] is None or not isinstance(as_t, ast.Name)):
            return None
        if found[0] is not None and as_t is None and not _pure(found[0]):
            return None
        if found[0] is not None and as_t is not None:
            # the yielded value is evaluated in the generator's scope: carry it through the expansion as an assignment there
            class Y2(ast.NodeTransformer):
                def visit_Expr(self_, n):
                    if isinstance(n.value, ast.Name) and n.value.id == Expander._MARK:
                        return [ast.copy_location(ast.Assign(targets=[ast.Name(id="__with_as__", ctx=ast.Store())], value=found[0]), n), n]
                    return n
            Y2().visit(d2)
        ex = self.expand(call, d2, q, "method" if kind == "cm-method" else "function", "stmt", None, cname, stack)
        if ex is None:
            return None
        inner = self.block(s.body, cname, stack)
        as_name = as_t.id if as_t is not None else None

        class Put(ast.NodeTransformer):
            def visit_Expr(self_, n):
                if isinstance(n.value, ast.Name) and n.value.id == Expander._MARK:
                    return inner
                return n

            def visit_Name(self_, n):
                if as_name is not None and n.id.startswith("__with_as__"):
                    return ast.copy_location(ast.Name(id=as_name, ctx=n.ctx), n)
                return n

        out = []
        for st in ex:
            r_ = Put().visit(st)
            out.extend(r_ if isinstance(r_, list) else [r_])
        for st in out:
            ast.fix_missing_locations(st)
        return out

    def resolve_any(self, call: ast.Call, cname):
        """like resolve, but also for decorated definitions (the caller checks the decorator)"""
        fn = call.func
        if isinstance(fn, ast.Attribute) and isinstance(fn.value, ast.Name) and fn.value.id == "self" and cname:
            r = self._method(cname, fn.attr)
            if r:
                return r[0], r[1], "cm-method"
        elif isinstance(fn, ast.Name) and fn.id in self.funcs:
            return self.funcs[fn.id], fn.id, "cm-function"
        return None

    def _expr_calls(self, s: ast.stmt, cname, stack) -> ast.stmt:
        """calls, anywhere in the expressions of s, to helpers whose whole body is `return <expr>`: replaced by that expression"""
        outer = self

        class X(ast.NodeTransformer):
            def visit_FunctionDef(self, n):
                return n

            visit_AsyncFunctionDef = visit_ClassDef = visit_Lambda = visit_FunctionDef

            def visit_Call(self, n):
                self.generic_visit(n)
                r = outer.resolve(n, cname)
                if r is None:
                    return n
                d, q, kind = r
                if not outer.eligible(d, q, kind, stack):
                    return n
                body = [b for b in d.body if not (isinstance(b, ast.Expr) and isinstance(b.value, ast.Constant) and isinstance(b.value.value, str))]
                if len(body) != 1 or not isinstance(body[0], ast.Return) or body[0].value is None:
                    return n
                b = outer.bind(d, n, kind)
                if b is None:
                    return n
                actual, _ = b
                expr = copy.deepcopy(body[0].value)
                loads: Dict[str, int] = {}
                for x in ast.walk(expr):
                    if isinstance(x, ast.Name) and isinstance(x.ctx, ast.Load):
                        loads[x.id] = loads.get(x.id, 0) + 1
                # names bound inside the expression (comprehension targets, lambdas) must not collide with the arguments
                inner = {x.id for x in ast.walk(expr) if isinstance(x, ast.Name) and isinstance(x.ctx, ast.Store)}
                if any(isinstance(x, ast.Name) and x.id in inner for v in actual.values() for x in ast.walk(v)):
                    return n
                for p_, v_ in actual.items():
                    if p_ in inner or not (_pure(v_) or (_simple(v_) and loads.get(p_, 0) <= 1)):
                        return n
                outer.count += 1
                outer.sites.append(f"{'.'.join(stack[-1:])} <- {q} (expression)")
                return ast.copy_location(_Rename({}, actual).visit(expr), n)

        return X().visit(s)

    def block(self, stmts: List[ast.stmt], cname, stack) -> List[ast.stmt]:
        out: List[ast.stmt] = []
        for s in stmts:
            r = self._try(s, cname, stack)
            if r is not None:
                out.extend(r)
                continue
            if not isinstance(s, (ast.FunctionDef, ast.AsyncFunctionDef, ast.ClassDef)):
                s = self._expr_calls(s, cname, stack)
                ast.fix_missing_locations(s)
            if isinstance(s, (ast.FunctionDef, ast.AsyncFunctionDef, ast.ClassDef)):
                out.append(s)
                continue
            for fld in ("body", "orelse", "finalbody"):
                v = getattr(s, fld, None)
                if isinstance(v, list) and v and isinstance(v[0], ast.stmt):
                    setattr(s, fld, self.block(v, cname, stack))
            if isinstance(s, ast.Try):
                for h in s.handlers:
                    h.body = self.block(h.body, cname, stack)
            if hasattr(ast, "Match") and isinstance(s, getattr(ast, "Match")):
                for c in s.cases:
                    c.body = self.block(c.body, cname, stack)
            out.append(s)
        return out

    def run(self):
        # nothing to do when every function of the module belongs to the rules' vocabulary
        quals = set(self.funcs) | {f"{cn}.{mn}" for cn, ms in self.classes.items() for mn in ms}
        if quals <= self.known:
            return 0
        # expand into copies first so that a helper inlined into two callers is always taken in its original form
        originals = {id(d): copy.deepcopy(d) for d in list(self.funcs.values()) + [m for c in self.classes.values() for m in c.values()]}
        todo: List[Tuple[ast.FunctionDef, Optional[str], str]] = [(d, None, n) for n, d in self.funcs.items()]
        for cn, ms in self.classes.items():
            todo += [(d, cn, f"{cn}.{mn}") for mn, d in ms.items()]
        # resolution must see the untouched definitions
        self.funcs = {n: originals[id(d)] for n, d in self.funcs.items()}
        self.classes = {cn: {mn: originals[id(d)] for mn, d in ms.items()} for cn, ms in self.classes.items()}
        for d, cn, q in todo:
            d.body = self.block(d.body, cn, (q,))
        return self.count


def expand_module(tree: ast.Module, modname: str) -> Tuple[int, List[str]]:
    kf = known_functions()
    if not kf:
        return 0, []  # no vocabulary available: expanding everything would change what the rules were written against
    # a module the rules never saw has no anchors: all of its helpers may be expanded
    known = kf.get(modname, set())
    la = lower_expressions(tree, modname) + inline_local_aliases(tree, modname)
    lm = lower_match(tree)
    ud = la + undo_cm_classes(tree, known) + undo_singledispatch(tree) + undo_decorators(tree, known) + run_init_subclass(tree, known)
    nc = propagate_new_constants(tree, modname) + len(lm)
    te = TableEvaluator(tree, modname)
    nt = te.run() + nc
    if nc:
        te.sites.append(f"{nc} function(s) with new named constants replaced by their literals")
    ex = Expander(tree, modname, known)
    n = ex.run() + len(ud)
    ex.sites = ud + ex.sites
    sr = scalar_replace_results(tree, modname) if n else []
    ex.sites = ex.sites + sr
    if n:
        for d_ in changed_functions(tree, modname):
            d_.body = fold_constant_tests(d_.body) or [ast.Pass()]
            for b_ in d_.body:
                ast.fix_missing_locations(b_)
    if n:
        ex.sites = ex.sites + sink_single_use_temps(tree, modname)
    cs = collapse_container_subclasses(tree, known, ex) if n else []
    ea = eafp_lookups(tree, modname)
    fl = single_use_flags(tree, modname)
    sp = canonical_spellings(tree, modname)
    return n + nt + len(cs) + len(ea) + len(fl) + len(sp), te.sites + ex.sites + cs + ea + fl + sp


class _NoConst(Exception):
    pass


def _const_eval(e: ast.expr, env: Dict[str, object]):
    """Value of an expression over int / bool / None / str literals and bound names; raises _NoConst for anything else."""
    if isinstance(e, ast.Constant) and (e.value is None or isinstance(e.value, (int, bool, str))):
        return e.value
    if isinstance(e, ast.Name) and e.id in env:
        return env[e.id]
    if isinstance(e, ast.UnaryOp):
        v = _const_eval(e.operand, env)
        if isinstance(e.op, ast.Not):
            return not v
        if isinstance(v, int):
            if isinstance(e.op, ast.USub):
                return -v
            if isinstance(e.op, ast.UAdd):
                return +v
            if isinstance(e.op, ast.Invert):
                return ~v
        raise _NoConst
    if isinstance(e, ast.BinOp):
        a, b = _const_eval(e.left, env), _const_eval(e.right, env)
        if not (isinstance(a, int) and isinstance(b, int)):
            raise _NoConst
        try:
            if isinstance(e.op, ast.Add):
                return a + b
            if isinstance(e.op, ast.Sub):
                return a - b
            if isinstance(e.op, ast.Mult):
                return a * b
            if isinstance(e.op, ast.FloorDiv):
                return a // b
            if isinstance(e.op, ast.Mod):
                return a % b
            if isinstance(e.op, ast.Pow) and 0 <= b <= 4096 and abs(a) <= 4096:
                return a ** b
            if isinstance(e.op, ast.LShift) and 0 <= b <= 4096:
                return a << b
            if isinstance(e.op, ast.RShift) and b >= 0:
                return a >> b
            if isinstance(e.op, ast.BitAnd):
                return a & b
            if isinstance(e.op, ast.BitOr):
                return a | b
        except (ZeroDivisionError, OverflowError):
            pass
        raise _NoConst
    if isinstance(e, ast.BoolOp):
        vals = [_const_eval(v, env) for v in e.values]
        r = vals[0]
        for v in vals[1:]:
            r = (r and v) if isinstance(e.op, ast.And) else (r or v)
        return r
    if isinstance(e, ast.Compare) and len(e.ops) == 1:
        a, b = _const_eval(e.left, env), _const_eval(e.comparators[0], env)
        op = e.ops[0]
        try:
            if isinstance(op, ast.Is):
                return a is b
            if isinstance(op, ast.IsNot):
                return a is not b
            if isinstance(op, ast.Eq):
                return a == b
            if isinstance(op, ast.NotEq):
                return a != b
            if isinstance(op, ast.Lt):
                return a < b
            if isinstance(op, ast.LtE):
                return a <= b
            if isinstance(op, ast.Gt):
                return a > b
            if isinstance(op, ast.GtE):
                return a >= b
        except TypeError:
            pass
        raise _NoConst
    if isinstance(e, ast.IfExp):
        return _const_eval(e.body if _const_eval(e.test, env) else e.orelse, env)
    raise _NoConst


def _const_node(v) -> ast.expr:
    if isinstance(v, int) and not isinstance(v, bool) and v < 0:
        return ast.UnaryOp(op=ast.USub(), operand=ast.Constant(value=-v))
    return ast.Constant(value=v)


def run_init_subclass(tree: ast.Module, known: Set[str]) -> List[str]:
    """A base class that gained an `__init_subclass__(cls, size=None, unsigned=False, **kwargs)` hook deriving class
    attributes from class keyword arguments (`class Int16(Base, size=2, unsigned=False)`): the hook is run here on
    literals for every subclass in the module and its `cls.<attr> = <value>` stores are written into the subclass body
    as plain class attributes - the form the rules read.  The hook may only consist of the super() call, tests over its
    parameters, local constants, `cls.<attr> = <constant expression>` and `return`; anything else leaves the module as
    written."""
    classes = {c.name: c for c in tree.body if isinstance(c, ast.ClassDef)}

    def base_names(c: ast.ClassDef) -> List[str]:
        out = []
        for b in c.bases:
            while isinstance(b, ast.Subscript):
                b = b.value
            if isinstance(b, ast.Name):
                out.append(b.id)
        return out

    sites: List[str] = []
    for base in list(classes.values()):
        hook = next((m for m in base.body if isinstance(m, ast.FunctionDef) and m.name == "__init_subclass__"), None)
        if hook is None or f"{base.name}.__init_subclass__" in known or hook.args.vararg or hook.args.posonlyargs or len(hook.args.args) < 1:
            continue
        if [ast.unparse(d) for d in hook.decorator_list] not in ([], ["classmethod"]):
            continue
        clsname = hook.args.args[0].arg
        params = [a.arg for a in hook.args.args[1:]] + [a.arg for a in hook.args.kwonlyargs]
        defaults: Dict[str, ast.expr] = {}
        pos = hook.args.args[1:]
        for a, d in zip(pos[len(pos) - len(hook.args.defaults):], hook.args.defaults):
            defaults[a.arg] = d
        for a, d in zip(hook.args.kwonlyargs, hook.args.kw_defaults):
            if d is not None:
                defaults[a.arg] = d

        def descends(c: ast.ClassDef, seen=()) -> bool:
            for b in base_names(c):
                if b == base.name:
                    return True
                if b in classes and b not in seen and descends(classes[b], seen + (c.name,)):
                    return True
            return False

        subs = [c for c in classes.values() if c is not base and descends(c)]
        # an intermediate class with its own hook would change what runs: leave alone
        if any(isinstance(m, ast.FunctionDef) and m.name == "__init_subclass__" for c in subs for m in c.body):
            continue

        def run(stmts, env, stores) -> bool:
            """True when a `return` was executed."""
            for st in stmts:
                if isinstance(st, ast.Expr) and isinstance(st.value, ast.Constant):
                    continue
                if isinstance(st, ast.Expr) and isinstance(st.value, ast.Call) and isinstance(st.value.func, ast.Attribute) and st.value.func.attr == "__init_subclass__" \
                        and isinstance(st.value.func.value, ast.Call) and isinstance(st.value.func.value.func, ast.Name) and st.value.func.value.func.id == "super":
                    continue
                if isinstance(st, ast.Pass):
                    continue
                if isinstance(st, ast.Return):
                    if st.value is not None and not (isinstance(st.value, ast.Constant) and st.value.value is None):
                        raise _NoConst
                    return True
                if isinstance(st, ast.If):
                    if run(st.body if _const_eval(st.test, env) else st.orelse, env, stores):
                        return True
                    continue
                if isinstance(st, (ast.Assign, ast.AnnAssign)):
                    tg = st.targets if isinstance(st, ast.Assign) else [st.target]
                    if st.value is None or len(tg) != 1:
                        raise _NoConst
                    v = _const_eval(st.value, env)
                    t = tg[0]
                    if isinstance(t, ast.Name) and t.id != clsname:
                        env[t.id] = v
                    elif isinstance(t, ast.Attribute) and isinstance(t.value, ast.Name) and t.value.id == clsname:
                        stores[t.attr] = v
                    else:
                        raise _NoConst
                    continue
                raise _NoConst
            return False

        plans = []
        try:
            for c in subs:
                env: Dict[str, object] = {}
                for p_ in params:
                    if p_ in defaults:
                        env[p_] = _const_eval(defaults[p_], {})
                given = {k.arg: k.value for k in c.keywords if k.arg and k.arg != "metaclass"}
                if any(k.arg is None for k in c.keywords) or set(given) - set(params):
                    raise _NoConst
                for k, v in given.items():
                    env[k] = _const_eval(v, {})
                if set(params) - set(env):
                    raise _NoConst
                stores: Dict[str, object] = {}
                run(hook.body, env, stores)
                plans.append((c, stores, set(given)))
        except _NoConst:
            continue
        if not any(st for _, st, _ in plans):
            continue
        for c, stores, given in plans:
            c.keywords = [k for k in c.keywords if k.arg not in given]
            own = {t.id for m in c.body if isinstance(m, ast.Assign) for t in m.targets if isinstance(t, ast.Name)} | \
                  {m.target.id for m in c.body if isinstance(m, ast.AnnAssign) and isinstance(m.target, ast.Name)}
            # the hook runs after the class body: its stores override attributes the body defines
            c.body = [m for m in c.body if not ((isinstance(m, ast.Assign) and len(m.targets) == 1 and isinstance(m.targets[0], ast.Name) and m.targets[0].id in stores)
                                                or (isinstance(m, ast.AnnAssign) and isinstance(m.target, ast.Name) and m.target.id in stores and m.value is not None))] or [ast.Pass()]
            at = 1 if c.body and isinstance(c.body[0], ast.Expr) and isinstance(c.body[0].value, ast.Constant) and isinstance(c.body[0].value.value, str) else 0
            new = [ast.copy_location(ast.Assign(targets=[ast.Name(id=a, ctx=ast.Store())], value=_const_node(v)), c) for a, v in stores.items()]
            c.body[at:at] = new
            for b in new:
                ast.fix_missing_locations(b)
        base.body = [m for m in base.body if m is not hook] or [ast.Pass()]
        sites.append(f"{base.name}.__init_subclass__ run on the class keywords of {len([1 for _, st, _ in plans if st])} subclass(es); stores written as class attributes")
    return sites


def sink_single_use_temps(tree: ast.Module, modname: str) -> List[str]:
    """After helper expansion: an if-chain every arm of which ends in `_argN = V` (or leaves by raise / return), followed at
    once by the only use `recv.meth(_argN)`, is read with the use inside each arm (`recv.meth(V)`); `recv.extend([a])`
    is then `recv.append(a)`."""
    out: List[str] = []
    for d in changed_functions(tree, modname):
        done = [0]

        def arms(node: ast.If):
            yield node.body
            if len(node.orelse) == 1 and isinstance(node.orelse[0], ast.If):
                yield from arms(node.orelse[0])
            else:
                yield node.orelse

        def block(stmts: List[ast.stmt]) -> List[ast.stmt]:
            res: List[ast.stmt] = []
            i = 0
            while i < len(stmts):
                st = stmts[i]
                nxt = stmts[i + 1] if i + 1 < len(stmts) else None
                if isinstance(st, ast.If) and isinstance(nxt, ast.Expr) and isinstance(nxt.value, ast.Call) and isinstance(nxt.value.func, ast.Attribute) and _pure(nxt.value.func.value) \
                        and len(nxt.value.args) == 1 and not nxt.value.keywords and isinstance(nxt.value.args[0], ast.Name) and nxt.value.args[0].id.startswith("_arg"):
                    tmp = nxt.value.args[0].id
                    uses = sum(1 for n in ast.walk(d) if isinstance(n, ast.Name) and n.id == tmp and isinstance(n.ctx, ast.Load))
                    al = list(arms(st))
                    ok = uses == 1 and all(a and (isinstance(a[-1], (ast.Raise, ast.Return)) or (isinstance(a[-1], ast.Assign) and len(a[-1].targets) == 1 and isinstance(a[-1].targets[0], ast.Name)
                                                                                                   and a[-1].targets[0].id == tmp)) for a in al)
                    stores = sum(1 for n in ast.walk(d) if isinstance(n, ast.Name) and n.id == tmp and isinstance(n.ctx, ast.Store))
                    if ok and stores == sum(1 for a in al if isinstance(a[-1], ast.Assign)):
                        for a in al:
                            if isinstance(a[-1], ast.Assign):
                                call = copy.deepcopy(nxt)
                                call.value.args[0] = a[-1].value
                                v = a[-1].value
                                if call.value.func.attr == "extend" and isinstance(v, ast.List) and len(v.elts) == 1 and not isinstance(v.elts[0], ast.Starred):
                                    call.value.func.attr = "append"
                                    call.value.args[0] = v.elts[0]
                                ast.copy_location(call, a[-1])
                                ast.fix_missing_locations(call)
                                a[-1] = call
                        done[0] += 1
                        res.append(st)
                        i += 2
                        continue
                for fld in ("body", "orelse", "finalbody"):
                    v = getattr(st, fld, None)
                    if isinstance(v, list) and v and isinstance(v[0], ast.stmt) and not isinstance(st, (ast.FunctionDef, ast.AsyncFunctionDef, ast.ClassDef)):
                        setattr(st, fld, block(v))
                for h in getattr(st, "handlers", []) or []:
                    h.body = block(h.body)
                res.append(st)
                i += 1
            return res

        d.body = block(d.body)
        if done[0]:
            out.append(f"{d.name}: {done[0]} single-use result(s) consumed inside the arms that produce them")
    return out


def canonical_spellings(tree: ast.Module, modname: str) -> List[str]:
    """In functions that changed since the rules were written, two spellings are read in the form the pinned tree uses:
         x = x + <int literal>   (x a name / attribute path / subscript of such)      ->  x += <int literal>
         "..{}..{}..".format(a, b)  (constant format string, plain fields only)        ->  f"..{a}..{b}.."
    Both rewrites are exact (an int literal rules out the list case where `+=` would mutate in place)."""
    if not _SIGS:
        return []
    import string as _string

    out: List[str] = []

    class R(ast.NodeTransformer):
        def visit_FunctionDef(self, n):
            return n  # nested definitions are visited through changed_functions themselves

        visit_AsyncFunctionDef = visit_ClassDef = visit_FunctionDef

        def visit_Assign(self, n):
            self.generic_visit(n)
            v = n.value
            if len(n.targets) == 1 and isinstance(v, ast.BinOp) and isinstance(v.op, (ast.Add, ast.Sub)) and isinstance(v.right, ast.Constant) \
                    and isinstance(v.right.value, int) and not isinstance(v.right.value, bool) and ast.unparse(n.targets[0]) == ast.unparse(v.left) \
                    and (_pure(n.targets[0]) or (isinstance(n.targets[0], ast.Subscript) and _pure(n.targets[0].value) and (_pure(n.targets[0].slice) or isinstance(n.targets[0].slice, ast.Constant)))):
                out.append(f"`{ast.unparse(n)[:50]}` at line {n.lineno} read as an augmented assignment")
                return ast.copy_location(ast.AugAssign(target=n.targets[0], op=v.op, value=v.right), n)
            return n

        def visit_BinOp(self, n):
            self.generic_visit(n)
            # "..%s..%s.." % (a, b): only %s / %% conversions
            if isinstance(n.op, ast.Mod) and isinstance(n.left, ast.Constant) and isinstance(n.left.value, str):
                import re as _re
                fmt = n.left.value
                toks = _re.split(r"(%%|%s)", fmt)
                if "%" in "".join(t for t in toks if t not in ("%%", "%s")):
                    return n  # another conversion (width, %d, %r ...): left alone
                nsub = sum(1 for t in toks if t == "%s")
                args = list(n.right.elts) if isinstance(n.right, ast.Tuple) else [n.right]
                if nsub == 0 or nsub != len(args) or any(isinstance(a, ast.Starred) for a in args) or (not isinstance(n.right, ast.Tuple) and isinstance(n.right, (ast.Dict, ast.Name)) and nsub == 1 and isinstance(n.right, ast.Dict)):
                    return n
                vals: List[ast.expr] = []
                it = iter(args)
                for t in toks:
                    if t == "%s":
                        vals.append(ast.FormattedValue(value=next(it), conversion=-1, format_spec=None))
                    elif t == "%%":
                        vals.append(ast.Constant(value="%"))
                    elif t:
                        vals.append(ast.Constant(value=t))
                out.append(f"%-formatting at line {n.lineno} read as an f-string")
                return ast.copy_location(ast.JoinedStr(values=vals), n)
            return n

        def visit_Call(self, n):
            self.generic_visit(n)
            if isinstance(n.func, ast.Attribute) and n.func.attr == "format" and isinstance(n.func.value, ast.Constant) and isinstance(n.func.value.value, str) \
                    and not any(isinstance(a, ast.Starred) for a in n.args) and all(k.arg is not None for k in n.keywords):
                try:
                    parts = list(_string.Formatter().parse(n.func.value.value))
                except ValueError:
                    return n
                vals: List[ast.expr] = []
                auto = 0
                kw = {k.arg: k.value for k in n.keywords}
                for lit, field, spec, conv in parts:
                    if lit:
                        vals.append(ast.Constant(value=lit))
                    if field is None:
                        continue
                    if spec or conv:
                        return n
                    if field == "":
                        if auto >= len(n.args):
                            return n
                        e = n.args[auto]
                        auto += 1
                    elif field.isdigit():
                        if int(field) >= len(n.args):
                            return n
                        e = n.args[int(field)]
                    elif field in kw:
                        e = kw[field]
                    else:
                        return n
                    vals.append(ast.FormattedValue(value=e, conversion=-1, format_spec=None))
                if not any(isinstance(v_, ast.FormattedValue) for v_ in vals):
                    return n
                out.append(f"str.format at line {n.lineno} read as an f-string")
                return ast.copy_location(ast.JoinedStr(values=vals), n)
            return n

    for d in changed_functions(tree, modname):
        d.body = [R().visit(b) for b in d.body]
        for b in d.body:
            ast.fix_missing_locations(b)
    return out


def single_use_flags(tree: ast.Module, modname: str) -> List[str]:
    """In functions that changed since the rules were written: `t = <cond>` directly followed by `if t:` / `if not t:` /
    `while`-less, where t is assigned once and read once in the whole function, is read as `if <cond>:` (the condition is
    evaluated at the same point; the name carries nothing else)."""
    if not _SIGS:
        return []
    out = []
    for d in changed_functions(tree, modname):
        stores: Dict[str, int] = {}
        loads: Dict[str, int] = {}
        for n in ast.walk(d):
            if isinstance(n, ast.Name):
                if isinstance(n.ctx, ast.Load):
                    loads[n.id] = loads.get(n.id, 0) + 1
                else:
                    stores[n.id] = stores.get(n.id, 0) + 1
            elif isinstance(n, ast.arg):
                stores[n.arg] = stores.get(n.arg, 0) + 1
        cand = {k for k in stores if stores[k] == 1 and loads.get(k, 0) == 1}
        if not cand:
            continue

        def rewrite(stmts):
            res = []
            i = 0
            while i < len(stmts):
                st = stmts[i]
                nxt = stmts[i + 1] if i + 1 < len(stmts) else None
                if isinstance(st, ast.Assign) and len(st.targets) == 1 and isinstance(st.targets[0], ast.Name) and st.targets[0].id in cand and isinstance(nxt, ast.If):
                    t = st.targets[0].id
                    tst = nxt.test
                    neg = isinstance(tst, ast.UnaryOp) and isinstance(tst.op, ast.Not)
                    core = tst.operand if neg else tst
                    if isinstance(core, ast.Name) and core.id == t:
                        val = st.value
                        nxt.test = ast.copy_location(ast.UnaryOp(op=ast.Not(), operand=val) if neg else val, tst)
                        ast.fix_missing_locations(nxt)
                        out.append(f"single-use flag {t} at line {st.lineno} read in place")
                        i += 1
                        continue
                res.append(st)
                i += 1
            for st in res:
                for fld in ("body", "orelse", "finalbody"):
                    v = getattr(st, fld, None)
                    if isinstance(v, list) and v and isinstance(v[0], ast.stmt):
                        setattr(st, fld, rewrite(v))
                if isinstance(st, ast.Try):
                    for h in st.handlers:
                        h.body = rewrite(h.body)
            return res

        d.body = rewrite(d.body)
    return out


_CHANGED_CACHE: Dict[int, Tuple[ast.Module, List[ast.FunctionDef]]] = {}


def changed_functions(tree: ast.Module, modname: str) -> List[ast.FunctionDef]:
    """functions of the module whose body differs from the pinned tree's (or that are new); decided once per tree, on the
    text as written (the passes that ask only rewrite functions that are in this list already)"""
    hit = _CHANGED_CACHE.get(id(tree))
    if hit is not None and hit[0] is tree:
        return hit[1]
    res = _changed_functions(tree, modname)
    if len(_CHANGED_CACHE) > 400:
        _CHANGED_CACHE.clear()
    _CHANGED_CACHE[id(tree)] = (tree, res)
    return res


def _changed_functions(tree: ast.Module, modname: str) -> List[ast.FunctionDef]:
    sigs = _SIGS.get(modname, {})
    present: Dict[str, ast.FunctionDef] = {}
    for st in tree.body:
        if isinstance(st, ast.FunctionDef):
            present[st.name] = st
        elif isinstance(st, ast.ClassDef):
            for m in st.body:
                if isinstance(m, ast.FunctionDef):
                    present[f"{st.name}.{m.name}"] = m
    own = {q.split(".")[-1] for q in list(sigs) + list(present)}
    return [d for q, d in present.items() if sigs.get(q) != body_signature(d, own)]


def eafp_lookups(tree: ast.Module, modname: str) -> List[str]:
    """In functions that changed since the rules were written:
         try: x = D[k]                       x = D.get(k)
         except KeyError: <A>        ->      if x is None: <A>
         else: <B>                           else: <B>
    (D one of the object's registries, whose values are never None).  The look-before-you-leap spelling is the one the rules
    know (`if self.modules.get(conn) is not module: return`)."""
    if not _SIGS:
        return []
    out = []

    def rewrite(stmts):
        res = []
        for st in stmts:
            for fld in ("body", "orelse", "finalbody"):
                v = getattr(st, fld, None)
                if isinstance(v, list) and v and isinstance(v[0], ast.stmt):
                    setattr(st, fld, rewrite(v))
            if isinstance(st, ast.Try):
                for h in st.handlers:
                    h.body = rewrite(h.body)
                if len(st.body) == 1 and isinstance(st.body[0], ast.Assign) and len(st.body[0].targets) == 1 and isinstance(st.body[0].targets[0], ast.Name) \
                        and isinstance(st.body[0].value, ast.Subscript) and not isinstance(st.body[0].value.slice, ast.Slice) and _pure(st.body[0].value.value) and _pure(st.body[0].value.slice) \
                        and ast.unparse(st.body[0].value.value).startswith("self.") and len(st.handlers) == 1 and st.handlers[0].name is None \
                        and st.handlers[0].type is not None and ast.unparse(st.handlers[0].type) == "KeyError" and not st.finalbody:
                    a = st.body[0]
                    sub = a.value
                    get = ast.Call(func=ast.Attribute(value=sub.value, attr="get", ctx=ast.Load()), args=[sub.slice], keywords=[])
                    na = ast.copy_location(ast.Assign(targets=a.targets, value=get), a)
                    test = ast.Compare(left=ast.Name(id=a.targets[0].id, ctx=ast.Load()), ops=[ast.Is()], comparators=[ast.Constant(value=None)])
                    hb = st.handlers[0].body
                    ni = ast.copy_location(ast.If(test=test, body=hb, orelse=st.orelse), st)
                    if all(isinstance(x, ast.Pass) for x in hb) and st.orelse:
                        ni = ast.copy_location(ast.If(test=ast.Compare(left=ast.Name(id=a.targets[0].id, ctx=ast.Load()), ops=[ast.IsNot()], comparators=[ast.Constant(value=None)]),
                                                      body=st.orelse, orelse=[]), st)
                    ast.fix_missing_locations(na)
                    ast.fix_missing_locations(ni)
                    out.append(f"EAFP lookup of {ast.unparse(sub)} at line {st.lineno} read as .get() / is None")
                    res.extend([na, ni])
                    continue
            res.append(st)
        return res

    for d in changed_functions(tree, modname):
        d.body = rewrite(d.body)
    return out


_CONTAINER_BASES = {"DefaultDict": "defaultdict", "defaultdict": "defaultdict", "Dict": "dict", "dict": "dict", "List": "list", "list": "list",
                    "Set": "set", "set": "set", "Counter": "Counter", "OrderedDict": "OrderedDict", "Deque": "deque", "deque": "deque"}


def collapse_container_subclasses(tree: ast.Module, known: Set[str], ex: "Expander") -> List[str]:
    """`class SubscriptionTable(DefaultDict[int, Set[Module]])` added after the rules were written, used as a component whose
    method calls were all expanded above: its construction `SubscriptionTable()` is the construction of the container it
    extends (`defaultdict(set)` when __init__ only does `super().__init__(set)`)."""
    used = {k for comp in ex.components.values() for k in comp.values()}
    out = []
    repl: Dict[str, ast.expr] = {}
    anns: Dict[str, ast.expr] = {}
    for st in tree.body:
        if not isinstance(st, ast.ClassDef) or st.name not in used or len(st.bases) != 1:
            continue
        b = st.bases[0]
        if isinstance(b, ast.Subscript):
            b = b.value
        bname = b.attr if isinstance(b, ast.Attribute) else (b.id if isinstance(b, ast.Name) else None)
        if bname not in _CONTAINER_BASES:
            continue
        init = next((m for m in st.body if isinstance(m, ast.FunctionDef) and m.name == "__init__"), None)
        args: List[ast.expr] = []
        if init is not None:
            body = [x for x in init.body if not (isinstance(x, ast.Expr) and isinstance(x.value, ast.Constant))]
            if len(init.args.args) != 1 or len(body) != 1 or not isinstance(body[0], ast.Expr) or not isinstance(body[0].value, ast.Call):
                continue
            c = body[0].value
            if ast.unparse(c.func) != "super().__init__" or c.keywords or not all(_pure(a) for a in c.args):
                continue
            args = c.args
        repl[st.name] = ast.Call(func=ast.Name(id=_CONTAINER_BASES[bname], ctx=ast.Load()), args=[copy.deepcopy(a) for a in args], keywords=[])
        if isinstance(st.bases[0], ast.Subscript):
            anns[st.name] = st.bases[0]
    if not repl:
        return out
    # only when no method call on such a component is left unexpanded anywhere
    leftovers = set()
    for cn, comp in ex.components.items():
        for n in ast.walk(tree):
            if isinstance(n, ast.Call) and isinstance(n.func, ast.Attribute) and isinstance(n.func.value, ast.Attribute) and isinstance(n.func.value.value, ast.Name) \
                    and n.func.value.value.id == "self" and comp.get(n.func.value.attr) in repl:
                k = comp[n.func.value.attr]
                if ex._method(k, n.func.attr):
                    leftovers.add(k)
    for k in leftovers:
        repl.pop(k, None)

    class R(ast.NodeTransformer):
        def visit_Assign(self, n):
            # the element types the class declared through its base stay known: `self.t: DefaultDict[int, Set[Module]] = defaultdict(set)`
            v = n.value
            if len(n.targets) == 1 and isinstance(n.targets[0], ast.Attribute) and isinstance(v, ast.Call) and isinstance(v.func, ast.Name) and v.func.id in repl \
                    and v.func.id in anns and not v.args and not v.keywords:
                self.generic_visit(n)
                return ast.copy_location(ast.AnnAssign(target=n.targets[0], annotation=copy.deepcopy(anns[v.func.id]), value=n.value, simple=0), n)
            self.generic_visit(n)
            return n

        def visit_Call(self, n):
            self.generic_visit(n)
            if isinstance(n.func, ast.Name) and n.func.id in repl and not n.args and not n.keywords:
                out.append(f"{n.func.id}() -> {ast.unparse(repl[n.func.id])}")
                return ast.copy_location(copy.deepcopy(repl[n.func.id]), n)
            return n

    R().visit(tree)
    ast.fix_missing_locations(tree)
    return out


# ======================================================================================================================
# Partial evaluation of table-driven code (run before the helper expansion)
#
#   for section, handler in (("constants", self.handle_expression), ...):  BODY      ->  BODY[...], BODY[...], ...
#   if key in self._TABLE:  ... getattr(self, self._TABLE[key])(...) ...              ->  if key == K1: ... self.h1(...) ...
#   name = self._TABLE.get(key); if name is not None: getattr(self, name)(...)        ->  elif key == K2: ... (one case per entry)
#
# Only tables that hold references to callables (bound methods, or the names of methods of the class) are expanded: these
# are dispatch tables, i.e. control flow written as data.  The rewrite is exact: a constant mapping is replaced by the
# case distinction it denotes.
# ======================================================================================================================
class _Subst(ast.NodeTransformer):
    def __init__(self, names: Dict[str, ast.expr] = None, exprs: Dict[str, ast.expr] = None):
        self.names = names or {}
        self.exprs = exprs or {}  # unparsed text -> replacement

    def visit(self, node):
        if isinstance(node, ast.expr) and self.exprs:
            t = ast.unparse(node)
            if t in self.exprs:
                return ast.copy_location(copy.deepcopy(self.exprs[t]), node)
        return super().visit(node)

    def visit_Name(self, n):
        if isinstance(n.ctx, ast.Load) and n.id in self.names:
            return ast.copy_location(copy.deepcopy(self.names[n.id]), n)
        return n


_PROGRAM_INDEX: Dict[str, object] = {}


def set_program_index(trees: Dict[str, ast.Module]) -> None:
    """Names defined as attributes anywhere in the program (methods, class-level names, `x.name = ...` stores) and the
    classes that intercept attribute lookup - what `getattr(self, "name", default)` needs to be decided statically."""
    defined: Set[str] = set()
    bases: Dict[str, List[str]] = {}
    intercepts: Set[str] = set()
    for t in trees.values():
        for n in ast.walk(t):
            if isinstance(n, ast.ClassDef):
                bl = []
                for b in n.bases:
                    while isinstance(b, ast.Subscript):
                        b = b.value
                    bl.append(b.id if isinstance(b, ast.Name) else (b.attr if isinstance(b, ast.Attribute) else "?"))
                bases.setdefault(n.name, []).extend(bl)
                for m in n.body:
                    if isinstance(m, (ast.FunctionDef, ast.AsyncFunctionDef)):
                        defined.add(m.name)
                        if m.name in ("__getattr__", "__getattribute__"):
                            intercepts.add(n.name)
                    elif isinstance(m, ast.Assign):
                        defined.update(x.id for t_ in m.targets for x in ast.walk(t_) if isinstance(x, ast.Name))
                    elif isinstance(m, ast.AnnAssign) and isinstance(m.target, ast.Name):
                        defined.add(m.target.id)
            elif isinstance(n, ast.Attribute) and isinstance(n.ctx, ast.Store):
                defined.add(n.attr)
            elif isinstance(n, ast.Call) and isinstance(n.func, ast.Name) and n.func.id == "setattr" and n.args and isinstance(n.args[0], ast.Name) and n.args[0].id in ("self", "cls"):
                defined.add("*")  # dynamic attribute creation on the object itself: nothing can be called absent
            elif isinstance(n, ast.Attribute) and n.attr == "__dict__" and isinstance(n.value, ast.Name) and n.value.id in ("self", "cls"):
                defined.add("*")
    calls: Dict[str, Set[str]] = {}
    stores: Dict[str, Set[str]] = {}
    for t in trees.values():
        for f in ast.walk(t):
            if isinstance(f, (ast.FunctionDef, ast.AsyncFunctionDef)):
                cs = calls.setdefault(f.name, set())
                ss = stores.setdefault(f.name, set())
                for n in ast.walk(f):
                    if isinstance(n, ast.Call):
                        if isinstance(n.func, ast.Attribute):
                            cs.add(n.func.attr)
                        elif isinstance(n.func, ast.Name):
                            cs.add(n.func.id)
                    elif isinstance(n, ast.Attribute) and isinstance(n.ctx, (ast.Store, ast.Del)):
                        ss.add(n.attr)
                    elif isinstance(n, ast.With):
                        for it in n.items:  # entering a context manager runs its __enter__/__exit__
                            cs.update(("__enter__", "__exit__"))
                # attribute loads may run properties: count every loaded attribute name that is a function somewhere
                for n in ast.walk(f):
                    if isinstance(n, ast.Attribute) and isinstance(n.ctx, ast.Load):
                        cs.add(n.attr)
    _PROGRAM_INDEX.clear()
    _PROGRAM_INDEX.update(defined=defined, bases=bases, intercepts=intercepts, calls=calls, stores=stores)


def _attr_stable_from(fname: str, attr: str) -> bool:
    """No function that can run while `fname` runs (name-based call closure, properties included) stores `.attr`."""
    idx = _PROGRAM_INDEX
    if not idx:
        return False
    calls, stores = idx["calls"], idx["stores"]
    seen, work = set(), [fname]
    while work:
        f = work.pop()
        if f in seen:
            continue
        seen.add(f)
        if attr in stores.get(f, ()):
            return False
        work.extend(c for c in calls.get(f, ()) if c in calls and c not in seen)
    return True


def inline_local_aliases(tree: ast.Module, modname: str) -> List[str]:
    """In functions that changed: a local bound once to an attribute path (`wlist = self.wlist`, `conn = module.conn`,
    `remove_module = self.remove_module`, `clock = time.perf_counter`) - the bind-before-the-hot-loop idiom - is read as
    the path itself.  Exact when every read of the local follows the binding in the same block, the path's root is not
    re-bound in that block, and no function that can run meanwhile stores any attribute on the path (so the path would
    evaluate to the same object at every read)."""
    if not _PROGRAM_INDEX:
        return []
    out: List[str] = []
    imported = set()
    for st in tree.body:
        if isinstance(st, ast.Import):
            imported.update((a.asname or a.name).split(".")[0] for a in st.names)
        elif isinstance(st, ast.ImportFrom):
            imported.update(a.asname or a.name for a in st.names)
    for d in changed_functions(tree, modname):
        params = {a.arg for a in d.args.posonlyargs + d.args.args + d.args.kwonlyargs} | ({d.args.vararg.arg} if d.args.vararg else set()) | ({d.args.kwarg.arg} if d.args.kwarg else set())
        nstores: Dict[str, int] = {}
        for n in ast.walk(d):
            if isinstance(n, ast.Name) and isinstance(n.ctx, (ast.Store, ast.Del)):
                nstores[n.id] = nstores.get(n.id, 0) + 1
            elif isinstance(n, (ast.Global, ast.Nonlocal)):
                for k in n.names:
                    nstores[k] = 99
        done = []

        def blocks(stmts):
            yield stmts
            for s_ in stmts:
                if isinstance(s_, (ast.FunctionDef, ast.AsyncFunctionDef, ast.ClassDef)):
                    continue
                for fld in ("body", "orelse", "finalbody"):
                    v = getattr(s_, fld, None)
                    if isinstance(v, list) and v and isinstance(v[0], ast.stmt):
                        yield from blocks(v)
                for h in getattr(s_, "handlers", []) or []:
                    yield from blocks(h.body)

        progress = True
        while progress:
            progress = False
            for blk in blocks(d.body):
                for i, st in enumerate(blk):
                    if not (isinstance(st, ast.Assign) and len(st.targets) == 1 and isinstance(st.targets[0], ast.Name) and isinstance(st.value, ast.Attribute)):
                        continue
                    x = st.targets[0].id
                    if nstores.get(x) != 1 or x in params:
                        continue
                    path, attrs = st.value, []
                    while isinstance(path, ast.Attribute):
                        attrs.append(path.attr)
                        path = path.value
                    if not isinstance(path, ast.Name):
                        continue
                    root = path.id
                    if root == x:
                        continue
                    after = blk[i + 1:]
                    loads_after = sum(1 for t in after for n in ast.walk(t) if isinstance(n, ast.Name) and n.id == x and isinstance(n.ctx, ast.Load))
                    loads_all = sum(1 for n in ast.walk(d) if isinstance(n, ast.Name) and n.id == x and isinstance(n.ctx, ast.Load))
                    if loads_after != loads_all or loads_all == 0:
                        continue
                    # used inside a nested function / lambda / comprehension: the late read could see another value - fine
                    # for a stable path, but keep it simple and leave those alone
                    if any(isinstance(n, (ast.Lambda, ast.FunctionDef, ast.AsyncFunctionDef)) and any(isinstance(m, ast.Name) and m.id == x for m in ast.walk(n)) for t in after for n in ast.walk(t)):
                        continue
                    if any(isinstance(n, ast.Name) and n.id == root and isinstance(n.ctx, (ast.Store, ast.Del)) for t in after for n in ast.walk(t)):
                        continue
                    if root not in params and root not in imported and nstores.get(root, 0) > 1:
                        continue
                    if root in imported and nstores.get(root, 0) > 0:
                        continue
                    # a field of a ctypes message object built in this very function (`data = cd.MDF_X()`): assigning such
                    # a field anywhere copies into the object's buffer and never re-binds it, so a view taken once and
                    # the field read again address the same storage
                    fresh_msg = len(attrs) == 1 and nstores.get(root) == 1 and any(
                        isinstance(a_, ast.Assign) and len(a_.targets) == 1 and isinstance(a_.targets[0], ast.Name) and a_.targets[0].id == root and isinstance(a_.value, ast.Call)
                        and ast.unparse(a_.value.func).split(".")[-1].startswith("MDF_") for a_ in ast.walk(d))
                    if not fresh_msg and not all(_attr_stable_from(d.name, a) for a in attrs):
                        continue
                    sub = _Subst(names={x: st.value})
                    blk[i + 1:] = [sub.visit(t) for t in after]
                    del blk[i]
                    if not blk:
                        blk.append(ast.Pass())
                    done.append(x)
                    progress = True
                    break
                if progress:
                    break
        if done:
            for b in d.body:
                ast.fix_missing_locations(b)
            out.append(f"{d.name}: local alias(es) {sorted(done)} of attribute paths read as the paths")
    return out


def _absent_in(cname: str) -> Callable[[str], bool]:
    idx = _PROGRAM_INDEX
    if not idx:
        return lambda name: False
    known_cls = idx["bases"]

    def mro_ok(c, seen=()):
        if c in ("object", "ABC", "Generic", "Protocol"):
            return True
        if c not in known_cls or c in seen or c in idx["intercepts"]:
            return False
        return all(mro_ok(b, seen + (c,)) for b in known_cls[c])

    ok = mro_ok(cname)
    return lambda name: ok and "*" not in idx["defined"] and name not in idx["defined"]


_CORE_DEFS_TREE: Optional[ast.Module] = None
_CORE_CLASSES_CACHE: Dict[int, Dict[str, Dict[str, object]]] = {}


def set_core_defs(tree: Optional[ast.Module]) -> None:
    global _CORE_DEFS_TREE
    _CORE_DEFS_TREE = tree


def _core_classes() -> Dict[str, Dict[str, object]]:
    """MDF_<X> classes of pyrtma.core_defs with their constant class attributes (type_id, type_name, ...), and the module's
    MT_<X> constants under the key '=MT'."""
    t = _CORE_DEFS_TREE
    if t is None:
        return {}
    if id(t) in _CORE_CLASSES_CACHE:
        return _CORE_CLASSES_CACHE[id(t)]
    out: Dict[str, Dict[str, object]] = {"=MT": {}}
    for st in t.body:
        if isinstance(st, ast.ClassDef) and st.name.startswith("MDF_"):
            attrs = {}
            for m in st.body:
                if isinstance(m, ast.AnnAssign) and isinstance(m.target, ast.Name) and isinstance(m.value, ast.Constant):
                    attrs[m.target.id] = m.value.value
                elif isinstance(m, ast.Assign) and len(m.targets) == 1 and isinstance(m.targets[0], ast.Name) and isinstance(m.value, ast.Constant):
                    attrs[m.targets[0].id] = m.value.value
            out[st.name] = attrs
        elif isinstance(st, (ast.Assign, ast.AnnAssign)):
            tg = st.targets[0] if isinstance(st, ast.Assign) and len(st.targets) == 1 else getattr(st, "target", None)
            if isinstance(tg, ast.Name) and tg.id.startswith("MT_") and isinstance(st.value, ast.Constant) and isinstance(st.value.value, int):
                out["=MT"][tg.id] = st.value.value
    _CORE_CLASSES_CACHE[id(t)] = out
    return out


def _fold(stmts: List[ast.stmt], methods: Optional[Set[str]] = None, absent: Optional[Callable[[str], bool]] = None) -> List[ast.stmt]:
    """getattr(self, "name") -> self.name; single-assignment pure locals propagated; constant tests removed.  With
    `methods` (the class's own method names) also getattr(self, "name", default) -> self.name, or -> default when
    `absent(name)` says nothing in the program defines that attribute; f-strings / `+` over string literals, str.lower /
    upper of a literal and constant class attributes of the core message classes are folded."""
    core = _core_classes()

    def core_class(e) -> Optional[Dict[str, object]]:
        if isinstance(e, ast.Attribute) and e.attr in core and e.attr != "=MT" and isinstance(e.value, ast.Name):
            return core[e.attr]
        return None

    class G(ast.NodeTransformer):
        def visit_Call(self, n):
            self.generic_visit(n)
            if isinstance(n.func, ast.Name) and n.func.id == "getattr" and len(n.args) == 2 and isinstance(n.args[1], ast.Constant) and isinstance(n.args[1].value, str) and n.args[1].value.isidentifier():
                return ast.copy_location(ast.Attribute(value=n.args[0], attr=n.args[1].value, ctx=ast.Load()), n)
            if isinstance(n.func, ast.Name) and n.func.id == "getattr" and len(n.args) == 3 and not n.keywords and isinstance(n.args[1], ast.Constant) and isinstance(n.args[1].value, str) \
                    and n.args[1].value.isidentifier() and isinstance(n.args[0], ast.Name) and n.args[0].id == "self" and methods is not None and _pure(n.args[2]):
                if n.args[1].value in methods:
                    return ast.copy_location(ast.Attribute(value=n.args[0], attr=n.args[1].value, ctx=ast.Load()), n)
                if absent is not None and absent(n.args[1].value):
                    return n.args[2]
            if isinstance(n.func, ast.Attribute) and n.func.attr in ("lower", "upper") and not n.args and not n.keywords and isinstance(n.func.value, ast.Constant) and isinstance(n.func.value.value, str):
                return ast.copy_location(ast.Constant(value=getattr(n.func.value.value, n.func.attr)()), n)
            return n

        def visit_Attribute(self, n):
            self.generic_visit(n)
            cc = core_class(n.value)
            if cc is not None and isinstance(n.ctx, ast.Load) and n.attr in cc:
                return ast.copy_location(ast.Constant(value=cc[n.attr]), n)
            return n

        def visit_JoinedStr(self, n):
            self.generic_visit(n)
            if all(isinstance(v, ast.Constant) or (isinstance(v, ast.FormattedValue) and v.conversion == -1 and v.format_spec is None and isinstance(v.value, ast.Constant) and isinstance(v.value.value, str)) for v in n.values):
                return ast.copy_location(ast.Constant(value="".join(v.value if isinstance(v, ast.Constant) else v.value.value for v in n.values)), n)
            return n

        def visit_BinOp(self, n):
            self.generic_visit(n)
            if isinstance(n.op, ast.Add) and isinstance(n.left, ast.Constant) and isinstance(n.right, ast.Constant) and isinstance(n.left.value, str) and isinstance(n.right.value, str):
                return ast.copy_location(ast.Constant(value=n.left.value + n.right.value), n)
            return n

        def visit_IfExp(self, n):
            self.generic_visit(n)
            if core_class(n.test) is not None:
                return n.body  # a class object is true
            if isinstance(n.test, ast.Constant):
                return n.body if n.test.value else n.orelse
            return n

        def visit_Compare(self, n):
            self.generic_visit(n)
            if len(n.ops) == 1 and isinstance(n.left, ast.Constant) and isinstance(n.comparators[0], ast.Constant) and n.comparators[0].value is None and isinstance(n.ops[0], (ast.Is, ast.IsNot)):
                v = (n.left.value is None) if isinstance(n.ops[0], ast.Is) else (n.left.value is not None)
                return ast.copy_location(ast.Constant(value=v), n)
            return n

    stmts = [G().visit(s) for s in stmts]
    # propagate `x = <pure>` when x is assigned exactly once in this block (at its top level) and never stored elsewhere
    changed = True
    while changed:
        changed = False
        for i, s in enumerate(stmts):
            if isinstance(s, ast.Assign) and len(s.targets) == 1 and isinstance(s.targets[0], ast.Name) and (_pure(s.value)):
                nm = s.targets[0].id
                stores = sum(1 for t in stmts for n in ast.walk(t) if isinstance(n, ast.Name) and n.id == nm and isinstance(n.ctx, (ast.Store, ast.Del)))
                if stores != 1:
                    continue
                # the value's own names must not be reassigned later in the block
                vnames = {n.id for n in ast.walk(s.value) if isinstance(n, ast.Name)}
                if any(isinstance(n, ast.Name) and n.id in vnames and isinstance(n.ctx, ast.Store) for t in stmts[i + 1:] for n in ast.walk(t)):
                    continue
                sub = _Subst(names={nm: s.value})
                stmts = stmts[:i] + [G().visit(sub.visit(t)) for t in stmts[i + 1:]]
                changed = True
                break
    out: List[ast.stmt] = []
    for s in stmts:
        if isinstance(s, ast.If) and isinstance(s.test, ast.Constant):
            out.extend(_fold(s.body if s.test.value else s.orelse, methods, absent))
        elif isinstance(s, ast.If) and isinstance(s.test, ast.UnaryOp) and isinstance(s.test.op, ast.Not) and isinstance(s.test.operand, ast.Constant):
            out.extend(_fold(s.orelse if s.test.operand.value else s.body, methods, absent))
        elif isinstance(s, ast.If) and core_class(s.test) is not None:
            out.extend(_fold(s.body, methods, absent))
        else:
            out.append(s)
        if out and isinstance(out[-1], (ast.Return, ast.Raise, ast.Continue, ast.Break)):
            break  # what follows in this block is unreachable
    return out


def prune_dead_helpers(trees: Dict[str, ast.Module]) -> List[str]:
    """Remove definitions of functions outside the rules' vocabulary that nothing refers to any more (every call was
    expanded in place).  A definition nobody refers to cannot run, so removing it changes nothing; it keeps rules that
    range over *all* functions from judging the same statements twice (inside the caller and stand-alone)."""
    kf = known_functions()
    if not kf:
        return []
    # a dispatch table all of whose uses were expanded is dead data: drop it first, so that the method names it holds
    # do not count as references
    attr_refs: Dict[str, int] = {}
    for t in trees.values():
        for n in ast.walk(t):
            if isinstance(n, ast.Attribute):
                attr_refs[n.attr] = attr_refs.get(n.attr, 0) + 1
            elif isinstance(n, ast.Name) and isinstance(n.ctx, ast.Load):
                attr_refs[n.id] = attr_refs.get(n.id, 0) + 1
    for mod, t in trees.items():
        for cls in [c for c in t.body if isinstance(c, ast.ClassDef)]:
            tabs = TableEvaluator._class_tables(cls)
            dead = {nm for nm in tabs if attr_refs.get(nm, 0) == 0}
            if dead:
                cls.body = [st for st in cls.body if not ((isinstance(st, ast.Assign) and len(st.targets) == 1 and isinstance(st.targets[0], ast.Name) and st.targets[0].id in dead)
                                                          or (isinstance(st, ast.AnnAssign) and isinstance(st.target, ast.Name) and st.target.id in dead))] or [ast.Pass()]
    refs: Dict[str, int] = {}
    for t in trees.values():
        for n in ast.walk(t):
            if isinstance(n, ast.Attribute):
                refs[n.attr] = refs.get(n.attr, 0) + 1
            elif isinstance(n, ast.Name):
                refs[n.id] = refs.get(n.id, 0) + 1
            elif isinstance(n, ast.Constant) and isinstance(n.value, str) and n.value.isidentifier():
                refs[n.value] = refs.get(n.value, 0) + 1  # getattr(self, "name") / dispatch tables of names
    removed = []
    for mod, t in trees.items():
        known = kf.get(mod, set())

        def prune(body, prefix):
            keep = []
            for st in body:
                if isinstance(st, ast.FunctionDef) and f"{prefix}{st.name}" not in known and refs.get(st.name, 0) == 0 and not (st.name.startswith("__") and st.name.endswith("__")) \
                        and not st.decorator_list:
                    removed.append(f"{mod}::{prefix}{st.name}")
                    continue
                if isinstance(st, ast.ClassDef):
                    st.body = prune(st.body, f"{st.name}.") or [ast.Pass()]
                keep.append(st)
            return keep

        t.body = prune(t.body, "")
    return removed


class TableEvaluator:
    def __init__(self, tree: ast.Module, modname: Optional[str] = None):
        self.tree = tree
        self.modname = modname
        self.count = 0
        self.sites: List[str] = []
        self.module_tables: Dict[str, ast.Dict] = {}
        self.core_alias: Optional[str] = None
        self.changed: Set[int] = set()
        if modname is not None:
            self._module_tables()

    def _module_tables(self):
        """Module-level literal dicts introduced after the rules were written whose values are strings that complete a
        method name (`{cd.MT_CONNECT: "connect"}` with methods `_on_connect`): read like class-level dispatch tables.
        The core message registry (`_get_core_defs()`: type id -> MDF class, built by reflection over pyrtma.core_defs)
        is available as a virtual table in functions that changed."""
        kf = known_functions()
        known = kf.get(self.modname, set()) if kf else None
        if known is None:
            return
        all_methods = {m.name for c in self.tree.body if isinstance(c, ast.ClassDef) for m in c.body if isinstance(m, ast.FunctionDef)}
        counts: Dict[str, int] = {}
        for st in self.tree.body:
            for t in (st.targets if isinstance(st, ast.Assign) else [st.target] if isinstance(st, ast.AnnAssign) else []):
                if isinstance(t, ast.Name):
                    counts[t.id] = counts.get(t.id, 0) + 1
        for st in self.tree.body:
            tgt = st.targets[0] if isinstance(st, ast.Assign) and len(st.targets) == 1 else (st.target if isinstance(st, ast.AnnAssign) and st.value is not None else None)
            if not isinstance(tgt, ast.Name) or counts.get(tgt.id) != 1 or f"={tgt.id}" in known:
                continue
            val = st.value
            if isinstance(val, ast.Dict) and val.keys and all(k is not None and _pure(k) for k in val.keys) \
                    and all(isinstance(v, ast.Constant) and isinstance(v.value, str) and v.value and any(m.endswith(v.value) for m in all_methods) for v in val.values):
                # never written through (`TABLE[k] = ...`, `.update`, `.pop` ...)
                muts = [n for n in ast.walk(self.tree) if (isinstance(n, ast.Subscript) and isinstance(n.ctx, (ast.Store, ast.Del)) and isinstance(n.value, ast.Name) and n.value.id == tgt.id)
                        or (isinstance(n, ast.Call) and isinstance(n.func, ast.Attribute) and isinstance(n.func.value, ast.Name) and n.func.value.id == tgt.id
                            and n.func.attr in ("update", "pop", "popitem", "clear", "setdefault", "__setitem__", "__delitem__"))]
                if not muts:
                    self.module_tables[tgt.id] = val
        for st in self.tree.body:
            if isinstance(st, ast.ImportFrom) and st.module is None or isinstance(st, ast.ImportFrom) and st.module in ("pyrtma", ""):
                for a in st.names:
                    if a.name == "core_defs":
                        self.core_alias = a.asname or a.name
            elif isinstance(st, ast.Import):
                for a in st.names:
                    if a.name == "pyrtma.core_defs" and a.asname:
                        self.core_alias = a.asname
        self.changed = {id(d) for d in changed_functions(self.tree, self.modname)}

    def _core_table(self) -> Optional[ast.Dict]:
        core = _core_classes()
        if not core or not self.core_alias:
            return None
        mt_by_val: Dict[int, List[str]] = {}
        for k, v in core["=MT"].items():
            mt_by_val.setdefault(v, []).append(k)
        keys, vals, seen = [], [], set()
        for cname, attrs in core.items():
            if cname == "=MT" or not isinstance(attrs.get("type_id"), int):
                continue
            tid = attrs["type_id"]
            names = mt_by_val.get(tid, [])
            if len(names) != 1 or tid in seen:
                return None  # a type id without exactly one MT_ constant (or two classes with one id): not modelled
            seen.add(tid)
            keys.append(ast.Attribute(value=ast.Name(id=self.core_alias, ctx=ast.Load()), attr=names[0], ctx=ast.Load()))
            vals.append(ast.Attribute(value=ast.Name(id=self.core_alias, ctx=ast.Load()), attr=cname, ctx=ast.Load()))
        return ast.Dict(keys=keys, values=vals) if keys else None

    # ---- tables -----------------------------------------------------------------------------------------------
    @staticmethod
    def _class_tables(cls: ast.ClassDef) -> Dict[str, ast.Dict]:
        methods = {m.name for m in cls.body if isinstance(m, ast.FunctionDef)}
        out = {}
        for st in cls.body:
            tgt, val = None, None
            if isinstance(st, ast.Assign) and len(st.targets) == 1 and isinstance(st.targets[0], ast.Name):
                tgt, val = st.targets[0].id, st.value
            elif isinstance(st, ast.AnnAssign) and isinstance(st.target, ast.Name) and st.value is not None:
                tgt, val = st.target.id, st.value
            if tgt and isinstance(val, ast.Dict) and val.keys and all(k is not None and _pure(k) for k in val.keys):
                if all(isinstance(v, ast.Constant) and isinstance(v.value, str) and v.value in methods for v in val.values):
                    out[tgt] = val
        return out

    def _table_ref(self, e, tables, cname) -> Optional[str]:
        if isinstance(e, ast.Attribute) and isinstance(e.value, ast.Name) and e.value.id in ("self", "cls", cname) and e.attr in tables:
            return e.attr
        if isinstance(e, ast.Name) and e.id in tables and e.id in self.module_tables:
            return e.id
        if isinstance(e, ast.Call) and isinstance(e.func, ast.Name) and e.func.id == "_get_core_defs" and not e.args and not e.keywords and "=core" in tables:
            return "=core"
        return None

    # ---- rewriting a block ----------------------------------------------------------------------------------------
    def _cases(self, key: ast.expr, table: ast.Dict, make_body, default_body) -> List[ast.stmt]:
        chain: Optional[ast.If] = None
        head: Optional[ast.If] = None
        dflt_text = "\n".join(ast.unparse(b) for b in default_body)
        for k, v in zip(table.keys, table.values):
            body = make_body(v) or [ast.Pass()]
            if len(table.keys) > 12 and "\n".join(ast.unparse(b) for b in body) == dflt_text:
                continue  # a large table: a key that is handled exactly like the default needs no branch of its own
            node = ast.If(test=ast.Compare(left=copy.deepcopy(key), ops=[ast.Eq()], comparators=[copy.deepcopy(k)]), body=body, orelse=[])
            if chain is None:
                head = chain = node
            else:
                chain.orelse = [node]
                chain = node
        if chain is None:
            return default_body
        chain.orelse = default_body
        return [head]

    def block(self, stmts: List[ast.stmt], tables, cname, methods) -> List[ast.stmt]:
        out: List[ast.stmt] = []
        i = 0
        while i < len(stmts):
            s = stmts[i]
            # ---- unrolling of a loop over a literal table of (constant, callable) rows
            if isinstance(s, ast.For) and not s.orelse:
                rows = self._rows(s, stmts[:i], methods)
                if rows is not None:
                    tg = s.target.elts if isinstance(s.target, ast.Tuple) else [s.target]
                    for row in rows:
                        m = {t.id: e for t, e in zip(tg, (row.elts if isinstance(s.target, ast.Tuple) else [row]))}
                        out.extend(self.block([_Subst(names=m).visit(copy.deepcopy(b)) for b in s.body], tables, cname, methods))
                    self.count += 1
                    self.sites.append(f"unrolled table loop at line {s.lineno}")
                    i += 1
                    continue
            # ---- `if key in self.TABLE:` (possibly an elif link: handled when the chain is visited through orelse)
            if isinstance(s, ast.If) and isinstance(s.test, ast.Compare) and len(s.test.ops) == 1 and isinstance(s.test.ops[0], ast.In) and _pure(s.test.left):
                tn = self._table_ref(s.test.comparators[0], tables, cname)
                if tn:
                    key, table = s.test.left, tables[tn]
                    ref = ast.unparse(s.test.comparators[0])

                    def mk(v, key=key, ref=ref, body=s.body):
                        sub = _Subst(exprs={f"{ref}[{ast.unparse(key)}]": v, f"{ref}.get({ast.unparse(key)})": v})
                        return self.block(_fold([sub.visit(copy.deepcopy(b)) for b in body]), tables, cname, methods)

                    out.extend(self._cases(key, table, mk, self.block(s.orelse, tables, cname, methods)))
                    self.count += 1
                    self.sites.append(f"dispatch table {tn} expanded at line {s.lineno}")
                    i += 1
                    continue
            # ---- `name = self.TABLE.get(key)` followed by the rest of the block
            if isinstance(s, ast.Assign) and len(s.targets) == 1 and isinstance(s.targets[0], ast.Name) and isinstance(s.value, ast.Call) and isinstance(s.value.func, ast.Attribute) \
                    and s.value.func.attr == "get" and len(s.value.args) in (1, 2) and _pure(s.value.args[0]) and not s.value.keywords \
                    and (len(s.value.args) == 1 or isinstance(s.value.args[1], ast.Constant)):
                tn = self._table_ref(s.value.func.value, tables, cname)
                rest = stmts[i + 1:]
                if tn and sum(1 for r in rest for _ in ast.walk(r)) < 1500:
                    key, table, nm = s.value.args[0], tables[tn], s.targets[0].id
                    dflt = s.value.args[1] if len(s.value.args) == 2 else ast.Constant(value=None)
                    rich = tn == "=core" or tn in self.module_tables

                    def mk2(v, nm=nm, rest=rest, rich=rich):
                        body = [ast.copy_location(ast.Assign(targets=[ast.Name(id=nm, ctx=ast.Store())], value=copy.deepcopy(v)), s)] + [copy.deepcopy(r) for r in rest]
                        for b in body:
                            ast.fix_missing_locations(b)
                        return self.block(_fold(body, methods, _absent_in(cname)) if rich else _fold(body), tables, cname, methods)

                    out.extend(self._cases(key, table, mk2, mk2(dflt)))
                    self.count += 1
                    self.sites.append(f"dispatch table {tn} (.get) expanded at line {s.lineno}")
                    return out  # the rest of the block now lives inside the cases
            # ---- recurse
            if not isinstance(s, (ast.FunctionDef, ast.AsyncFunctionDef, ast.ClassDef)):
                for fld in ("body", "orelse", "finalbody"):
                    v = getattr(s, fld, None)
                    if isinstance(v, list) and v and isinstance(v[0], ast.stmt):
                        setattr(s, fld, self.block(v, tables, cname, methods))
                if isinstance(s, ast.Try):
                    for h in s.handlers:
                        h.body = self.block(h.body, tables, cname, methods)
            out.append(s)
            i += 1
        return out

    def _rows(self, loop: ast.For, before: List[ast.stmt], methods) -> Optional[List[ast.expr]]:
        it = loop.iter
        if isinstance(it, ast.Name):
            defs = [b.value for b in before if isinstance(b, ast.Assign) and len(b.targets) == 1 and isinstance(b.targets[0], ast.Name) and b.targets[0].id == it.id]
            defs += [b.value for b in before if isinstance(b, ast.AnnAssign) and isinstance(b.target, ast.Name) and b.target.id == it.id and b.value is not None]
            if len(defs) != 1:
                return None
            it = defs[0]
        if not isinstance(it, (ast.Tuple, ast.List)) or not it.elts:
            return None
        arity = len(loop.target.elts) if isinstance(loop.target, ast.Tuple) else 1
        if isinstance(loop.target, ast.Tuple):
            if not all(isinstance(t, ast.Name) for t in loop.target.elts):
                return None
            if not all(isinstance(r, ast.Tuple) and len(r.elts) == arity and all(_simple(e) for e in r.elts) for r in it.elts):
                return None
            cells = [e for r in it.elts for e in r.elts]
            # cells that are not plain paths may be substituted only where the loop variable is read at most once
            if not all(_pure(e) for e in cells):
                reads: Dict[str, int] = {}
                for b in loop.body:
                    for n in ast.walk(b):
                        if isinstance(n, ast.Name) and isinstance(n.ctx, ast.Load):
                            reads[n.id] = reads.get(n.id, 0) + 1
                for col, t in enumerate(loop.target.elts):
                    if reads.get(t.id, 0) > 1 and not all(_pure(r.elts[col]) for r in it.elts):
                        return None
        else:
            if not isinstance(loop.target, ast.Name) or not all(_pure(r) for r in it.elts):
                return None
            cells = list(it.elts)
        # a dispatch table: some cell refers to a method of the class; or a short literal sequence of local objects
        # (`for msg in (connect_v2, connect_v1): self.send_message(msg)`)
        is_dispatch = any(isinstance(e, ast.Attribute) and isinstance(e.value, ast.Name) and e.value.id == "self" and e.attr in methods for e in cells)
        is_locals = not isinstance(loop.target, ast.Tuple) and 2 <= len(cells) <= 4 and all(isinstance(e, ast.Name) for e in cells)
        # `for table in (self.aliases, self.struct_defs, self.message_defs):` - a fixed sequence of the object's own tables
        is_attrs = not isinstance(loop.target, ast.Tuple) and 2 <= len(cells) <= 8 and all(isinstance(e, (ast.Attribute, ast.Name)) for e in cells) \
            and any(isinstance(e, ast.Attribute) and isinstance(e.value, ast.Name) and e.value.id == "self" for e in cells)
        # a small literal table of (where to look, what to answer) rows searched in order: rows of several cells, at least
        # one of which is a path (not a bare literal sequence such as (8, 4, 2, 1))
        is_table = isinstance(loop.target, ast.Tuple) and 2 <= len(it.elts) <= 8 and any(isinstance(e, (ast.Attribute, ast.Name)) for e in cells)
        if not (is_dispatch or is_locals or is_attrs or is_table):
            return None
        names = {t.id for t in (loop.target.elts if isinstance(loop.target, ast.Tuple) else [loop.target])}
        for b in loop.body:
            for n in ast.walk(b):
                if isinstance(n, (ast.Break, ast.Continue)):
                    return None
                if isinstance(n, ast.Name) and n.id in names and isinstance(n.ctx, (ast.Store, ast.Del)):
                    return None
        return list(it.elts)

    def run(self) -> int:
        for st in self.tree.body:
            if isinstance(st, ast.ClassDef):
                tables = dict(self.module_tables)
                tables.update(self._class_tables(st))
                methods = {m.name for m in st.body if isinstance(m, ast.FunctionDef)}
                core_tab = self._core_table() if any(id(m) in self.changed for m in st.body) else None
                for m in st.body:
                    if isinstance(m, ast.FunctionDef):
                        tb = tables
                        if core_tab is not None and id(m) in self.changed:
                            tb = dict(tables)
                            tb["=core"] = core_tab
                        m.body = self.block(m.body, tb, st.name, methods)
                        for b in m.body:
                            ast.fix_missing_locations(b)
        return self.count


# ======================================================================================================================
# Named constants introduced after the rules were written (`UNREPORTED_MSG_TYPES = frozenset((...))`,
# `SHARED_NAMESPACES = ("constants", ...)`): a reference to such a name is replaced by the literal it denotes, so that a
# rule comparing literals keeps seeing them.  Only immutable literals (tuples / frozensets of pure elements, numbers,
# strings) bound exactly once at module or class level and never assigned through `self.` are propagated.
# ======================================================================================================================
def _literal_value(v) -> Optional[ast.expr]:
    if isinstance(v, ast.Constant):
        return v
    if isinstance(v, ast.Tuple) and all(_pure(e) or _literal_value(e) is not None for e in v.elts):
        return v
    if isinstance(v, ast.Call) and isinstance(v.func, ast.Name) and v.func.id in ("frozenset", "tuple") and len(v.args) == 1 and not v.keywords:
        inner = v.args[0]
        if isinstance(inner, (ast.Tuple, ast.List, ast.Set)) and all(_pure(e) for e in inner.elts):
            return ast.copy_location(ast.Tuple(elts=list(inner.elts), ctx=ast.Load()), v)
    return None


def propagate_new_constants(tree: ast.Module, modname: str) -> int:
    kf = known_functions()
    known = kf.get(modname, set())
    if not kf:
        return 0
    count = 0
    attr_stores = {n.attr for n in ast.walk(tree) if isinstance(n, ast.Attribute) and isinstance(n.ctx, (ast.Store, ast.Del))}
    # module level
    mod_consts: Dict[str, ast.expr] = {}
    names_assigned: Dict[str, int] = {}
    for st in tree.body:
        tg = st.targets if isinstance(st, ast.Assign) else ([st.target] if isinstance(st, ast.AnnAssign) and st.value is not None else [])
        for x in tg:
            if isinstance(x, ast.Name):
                names_assigned[x.id] = names_assigned.get(x.id, 0) + 1
                lv = _literal_value(st.value)
                if lv is not None and f"={x.id}" not in known and (isinstance(lv, ast.Tuple) or (isinstance(lv, ast.Constant) and isinstance(lv.value, (int, float, str, bytes)) and not isinstance(lv.value, bool))):
                    mod_consts[x.id] = lv
    mod_consts = {k: v for k, v in mod_consts.items() if names_assigned.get(k) == 1}
    # a module constant is only propagated where no local of the same name exists
    for cls_or_fn in ast.walk(tree):
        if isinstance(cls_or_fn, (ast.FunctionDef, ast.AsyncFunctionDef)) and mod_consts:
            local_stores = {n.id for n in ast.walk(cls_or_fn) if isinstance(n, ast.Name) and isinstance(n.ctx, (ast.Store, ast.Del))} | {a.arg for a in cls_or_fn.args.posonlyargs + cls_or_fn.args.args + cls_or_fn.args.kwonlyargs}
            use = {k: v for k, v in mod_consts.items() if k not in local_stores}
            if use and any(isinstance(n, ast.Name) and n.id in use for n in ast.walk(cls_or_fn)):
                sub = _Subst(names=use)
                cls_or_fn.body = [sub.visit(b) for b in cls_or_fn.body]
                count += 1
    # class level
    for cls in [c for c in tree.body if isinstance(c, ast.ClassDef)]:
        consts: Dict[str, ast.expr] = {}
        for st in cls.body:
            tg = st.targets if isinstance(st, ast.Assign) else ([st.target] if isinstance(st, ast.AnnAssign) and st.value is not None else [])
            for x in tg:
                if isinstance(x, ast.Name):
                    lv = _literal_value(st.value)
                    scalar = isinstance(lv, ast.Constant) and isinstance(lv.value, (int, float, str, bytes)) and not isinstance(lv.value, bool)
                    if lv is not None and (isinstance(lv, ast.Tuple) or scalar) and f"={cls.name}.{x.id}" not in known and x.id not in attr_stores:
                        consts[x.id] = lv
        if not consts:
            continue
        exprs = {}
        for k, v in consts.items():
            for recv in ("self", "cls", cls.name):
                exprs[f"{recv}.{k}"] = v
        for m in [m for m in cls.body if isinstance(m, ast.FunctionDef)]:
            if any(isinstance(n, ast.Attribute) and n.attr in consts for n in ast.walk(m)):
                sub = _Subst(exprs=exprs)
                m.body = [sub.visit(b) for b in m.body]
                count += 1
    if count:
        ast.fix_missing_locations(tree)
    return count


def expand_new_properties(trees: Dict[str, ast.Module]) -> List[str]:
    """`x.short_hash` where short_hash is a @property added after the rules were written, whose whole body is
    `return <expr over self>`, and whose name is unique in the program: replaced by that expression with self := x."""
    kf = known_functions()
    if not kf:
        return []
    props: Dict[str, List[ast.expr]] = {}
    all_attr_names: Dict[str, int] = {}
    for mod, t in trees.items():
        known = kf.get(mod, set())
        for cls in [c for c in ast.walk(t) if isinstance(c, ast.ClassDef)]:
            for m in cls.body:
                if isinstance(m, ast.FunctionDef):
                    all_attr_names[m.name] = all_attr_names.get(m.name, 0) + 1
                    if f"{cls.name}.{m.name}" in known or [ast.unparse(d) for d in m.decorator_list] != ["property"]:
                        continue
                    body = [b for b in m.body if not (isinstance(b, ast.Expr) and isinstance(b.value, ast.Constant) and isinstance(b.value.value, str))]
                    if len(body) == 1 and isinstance(body[0], ast.Return) and body[0].value is not None and len(m.args.args) == 1:
                        # the expression may only mention self (and literals / builtins)
                        names = {n.id for n in ast.walk(body[0].value) if isinstance(n, ast.Name)}
                        if names <= {m.args.args[0].arg, "len", "int", "str", "min", "max", "sum", "bool", "bytes", "float", "abs", "round"}:
                            props.setdefault(m.name, []).append((m.args.args[0].arg, body[0].value))
    # an attribute of that name defined otherwise anywhere (class-level field, `x.name = ...` store) makes the name ambiguous
    for t in trees.values():
        for n_ in ast.walk(t):
            if isinstance(n_, ast.ClassDef):
                for m_ in n_.body:
                    if isinstance(m_, ast.AnnAssign) and isinstance(m_.target, ast.Name) and m_.target.id in props:
                        all_attr_names[m_.target.id] = all_attr_names.get(m_.target.id, 0) + 1
                    elif isinstance(m_, ast.Assign):
                        for t_ in m_.targets:
                            if isinstance(t_, ast.Name) and t_.id in props:
                                all_attr_names[t_.id] = all_attr_names.get(t_.id, 0) + 1
            elif isinstance(n_, ast.Attribute) and isinstance(n_.ctx, ast.Store) and n_.attr in props:
                all_attr_names[n_.attr] = all_attr_names.get(n_.attr, 0) + 1
    # same-named properties on several classes are fine when they have the same body (e.g. MDF.short_hash and SDF.short_hash)
    usable = {}
    for k, v in props.items():
        if len({ast.unparse(e) for _, e in v}) == 1 and all_attr_names.get(k, 0) == len(v):
            usable[k] = v[0]
    # a property name that other classes use too (`version`: header field and new MDF property) is resolved through the
    # receiver's declared type: a parameter annotated with classes that all inherit the same new property
    by_class: Dict[str, Dict[str, tuple]] = {}
    bases: Dict[str, List[str]] = {}
    for mod, t in trees.items():
        known = kf.get(mod, set())
        for cls in [c for c in ast.walk(t) if isinstance(c, ast.ClassDef)]:
            bases.setdefault(cls.name, []).extend(b.id for b in cls.bases if isinstance(b, ast.Name))
            for m in cls.body:
                if isinstance(m, ast.FunctionDef) and m.name in props and f"{cls.name}.{m.name}" not in known and [ast.unparse(d) for d in m.decorator_list] == ["property"]:
                    body = [b for b in m.body if not (isinstance(b, ast.Expr) and isinstance(b.value, ast.Constant) and isinstance(b.value.value, str))]
                    if len(body) == 1 and isinstance(body[0], ast.Return) and len(m.args.args) == 1:
                        by_class.setdefault(cls.name, {})[m.name] = (m.args.args[0].arg, body[0].value)
                elif isinstance(m, (ast.FunctionDef, ast.Assign, ast.AnnAssign)):
                    # a class that defines the name itself (method, field) shadows an inherited property
                    nm = m.name if isinstance(m, ast.FunctionDef) else (m.target.id if isinstance(m, ast.AnnAssign) and isinstance(m.target, ast.Name) else None)
                    if nm in props:
                        by_class.setdefault(cls.name, {})[nm] = None

    def class_prop(cname: str, prop: str, seen=()):
        if cname in seen:
            return None
        own = by_class.get(cname, {})
        if prop in own:
            return own[prop]
        for b in bases.get(cname, []):
            r = class_prop(b, prop, seen + (cname,))
            if r is not None:
                return r
        return None

    def ann_classes(a) -> List[str]:
        if a is None:
            return []
        if isinstance(a, ast.Constant) and isinstance(a.value, str):
            try:
                a = ast.parse(a.value, mode="eval").body
            except SyntaxError:
                return []
        if isinstance(a, ast.Name):
            return [a.id]
        if isinstance(a, ast.Subscript) and isinstance(a.value, ast.Name) and a.value.id == "Union":
            el = a.slice.elts if isinstance(a.slice, ast.Tuple) else [a.slice]
            out_ = []
            for e in el:
                r = ann_classes(e)
                if not r:
                    return []
                out_ += r
            return out_
        if isinstance(a, ast.BinOp) and isinstance(a.op, ast.BitOr):
            l, r = ann_classes(a.left), ann_classes(a.right)
            return l + r if l and r else []
        return []

    # `self.message_defs: Dict[str, MDF] = {}`: what iterating `<x>.message_defs.values()` yields
    elem_types: Dict[str, List[str]] = {}
    for t in trees.values():
        for n_ in ast.walk(t):
            if isinstance(n_, ast.AnnAssign) and isinstance(n_.target, ast.Attribute) and isinstance(n_.annotation, ast.Subscript):
                kind_ = ast.unparse(n_.annotation.value).split(".")[-1]
                sl_ = n_.annotation.slice
                el_ = None
                if kind_ in ("Dict", "dict", "OrderedDict", "DefaultDict") and isinstance(sl_, ast.Tuple) and len(sl_.elts) == 2:
                    el_ = sl_.elts[1]
                elif kind_ in ("List", "list", "Set", "set", "Tuple", "Sequence"):
                    el_ = sl_.elts[0] if isinstance(sl_, ast.Tuple) else sl_
                cl_ = ann_classes(el_) if el_ is not None else []
                if cl_:
                    if n_.target.attr in elem_types and elem_types[n_.target.attr] != cl_:
                        elem_types[n_.target.attr] = []
                    else:
                        elem_types[n_.target.attr] = cl_
    typed = {k for k in props if k not in usable}
    if not usable and not by_class:
        return []
    done = []

    class P(ast.NodeTransformer):
        def __init__(self):
            self.params: List[Dict[str, List[str]]] = []

        def visit_FunctionDef(self, f):
            env = {a.arg: ann_classes(a.annotation) for a in f.args.posonlyargs + f.args.args + f.args.kwonlyargs}
            stored = {x.id for x in ast.walk(f) if isinstance(x, ast.Name) and isinstance(x.ctx, (ast.Store, ast.Del))}
            self.params.append({k: v for k, v in env.items() if v and k not in stored})
            self.generic_visit(f)
            self.params.pop()
            return f

        def visit_For(self, lp):
            it = lp.iter
            cl_: List[str] = []
            if isinstance(lp.target, ast.Name) and self.params:
                if isinstance(it, ast.Call) and isinstance(it.func, ast.Attribute) and it.func.attr == "values" and not it.args and isinstance(it.func.value, ast.Attribute):
                    cl_ = elem_types.get(it.func.value.attr, [])
                elif isinstance(it, ast.Attribute):
                    cl_ = elem_types.get(it.attr, [])
            if cl_:
                env = self.params[-1]
                had = env.get(lp.target.id)
                env[lp.target.id] = cl_
                self.generic_visit(lp)
                if had is None:
                    env.pop(lp.target.id, None)
                else:
                    env[lp.target.id] = had
                return lp
            self.generic_visit(lp)
            return lp

        def visit_Attribute(self, n):
            self.generic_visit(n)
            if isinstance(n.ctx, ast.Load) and n.attr in usable and _simple(n.value):
                selfname, expr = usable[n.attr]
                done.append(n.attr)
                return self.visit(ast.copy_location(_Rename({}, {selfname: n.value}).visit(copy.deepcopy(expr)), n))
            if isinstance(n.ctx, ast.Load) and n.attr in typed and isinstance(n.value, ast.Name) and self.params and n.value.id in self.params[-1]:
                found = [class_prop(c, n.attr) for c in self.params[-1][n.value.id]]
                if found and all(f is not None for f in found) and len({ast.unparse(f[1]) for f in found}) == 1:
                    selfname, expr = found[0]
                    done.append(n.attr)
                    return self.visit(ast.copy_location(_Rename({}, {selfname: n.value}).visit(copy.deepcopy(expr)), n))
            return n

    for t in trees.values():
        P().visit(t)
        ast.fix_missing_locations(t)
    return sorted(set(done))


def hex_digest_spellings(trees: Dict[str, ast.Module]) -> List[str]:
    """After a new property was written out: f"{int(<x>.hash[:N], 16):0NX}" is read as f"{<x>.hash[:N].upper()}" (and `:0Nx`
    as `.lower()`).  Exact for a string of N hex digits, which `.hash` - a sha256 hexdigest, rule C13-H - is; any other
    operand is left as written."""
    done: List[str] = []

    class H(ast.NodeTransformer):
        def visit_Call(self, n):
            self.generic_visit(n)
            # int.from_bytes(bytes.fromhex(<x>.hash)[:K], "big")  ==  int(<x>.hash[:2K], 16)   (a hex digest: two digits per byte)
            if isinstance(n.func, ast.Attribute) and n.func.attr == "from_bytes" and isinstance(n.func.value, ast.Name) and n.func.value.id == "int" \
                    and 1 <= len(n.args) <= 2 and all(k.arg in ("byteorder", "signed") for k in n.keywords):
                order = n.args[1] if len(n.args) == 2 else next((k.value for k in n.keywords if k.arg == "byteorder"), None)
                signed = next((k.value for k in n.keywords if k.arg == "signed"), None)
                a0 = n.args[0]
                if isinstance(order, ast.Constant) and order.value == "big" and (signed is None or (isinstance(signed, ast.Constant) and signed.value is False)) \
                        and isinstance(a0, ast.Subscript) and isinstance(a0.slice, ast.Slice) and a0.slice.lower is None and a0.slice.step is None \
                        and isinstance(a0.slice.upper, ast.Constant) and isinstance(a0.slice.upper.value, int) \
                        and isinstance(a0.value, ast.Call) and ast.unparse(a0.value.func) == "bytes.fromhex" and len(a0.value.args) == 1 \
                        and isinstance(a0.value.args[0], ast.Attribute) and a0.value.args[0].attr == "hash":
                    k = a0.slice.upper.value
                    done.append(f"int.from_bytes(bytes.fromhex(<hash>)[:{k}], 'big') read as int(<hash>[:{2 * k}], 16)")
                    sl = ast.Subscript(value=a0.value.args[0], slice=ast.Slice(lower=None, upper=ast.Constant(value=2 * k), step=None), ctx=ast.Load())
                    return ast.copy_location(ast.Call(func=ast.Name(id="int", ctx=ast.Load()), args=[sl, ast.Constant(value=16)], keywords=[]), n)
            return n

        def visit_FormattedValue(self, n):
            self.generic_visit(n)
            v = n.value
            if not (isinstance(v, ast.Call) and isinstance(v.func, ast.Name) and v.func.id == "int" and len(v.args) == 2 and not v.keywords
                    and isinstance(v.args[1], ast.Constant) and v.args[1].value == 16 and n.conversion == -1 and isinstance(n.format_spec, ast.JoinedStr)
                    and len(n.format_spec.values) == 1 and isinstance(n.format_spec.values[0], ast.Constant)):
                return n
            op = v.args[0]
            if not (isinstance(op, ast.Subscript) and isinstance(op.slice, ast.Slice) and op.slice.lower is None and op.slice.step is None
                    and isinstance(op.slice.upper, ast.Constant) and isinstance(op.slice.upper.value, int) and isinstance(op.value, ast.Attribute) and op.value.attr == "hash"):
                return n
            spec = n.format_spec.values[0].value
            k = op.slice.upper.value
            if spec not in (f"0{k}X", f"0{k}x"):
                return n
            done.append(f"int(<hash>[:{k}], 16) formatted as {spec} read as .{'upper' if spec[-1] == 'X' else 'lower'}()")
            call = ast.Call(func=ast.Attribute(value=op, attr="upper" if spec[-1] == "X" else "lower", ctx=ast.Load()), args=[], keywords=[])
            return ast.copy_location(ast.FormattedValue(value=call, conversion=-1, format_spec=None), n)

    for t in trees.values():
        H().visit(t)
        ast.fix_missing_locations(t)
    return sorted(set(done))


def expand_new_expression_methods(trees: Dict[str, ast.Module]) -> List[str]:
    """`ds.selects(msg)` where `selects` is a method added after the rules were written, whose whole body is
    `return <expr>`, and whose name is unique among the program's methods: replaced by the expression with self := ds
    and the parameters bound (receivers other than self - calls on self are handled per module by the Expander)."""
    kf = known_functions()
    if not kf:
        return []
    cands: Dict[str, List[ast.FunctionDef]] = {}
    counts: Dict[str, int] = {}
    for mod, t in trees.items():
        known = kf.get(mod, set())
        for cls in [c for c in ast.walk(t) if isinstance(c, ast.ClassDef)]:
            for m in cls.body:
                if isinstance(m, ast.FunctionDef):
                    counts[m.name] = counts.get(m.name, 0) + 1
                    if f"{cls.name}.{m.name}" in known or m.decorator_list or m.args.vararg or m.args.kwarg or not m.args.args:
                        continue
                    body = [b for b in m.body if not (isinstance(b, ast.Expr) and isinstance(b.value, ast.Constant) and isinstance(b.value.value, str))]
                    if len(body) == 1 and isinstance(body[0], ast.Return) and body[0].value is not None:
                        cands.setdefault(m.name, []).append(m)
    usable = {k: v[0] for k, v in cands.items() if len(v) == 1 and counts.get(k) == 1}
    if not usable:
        return []
    done = []

    class M(ast.NodeTransformer):
        def visit_Call(self, n):
            self.generic_visit(n)
            if not (isinstance(n.func, ast.Attribute) and n.func.attr in usable and not (isinstance(n.func.value, ast.Name) and n.func.value.id == "self")):
                return n
            d = usable[n.func.attr]
            if n.keywords and any(k.arg is None for k in n.keywords) or any(isinstance(a, ast.Starred) for a in n.args):
                return n
            params = [a.arg for a in d.args.args]
            actual = {params[0]: n.func.value}
            if len(n.args) > len(params) - 1:
                return n
            for p_, v_ in zip(params[1:], n.args):
                actual[p_] = v_
            for k in n.keywords:
                if k.arg not in params[1:] or k.arg in actual:
                    return n
                actual[k.arg] = k.value
            defaults = dict(zip(params[len(params) - len(d.args.defaults):], d.args.defaults))
            for p_ in params[1:]:
                if p_ not in actual:
                    if p_ not in defaults:
                        return n
                    actual[p_] = defaults[p_]
            expr = copy.deepcopy([b for b in d.body if isinstance(b, ast.Return)][0].value)
            loads: Dict[str, int] = {}
            for x in ast.walk(expr):
                if isinstance(x, ast.Name) and isinstance(x.ctx, ast.Load):
                    loads[x.id] = loads.get(x.id, 0) + 1
            inner = {x.id for x in ast.walk(expr) if isinstance(x, ast.Name) and isinstance(x.ctx, ast.Store)}
            free = {x.id for x in ast.walk(expr) if isinstance(x, ast.Name)} - set(params) - inner
            # free names of the expression are resolved in the method's module: only builtins / none are safe to move
            if free - {"len", "int", "str", "bool", "min", "max", "sum", "any", "all", "isinstance", "getattr", "True", "False", "None"}:
                return n
            for p_, v_ in actual.items():
                if p_ in inner or not (_pure(v_) or (_simple(v_) and loads.get(p_, 0) <= 1)):
                    return n
            done.append(n.func.attr)
            return ast.copy_location(_Rename({}, actual).visit(expr), n)

    for t in trees.values():
        M().visit(t)
        ast.fix_missing_locations(t)
    return sorted(set(done))


# ======================================================================================================================
# Locals that merely name an attribute of self which is bound once, in __init__ (`modules = self.modules` at the top of a
# method; `p = self.parser`): in functions that changed since the rules were written the local is read as the attribute.
# Exact: the attribute is never rebound anywhere in the program outside __init__, so both names denote the same object for
# the whole call.
# ======================================================================================================================
def attribute_aliases(trees: Dict[str, ast.Module]) -> List[str]:
    if not _SIGS:
        return []
    rebound: Set[str] = set()
    for t in trees.values():
        for c in ast.walk(t):
            if isinstance(c, ast.ClassDef):
                for m in c.body:
                    if isinstance(m, (ast.FunctionDef, ast.AsyncFunctionDef)) and m.name != "__init__":
                        for n in ast.walk(m):
                            if isinstance(n, ast.Attribute) and isinstance(n.ctx, (ast.Store, ast.Del)):
                                rebound.add(n.attr)
        for n in ast.walk(t):
            if isinstance(n, ast.Attribute) and isinstance(n.ctx, (ast.Store, ast.Del)) and not (isinstance(n.value, ast.Name) and n.value.id == "self"):
                rebound.add(n.attr)
            elif isinstance(n, ast.Call) and isinstance(n.func, ast.Name) and n.func.id in ("setattr", "delattr") and len(n.args) >= 2 and isinstance(n.args[1], ast.Constant):
                rebound.add(n.args[1].value)
    out: List[str] = []
    for mod, t in trees.items():
        changed = {id(d) for d in changed_functions(t, mod)}
        if not changed:
            continue
        for c in [c for c in ast.walk(t) if isinstance(c, ast.ClassDef)]:
            inits = {n.attr for m in c.body if isinstance(m, ast.FunctionDef) and m.name == "__init__" for n in ast.walk(m)
                     if isinstance(n, ast.Attribute) and isinstance(n.ctx, ast.Store) and isinstance(n.value, ast.Name) and n.value.id == "self"}
            for m in c.body:
                if not isinstance(m, ast.FunctionDef) or id(m) not in changed or m.name == "__init__" or not m.args.args or m.args.args[0].arg != "self":
                    continue
                stores: Dict[str, List[ast.AST]] = {}
                for n in ast.walk(m):
                    if isinstance(n, ast.Name) and isinstance(n.ctx, (ast.Store, ast.Del)):
                        stores.setdefault(n.id, []).append(n)
                    elif isinstance(n, ast.arg):
                        stores.setdefault(n.arg, []).extend([n, n])
                    elif isinstance(n, ast.ExceptHandler) and n.name:
                        stores.setdefault(n.name, []).extend([n, n])
                amap: Dict[str, str] = {}
                drop = []
                for st in m.body:  # only top-level statements of the method body: they dominate everything after them
                    if isinstance(st, ast.Assign) and len(st.targets) == 1 and isinstance(st.targets[0], ast.Name) and len(stores.get(st.targets[0].id, [])) == 1 \
                            and isinstance(st.value, ast.Attribute) and isinstance(st.value.value, ast.Name) and st.value.value.id == "self" \
                            and st.value.attr in inits and st.value.attr not in rebound:
                        amap[st.targets[0].id] = st.value.attr
                        drop.append(st)
                if not amap:
                    continue
                # a nested scope that rebinds the name would shadow it: leave such functions alone
                if any(isinstance(x, (ast.FunctionDef, ast.AsyncFunctionDef, ast.Lambda, ast.ClassDef)) for x in ast.walk(m) if x is not m):
                    continue

                class A(ast.NodeTransformer):
                    def visit_Name(self, n):
                        if isinstance(n.ctx, ast.Load) and n.id in amap:
                            return ast.copy_location(ast.Attribute(value=ast.Name(id="self", ctx=ast.Load()), attr=amap[n.id], ctx=ast.Load()), n)
                        return n

                m.body = [A().visit(b) for b in m.body if not any(b is d_ for d_ in drop)] or [ast.Pass()]
                for b in m.body:
                    ast.fix_missing_locations(b)
                out.append(f"{c.name}.{m.name}: " + ", ".join(f"{k} = self.{v}" for k, v in sorted(amap.items())))
    return out


# ======================================================================================================================
# `match` statements (the pinned tree has none): the simple forms are the if/elif chains they abbreviate.
#   case <constant or dotted name>:     subject == value           case None / True / False:   subject is value
#   case a | b:                         subject == a or subject == b  case Cls():               isinstance(subject, Cls)
#   case _:                             else                        `if guard` is and-ed
# Anything else (captures, sequence / mapping patterns, class patterns with sub-patterns) is left alone: the CFG builder then
# reports the function as not analysable.
# ======================================================================================================================
def lower_match(tree: ast.Module) -> List[str]:
    if not hasattr(ast, "Match"):
        return []
    out: List[str] = []

    def test_of(subj, pat):
        if isinstance(pat, ast.MatchValue):
            return ast.Compare(left=copy.deepcopy(subj), ops=[ast.Eq()], comparators=[pat.value])
        if isinstance(pat, ast.MatchSingleton):
            return ast.Compare(left=copy.deepcopy(subj), ops=[ast.Is()], comparators=[ast.Constant(value=pat.value)])
        if isinstance(pat, ast.MatchOr):
            parts = [test_of(subj, p) for p in pat.patterns]
            if any(p is None for p in parts):
                return None
            return ast.BoolOp(op=ast.Or(), values=parts)
        if isinstance(pat, ast.MatchClass) and not pat.patterns and not pat.kwd_patterns:
            return ast.Call(func=ast.Name(id="isinstance", ctx=ast.Load()), args=[copy.deepcopy(subj), pat.cls], keywords=[])
        return None

    class L(ast.NodeTransformer):
        def visit_Match(self, n):
            self.generic_visit(n)
            subj = n.subject
            pre = []
            if not _pure(subj):
                nm = f"_match_subject_{n.lineno}"
                pre = [ast.copy_location(ast.Assign(targets=[ast.Name(id=nm, ctx=ast.Store())], value=subj), n)]
                subj = ast.Name(id=nm, ctx=ast.Load())
            chain = []
            default = None
            for c in n.cases:
                wild = isinstance(c.pattern, ast.MatchAs) and c.pattern.pattern is None and c.pattern.name is None
                if wild and c.guard is None:
                    default = c.body
                    break
                t = ast.Constant(value=True) if wild else test_of(subj, c.pattern)
                if t is None:
                    return n
                if c.guard is not None:
                    t = c.guard if wild else ast.BoolOp(op=ast.And(), values=[t, c.guard])
                chain.append((t, c.body))
            if not chain:
                return pre + (default or [ast.Pass()])
            node = None
            for t, body in reversed(chain):
                node = ast.If(test=t, body=body, orelse=([node] if node is not None else (default or [])))
            ast.copy_location(node, n)
            out.append(f"match statement at line {n.lineno} read as an if/elif chain")
            return pre + [node]

    L().visit(tree)
    if out:
        ast.fix_missing_locations(tree)
    return out


# ======================================================================================================================
# Definitions moved to another module and imported back (`class Module` moved to pyrtma/module.py, `from .module import
# Module` in manager.py): the definition is analysed where the pinned tree had it.  Exact: the import binds the very same
# object under the same name.
# ======================================================================================================================
def undo_moves(trees: Dict[str, ast.Module]) -> List[str]:
    kf = known_functions()
    if not kf:
        return []
    out: List[str] = []
    top: Dict[str, Dict[str, ast.stmt]] = {m: {st.name: st for st in t.body if isinstance(st, (ast.ClassDef, ast.FunctionDef))} for m, t in trees.items()}
    for mod, t in trees.items():
        known = kf.get(mod, set())
        if not known:
            continue
        want = {q.split(".")[0] for q in known if not q.startswith(("=", "#"))}
        missing = {w for w in want if w not in top[mod]}
        if not missing:
            continue
        for i, st in enumerate(list(t.body)):
            if not isinstance(st, ast.ImportFrom) or st.module is None and st.level == 0:
                continue
            for al in list(st.names):
                if al.name not in missing or (al.asname not in (None, al.name)):
                    continue
                # resolve the source module
                base = mod.split(".")
                if st.level:
                    base = base[: len(base) - st.level] if not mod.endswith("__init__") else base
                    src = ".".join(base + ([st.module] if st.module else []))
                else:
                    src = st.module
                if src not in trees or al.name not in top.get(src, {}) or src == mod:
                    continue
                # only definitions the source module did not have in the pinned tree are moved back
                if any(q == al.name or q.startswith(al.name + ".") for q in kf.get(src, set())):
                    continue
                node = top[src][al.name]
                trees[src].body.remove(node)
                del top[src][al.name]
                idx = t.body.index(st)
                t.body.insert(idx + 1, node)
                top[mod][al.name] = node
                st.names.remove(al)
                out.append(f"{al.name}: {src} -> {mod}")
            if not st.names:
                t.body.remove(st)
    for t in trees.values():
        if not t.body:
            t.body.append(ast.Pass())
    return out


# ======================================================================================================================
# Methods moved into a new base class / mixin (`class MessageManager(SubscriptionMixin, ClientLike)` with the subscription
# handlers now living in pyrtma/subscriptions.py): a class of the pinned tree that misses methods it had, and lists a base
# class the rules never saw which defines them, gets those definitions back into its own body.  Exact as far as method
# resolution goes when the new base is first in the MRO among classes defining the name and is used by this class only.
# ======================================================================================================================
def undo_mixins(trees: Dict[str, ast.Module]) -> List[str]:
    kf = known_functions()
    if not kf:
        return []
    out: List[str] = []
    classes: Dict[str, List[Tuple[str, ast.ClassDef]]] = {}
    for mod, t in trees.items():
        for st in t.body:
            if isinstance(st, ast.ClassDef):
                classes.setdefault(st.name, []).append((mod, st))
    known_classes = {q.split(".")[0] for ks in kf.values() for q in ks if "." in q and not q.startswith(("=", "#"))}
    users: Dict[str, int] = {}
    for lst in classes.values():
        for _, c in lst:
            for b in c.bases:
                bn = b.attr if isinstance(b, ast.Attribute) else (b.id if isinstance(b, ast.Name) else None)
                if bn:
                    users[bn] = users.get(bn, 0) + 1
    for mod, t in trees.items():
        known = kf.get(mod, set())
        for c in [st for st in t.body if isinstance(st, ast.ClassDef)]:
            want = {q.split(".", 1)[1] for q in known if q.startswith(c.name + ".") and q.count(".") == 1}
            have = {m.name for m in c.body if isinstance(m, (ast.FunctionDef, ast.AsyncFunctionDef))}
            missing = want - have
            if not missing:
                continue
            for b in list(c.bases):
                bn = b.attr if isinstance(b, ast.Attribute) else (b.id if isinstance(b, ast.Name) else None)
                if not bn or bn in known_classes or len(classes.get(bn, [])) != 1 or users.get(bn, 0) != 1:
                    continue
                bmod, bc = classes[bn][0]
                if any(isinstance(x, ast.FunctionDef) and x.name in ("__init__", "__new__", "__init_subclass__") for x in bc.body) or bc.bases and any(
                        (bb.id if isinstance(bb, ast.Name) else None) not in (None, "object") and (bb.id if isinstance(bb, ast.Name) else None) in classes for bb in bc.bases):
                    continue
                moved = [m for m in bc.body if isinstance(m, (ast.FunctionDef, ast.AsyncFunctionDef)) and m.name not in have]
                if not any(m.name in missing for m in moved):
                    continue
                for m in moved:
                    bc.body.remove(m)
                    c.body.append(m)
                    have.add(m.name)
                # class-level assignments of the mixin (constants) follow; pure annotations are dropped
                for x in list(bc.body):
                    if isinstance(x, ast.Assign):
                        bc.body.remove(x)
                        c.body.insert(0, x)
                if not [x for x in bc.body if not isinstance(x, (ast.AnnAssign, ast.Pass)) and not (isinstance(x, ast.Expr) and isinstance(x.value, ast.Constant))]:
                    c.bases.remove(b)
                    trees[bmod].body.remove(bc)
                if not bc.body:
                    bc.body.append(ast.Pass())
                out.append(f"{c.name}: {len(moved)} method(s) back from {bn} ({bmod})")
                missing = want - have
    for t in trees.values():
        if not t.body:
            t.body.append(ast.Pass())
    return out


# ======================================================================================================================
# Decorators that factor out common pre / post work (`@drops_module_on_write_error`, `@unique_name("constants", NS)`,
# `@_validates_value`): a decorator defined in the module that the rules never saw, of the shape
#     def deco(fn):                       def deco(a, b):
#         @wraps(fn)                          def inner(fn):
#         def wrapper(<params>):                  @wraps(fn)
#             ... fn(<params>) ...                def wrapper(<params>): ... fn(<params>) ...
#         return wrapper                          return wrapper
#                                              return inner
# is applied by hand: the decorated function becomes the wrapper's body (its parameters renamed to the function's own, the
# factory's parameters replaced by the arguments written at the decoration), calling the undecorated original - which the
# helper expansion then writes in place.  Exact: this is what the decoration computes.
# ======================================================================================================================
def lower_expressions(tree: ast.Module, modname: str) -> List[str]:
    """In functions that changed, three expression forms are read as the statements they abbreviate:
         x = next((E for v in IT if C), D)     ->  x = D; for v in IT: if C: x = E; break
         x = next(E for v in IT if C)          ->  for v in IT: if C: x = E; break   else: raise StopIteration
         ... (n := E) ...  evaluated first     ->  n = E; ... n ...         (`while (n := E):` -> `while True: n = E; if not n: break`)
         x = A if C else B  (after a hoist)    ->  if C: x = A else: x = B
       All exact: the generator is consumed up to its first element only, a walrus in leftmost position is evaluated
       before anything else in its statement."""
    out: List[str] = []
    kf_ = known_functions()
    known_ = kf_.get(modname, set()) if kf_ else set()
    # module-level functions the rules never saw: candidates for expansion in place
    new_funcs = {f.name for f in tree.body if isinstance(f, ast.FunctionDef) and f.name not in known_} if kf_ else set()
    for d in changed_functions(tree, modname):
        names_in_d = {n.id for n in ast.walk(d) if isinstance(n, ast.Name)} | {a.arg for a in ast.walk(d) if isinstance(a, ast.arg)}
        counter = [0]
        notes: List[str] = []

        def leftmost_walrus(e) -> Optional[ast.NamedExpr]:
            cur = e
            for _ in range(50):
                if isinstance(cur, ast.NamedExpr):
                    return cur
                if isinstance(cur, ast.Compare):
                    cur = cur.left
                elif isinstance(cur, ast.BinOp):
                    cur = cur.left
                elif isinstance(cur, ast.BoolOp):
                    cur = cur.values[0]
                elif isinstance(cur, ast.IfExp):
                    cur = cur.test
                elif isinstance(cur, ast.UnaryOp):
                    cur = cur.operand
                else:
                    return None
            return None

        def replace_node(root, old, new):
            class R(ast.NodeTransformer):
                def visit(self, n):
                    if n is old:
                        return new
                    return super().visit(n)
            return R().visit(root)

        def lower_next(st) -> Optional[List[ast.stmt]]:
            if not (isinstance(st, ast.Assign) and len(st.targets) == 1 and isinstance(st.value, ast.Call) and isinstance(st.value.func, ast.Name) and st.value.func.id == "next"
                    and len(st.value.args) in (1, 2) and not st.value.keywords and isinstance(st.value.args[0], ast.GeneratorExp)):
                return None
            ge = st.value.args[0]
            if len(ge.generators) != 1 or ge.generators[0].is_async:
                return None
            # the default is evaluated after the generator's iterable and before the search: only a value without effects
            # may be moved in front of the loop
            if len(st.value.args) == 2 and not (isinstance(st.value.args[1], ast.Constant) or _pure(st.value.args[1])):
                return None
            gen = ge.generators[0]
            tvars = [n.id for n in ast.walk(gen.target) if isinstance(n, ast.Name)]
            # the generator's own variable becomes a local of the function: it must not collide with one
            others = {n.id for n in ast.walk(d) if isinstance(n, ast.Name) and not any(n is m for m in ast.walk(ge))} | {a.arg for a in ast.walk(d) if isinstance(a, ast.arg)}
            ren = {}
            for v in tvars:
                if v in others:
                    counter[0] += 1
                    ren[v] = f"{v}__nx{counter[0]}"
            elt, target, ifs = ge.elt, gen.target, list(gen.ifs)
            if ren:
                rn = _Rename({}, {a: ast.Name(id=b, ctx=ast.Load()) for a, b in ren.items()})
                elt = rn.visit(copy.deepcopy(elt))
                ifs = [rn.visit(copy.deepcopy(c)) for c in ifs]
                target = copy.deepcopy(target)
                for n in ast.walk(target):
                    if isinstance(n, ast.Name) and n.id in ren:
                        n.id = ren[n.id]
            tgt = st.targets[0]
            post: List[ast.stmt] = []
            if not isinstance(tgt, ast.Name):
                counter[0] += 1
                tmp = f"_next{counter[0]}"
                post = [ast.Assign(targets=[tgt], value=ast.Name(id=tmp, ctx=ast.Load()))]
                tgt = ast.Name(id=tmp, ctx=ast.Store())
            hit: List[ast.stmt] = [ast.Assign(targets=[copy.deepcopy(tgt)], value=elt), ast.Break()]
            body: List[ast.stmt] = hit
            if ifs:
                test = ifs[0] if len(ifs) == 1 else ast.BoolOp(op=ast.And(), values=ifs)
                body = [ast.If(test=test, body=hit, orelse=[])]
            loop = ast.For(target=target, iter=gen.iter, body=body, orelse=[], type_comment=None)
            pre: List[ast.stmt] = []
            if len(st.value.args) == 2:
                pre = [ast.Assign(targets=[copy.deepcopy(tgt)], value=st.value.args[1])]
            else:
                loop.orelse = [ast.Raise(exc=ast.Call(func=ast.Name(id="StopIteration", ctx=ast.Load()), args=[], keywords=[]), cause=None)]
            res = pre + [loop] + post
            for r in res:
                ast.copy_location(r, st)
                ast.fix_missing_locations(r)
            notes.append("next(<generator>) read as a search loop")
            return res

        def fuse_found(lowered: List[ast.stmt], nxt: Optional[ast.stmt]) -> Optional[List[ast.stmt]]:
            """x = None; for v in IT: if C(v.attr..): x = v; break   followed by   if x is not None: <raise/return ...>
               ->  x = None; for v in IT: if C: x = v; <raise/return ...>
               (v is an object whose attribute C reads, so it is not None when C held; the terminal body leaves the loop)"""
            if nxt is None or len(lowered) != 2 or not isinstance(lowered[0], ast.Assign) or not isinstance(lowered[1], ast.For):
                return None
            pre, loop = lowered
            if not (isinstance(pre.value, ast.Constant) and pre.value.value is None and isinstance(pre.targets[0], ast.Name)):
                return None
            x = pre.targets[0].id
            if not (isinstance(nxt, ast.If) and not nxt.orelse and isinstance(nxt.test, ast.Compare) and len(nxt.test.ops) == 1 and isinstance(nxt.test.ops[0], ast.IsNot)
                    and isinstance(nxt.test.left, ast.Name) and nxt.test.left.id == x and isinstance(nxt.test.comparators[0], ast.Constant) and nxt.test.comparators[0].value is None):
                return None
            if not nxt.body or not isinstance(nxt.body[-1], (ast.Raise, ast.Return)):
                return None
            if not (isinstance(loop.target, ast.Name) and len(loop.body) == 1 and isinstance(loop.body[0], ast.If)):
                return None
            v = loop.target.id
            inner = loop.body[0]
            hit = inner.body
            if not (len(hit) == 2 and isinstance(hit[0], ast.Assign) and isinstance(hit[0].value, ast.Name) and hit[0].value.id == v and isinstance(hit[1], ast.Break)):
                return None
            if not any(isinstance(n, ast.Attribute) and isinstance(n.value, ast.Name) and n.value.id == v for n in ast.walk(inner.test)):
                return None
            inner.body = [hit[0]] + nxt.body
            notes.append("found-then-refuse read as refuse-inside-the-search")
            return [pre, loop]

        def block(stmts: List[ast.stmt]) -> List[ast.stmt]:
            res: List[ast.stmt] = []
            skip_next = False
            for idx, st in enumerate(stmts):
                if skip_next:
                    skip_next = False
                    continue
                if isinstance(st, (ast.FunctionDef, ast.AsyncFunctionDef, ast.ClassDef)):
                    res.append(st)
                    continue
                hoisted = False
                # walrus in leading position of a simple statement / if test
                for _ in range(4):
                    expr_field = None
                    if isinstance(st, (ast.Assign, ast.AugAssign, ast.AnnAssign, ast.Return, ast.Expr)) and getattr(st, "value", None) is not None:
                        expr_field = "value"
                    elif isinstance(st, ast.If):
                        expr_field = "test"
                    if expr_field is None:
                        break
                    w = leftmost_walrus(getattr(st, expr_field))
                    if w is None or not isinstance(w.target, ast.Name):
                        break
                    pre = ast.Assign(targets=[ast.Name(id=w.target.id, ctx=ast.Store())], value=w.value)
                    ast.copy_location(pre, st)
                    ast.fix_missing_locations(pre)
                    setattr(st, expr_field, replace_node(getattr(st, expr_field), w, ast.copy_location(ast.Name(id=w.target.id, ctx=ast.Load()), w)))
                    res.extend(block([pre]))
                    hoisted = True
                    notes.append("assignment expression hoisted")
                if isinstance(st, ast.While) and not st.orelse:
                    w = leftmost_walrus(st.test)
                    if w is not None and isinstance(w.target, ast.Name):
                        pre = ast.Assign(targets=[ast.Name(id=w.target.id, ctx=ast.Store())], value=w.value)
                        test = replace_node(st.test, w, ast.copy_location(ast.Name(id=w.target.id, ctx=ast.Load()), w))
                        brk = ast.If(test=ast.UnaryOp(op=ast.Not(), operand=test), body=[ast.Break()], orelse=[])
                        st.test = ast.Constant(value=True)
                        st.body = [pre, brk] + st.body
                        for b in (pre, brk):
                            ast.copy_location(b, st)
                            ast.fix_missing_locations(b)
                        notes.append("assignment expression in a while test hoisted")
                if hoisted and isinstance(st, ast.Assign) and len(st.targets) == 1 and isinstance(st.value, ast.IfExp):
                    node = ast.If(test=st.value.test, body=[ast.Assign(targets=[copy.deepcopy(st.targets[0])], value=st.value.body)],
                                  orelse=[ast.Assign(targets=[copy.deepcopy(st.targets[0])], value=st.value.orelse)])
                    ast.copy_location(node, st)
                    ast.fix_missing_locations(node)
                    st = node
                if isinstance(st, ast.Expr) and isinstance(st.value, ast.Call) and isinstance(st.value.func, ast.Attribute) and _pure(st.value.func.value) \
                        and len(st.value.args) == 1 and not st.value.keywords and isinstance(st.value.args[0], ast.Call) and not st.value.args[0].keywords \
                        and isinstance(st.value.args[0].func, ast.Name) and st.value.args[0].func.id in new_funcs and all(_pure(a) for a in st.value.args[0].args):
                    counter[0] += 1
                    tmp = f"_arg{counter[0]}"
                    pre = ast.Assign(targets=[ast.Name(id=tmp, ctx=ast.Store())], value=st.value.args[0])
                    st.value.args[0] = ast.Name(id=tmp, ctx=ast.Load())
                    ast.copy_location(pre, st)
                    ast.fix_missing_locations(pre)
                    ast.fix_missing_locations(st)
                    res.append(pre)
                    notes.append("helper call in argument position bound to a local first")
                # a comprehension run for its effects: `[self.m(v) for v in IT if C]` (bare, or bound to a name) is the loop it abbreviates
                comp = st.value if isinstance(st, (ast.Expr, ast.Assign)) and isinstance(getattr(st, "value", None), ast.ListComp) else None
                if comp is not None and len(comp.generators) == 1 and not comp.generators[0].is_async and isinstance(comp.generators[0].target, ast.Name) \
                        and any(isinstance(n_, ast.Call) and isinstance(n_.func, ast.Attribute) and isinstance(n_.func.value, ast.Name) and n_.func.value.id == "self" for n_ in ast.walk(comp.elt)) \
                        and (isinstance(st, ast.Expr) or (len(st.targets) == 1 and isinstance(st.targets[0], ast.Name))) \
                        and sum(1 for n_ in ast.walk(d) if isinstance(n_, ast.Name) and n_.id == comp.generators[0].target.id and not any(n_ is m_ for m_ in ast.walk(comp))) == 0:
                    gen_ = comp.generators[0]
                    if isinstance(st, ast.Expr):
                        inner: List[ast.stmt] = [ast.Expr(value=comp.elt)]
                        pre_: List[ast.stmt] = []
                    else:
                        acc = st.targets[0].id
                        inner = [ast.Expr(value=ast.Call(func=ast.Attribute(value=ast.Name(id=acc, ctx=ast.Load()), attr="append", ctx=ast.Load()), args=[comp.elt], keywords=[]))]
                        pre_ = [ast.Assign(targets=[ast.Name(id=acc, ctx=ast.Store())], value=ast.List(elts=[], ctx=ast.Load()))]
                    if gen_.ifs:
                        inner = [ast.If(test=gen_.ifs[0] if len(gen_.ifs) == 1 else ast.BoolOp(op=ast.And(), values=list(gen_.ifs)), body=inner, orelse=[])]
                    loop_ = ast.For(target=gen_.target, iter=gen_.iter, body=inner, orelse=[], type_comment=None)
                    for r_ in pre_ + [loop_]:
                        ast.copy_location(r_, st)
                        ast.fix_missing_locations(r_)
                    res.extend(pre_ + [loop_])
                    notes.append("comprehension run for its effects read as a loop")
                    continue
                ln = lower_next(st)
                if ln is not None:
                    fz = fuse_found(ln, stmts[idx + 1] if idx + 1 < len(stmts) else None)
                    if fz is not None:
                        res.extend(fz)
                        skip_next = True
                    else:
                        res.extend(ln)
                    continue
                for fld in ("body", "orelse", "finalbody"):
                    v = getattr(st, fld, None)
                    if isinstance(v, list) and v and isinstance(v[0], ast.stmt):
                        setattr(st, fld, block(v))
                for h in getattr(st, "handlers", []) or []:
                    h.body = block(h.body)
                res.append(st)
            return res

        d.body = block(d.body)
        if notes:
            out.append(f"{d.name}: " + "; ".join(sorted(set(notes))))
    return out


def undo_cm_classes(tree: ast.Module, known: Set[str]) -> List[str]:
    """A small context-manager class introduced after the rules were written - `__init__` that only stores its parameters /
    empty containers, `__enter__`, `__exit__` (never suppressing: returns False / None), optionally `__call__` for decorator
    use - is read as the @contextmanager generator function it replaces:
        def K(params): <init stores as locals>; <__enter__ body>; try: yield <entered value> finally: <__exit__ body>
    A per-instance stack (`self._tokens.append(x)` in __enter__, `t = self._tokens.pop()` in __exit__) becomes one local:
    every entry of a generator-based manager has its own frame, which is what the stack provides.  An `__exit__` that looks
    at exc_type (only `is None` / `is not None` tests) is split into the exceptional and the normal exit."""
    out: List[str] = []
    for idx, c in enumerate(list(tree.body)):
        if not isinstance(c, ast.ClassDef) or f"{c.name}.__enter__" in known:
            continue
        if any(ast.unparse(b).split(".")[-1] not in ("object", "ContextDecorator", "AbstractContextManager") for b in c.bases) or c.keywords or c.decorator_list:
            continue
        meths = {m.name: m for m in c.body if isinstance(m, ast.FunctionDef)}
        other = [m for m in c.body if not isinstance(m, ast.FunctionDef) and not (isinstance(m, ast.Expr) and isinstance(m.value, ast.Constant)) and not isinstance(m, ast.Pass)]
        if other or "__enter__" not in meths or "__exit__" not in meths or set(meths) - {"__init__", "__enter__", "__exit__", "__call__"}:
            continue
        init, ent, ext = meths.get("__init__"), meths["__enter__"], meths["__exit__"]
        if any(m.decorator_list for m in (ent, ext)) or (init is not None and (init.decorator_list or init.args.vararg or init.args.kwarg)):
            continue
        if len(ent.args.args) != 1 or len(ext.args.args) != 4 or ext.args.vararg or ext.args.kwarg:
            continue
        attrs: Dict[str, ast.expr] = {}
        ok = True
        for st in (init.body if init is not None else []):
            if isinstance(st, ast.Expr) and isinstance(st.value, ast.Constant):
                continue
            tg = st.targets[0] if isinstance(st, ast.Assign) and len(st.targets) == 1 else (st.target if isinstance(st, ast.AnnAssign) and st.value is not None else None)
            if isinstance(tg, ast.Attribute) and isinstance(tg.value, ast.Name) and tg.value.id == init.args.args[0].arg and tg.attr not in attrs \
                    and (isinstance(st.value, (ast.Name, ast.Constant)) or (isinstance(st.value, (ast.List, ast.Tuple)) and not st.value.elts)):
                attrs[tg.attr] = st.value
            else:
                ok = False
        if not ok:
            continue
        stacks = {a for a, v in attrs.items() if isinstance(v, ast.List)}
        et, ev, tb = [a.arg for a in ext.args.args[1:]]

        def convert(body, selfname, is_exit) -> Optional[List[ast.stmt]]:
            body = [b for b in copy.deepcopy(body) if not (isinstance(b, ast.Expr) and isinstance(b.value, ast.Constant) and isinstance(b.value.value, str))]
            bad = [False]

            class T(ast.NodeTransformer):
                def visit_Expr(self, n):
                    v = n.value
                    if isinstance(v, ast.Call) and isinstance(v.func, ast.Attribute) and v.func.attr == "append" and isinstance(v.func.value, ast.Attribute) \
                            and isinstance(v.func.value.value, ast.Name) and v.func.value.value.id == selfname and v.func.value.attr in stacks and len(v.args) == 1 and not is_exit:
                        return ast.copy_location(ast.Assign(targets=[ast.Name(id=f"{v.func.value.attr}_top", ctx=ast.Store())], value=self.visit(v.args[0])), n)
                    self.generic_visit(n)
                    return n

                def visit_Call(self, n):
                    if isinstance(n.func, ast.Attribute) and n.func.attr == "pop" and not n.args and isinstance(n.func.value, ast.Attribute) and isinstance(n.func.value.value, ast.Name) \
                            and n.func.value.value.id == selfname and n.func.value.attr in stacks and is_exit:
                        return ast.copy_location(ast.Name(id=f"{n.func.value.attr}_top", ctx=ast.Load()), n)
                    self.generic_visit(n)
                    return n

                def visit_Attribute(self, n):
                    if isinstance(n.value, ast.Name) and n.value.id == selfname:
                        if n.attr in attrs and n.attr not in stacks and isinstance(n.ctx, ast.Load):
                            return ast.copy_location(ast.Name(id=n.attr, ctx=ast.Load()), n)
                        bad[0] = True
                        return n
                    self.generic_visit(n)
                    return n

                def visit_Name(self, n):
                    if n.id == selfname:
                        bad[0] = True
                    return n

            res = [T().visit(b) for b in body]
            return None if bad[0] else res

        enter_body = convert(ent.body, ent.args.args[0].arg, False)
        exit_body = convert(ext.body, ext.args.args[0].arg, True)
        if enter_body is None or exit_body is None:
            continue
        # the entered value: a single trailing `return V` (or none)
        yielded = None
        if enter_body and isinstance(enter_body[-1], ast.Return):
            yielded = enter_body[-1].value
            enter_body = enter_body[:-1]
        if any(isinstance(n, ast.Return) for b in enter_body for n in ast.walk(b)):
            continue
        # never suppressing
        rets = [n for b in exit_body for n in ast.walk(b) if isinstance(n, ast.Return)]
        if any(not (r.value is None or (isinstance(r.value, ast.Constant) and r.value.value in (False, None))) for r in rets):
            continue
        if rets and not (len(rets) == 1 and exit_body and exit_body[-1] is rets[0]):
            continue
        exit_body = [b for b in exit_body if not isinstance(b, ast.Return)]
        uses_exc = {n.id for b in exit_body for n in ast.walk(b) if isinstance(n, ast.Name) and n.id in (et, ev, tb)}
        ystmt = ast.Expr(value=ast.Yield(value=yielded))
        if not uses_exc:
            core = [ast.Try(body=[ystmt], handlers=[], orelse=[], finalbody=exit_body or [ast.Pass()])] if exit_body else [ystmt]
        elif uses_exc == {et}:
            def with_exc(is_none: bool):
                class F(ast.NodeTransformer):
                    def visit_Compare(self, n):
                        if len(n.ops) == 1 and isinstance(n.left, ast.Name) and n.left.id == et and isinstance(n.comparators[0], ast.Constant) and n.comparators[0].value is None \
                                and isinstance(n.ops[0], (ast.Is, ast.IsNot)):
                            return ast.copy_location(ast.Constant(value=is_none if isinstance(n.ops[0], ast.Is) else not is_none), n)
                        return n
                b2 = fold_constant_tests([F().visit(copy.deepcopy(b)) for b in exit_body])
                if any(isinstance(n, ast.Name) and n.id == et for b in b2 for n in ast.walk(b)):
                    return None
                return b2
            exc_side, ok_side = with_exc(False), with_exc(True)
            if exc_side is None or ok_side is None:
                continue
            if not exc_side:
                core = [ystmt] + ok_side  # nothing to do on the exceptional exit: plain code after the yield
            else:
                core = [ast.Try(body=[ystmt], handlers=[ast.ExceptHandler(type=ast.Name(id="BaseException", ctx=ast.Load()), name=None, body=exc_side + [ast.Raise(exc=None, cause=None)])],
                                orelse=ok_side or [ast.Pass()], finalbody=[])]
        else:
            continue
        pre: List[ast.stmt] = []
        params = init.args if init is not None else ast.arguments(posonlyargs=[], args=[ast.arg(arg="self")], vararg=None, kwonlyargs=[], kw_defaults=[], kwarg=None, defaults=[])
        pnames = {a.arg for a in params.args[1:]} | {a.arg for a in params.kwonlyargs}
        for a, v in attrs.items():
            if a in stacks:
                continue
            if isinstance(v, ast.Name) and v.id == a:
                continue
            if a in pnames:
                ok = False  # an attribute named like a different parameter: would capture
            pre.append(ast.Assign(targets=[ast.Name(id=a, ctx=ast.Store())], value=copy.deepcopy(v)))
        if not ok:
            continue
        fargs = copy.deepcopy(params)
        fargs.args = fargs.args[1:]
        doc = [b for b in c.body[:1] if isinstance(b, ast.Expr) and isinstance(b.value, ast.Constant) and isinstance(b.value.value, str)]
        fn = ast.FunctionDef(name=c.name, args=fargs, body=doc + pre + enter_body + core, decorator_list=[ast.Name(id="contextmanager", ctx=ast.Load())], returns=None, type_comment=None, type_params=[])
        ast.copy_location(fn, c)
        ast.fix_missing_locations(fn)
        tree.body[tree.body.index(c)] = fn
        out.append(f"{c.name}: context-manager class read as a @contextmanager generator function")
    return out


def positional_required_arguments(trees: Dict[str, ast.Module]) -> List[str]:
    """`self.remove_module(module=m)` is read as `self.remove_module(m)`: arguments passed by keyword to *required* parameters are
    moved to their positions when the callee's signature is known (a method of the enclosing class or its bases, or the only
    definition of that name in the program), the keywords continue the positional prefix without a gap and appear in
    parameter order (so the evaluation order of the argument expressions is unchanged).  Optional parameters stay keywords -
    that is how the pinned tree passes them and how the rules look them up."""
    defs: Dict[str, List[Tuple[Optional[str], ast.FunctionDef]]] = {}
    bases: Dict[str, List[str]] = {}
    for t in trees.values():
        for n in ast.walk(t):
            if isinstance(n, ast.ClassDef):
                bases.setdefault(n.name, []).extend(b.id for b in n.bases if isinstance(b, ast.Name))
                for m in n.body:
                    if isinstance(m, (ast.FunctionDef, ast.AsyncFunctionDef)):
                        defs.setdefault(m.name, []).append((n.name, m))
        for m in t.body:
            if isinstance(m, (ast.FunctionDef, ast.AsyncFunctionDef)):
                defs.setdefault(m.name, []).append((None, m))

    def mro_names(c, seen=()):
        out = [c]
        for b in bases.get(c, []):
            if b not in seen:
                out += mro_names(b, seen + (c,))
        return out

    def signature(fn: ast.FunctionDef, bound: bool):
        if fn.args.vararg or fn.args.posonlyargs:
            return None
        ps = [a.arg for a in fn.args.args]
        kinds = [ast.unparse(d).split(".")[-1] for d in fn.decorator_list]
        if any(k not in ("staticmethod", "classmethod") for k in kinds):
            return None
        if bound and "staticmethod" not in kinds:
            ps = ps[1:]
        nreq = len(fn.args.args) - len(fn.args.defaults) - (1 if bound and "staticmethod" not in kinds else 0)
        return ps, max(nreq, 0)

    count = [0]

    class P(ast.NodeTransformer):
        def __init__(self):
            self.cls: List[Optional[str]] = [None]

        def visit_ClassDef(self, c):
            self.cls.append(c.name)
            self.generic_visit(c)
            self.cls.pop()
            return c

        def visit_Call(self, n):
            self.generic_visit(n)
            if not n.keywords or any(k.arg is None for k in n.keywords) or any(isinstance(a, ast.Starred) for a in n.args):
                return n
            sig = None
            if isinstance(n.func, ast.Attribute):
                name = n.func.attr
                cands = defs.get(name, [])
                if isinstance(n.func.value, ast.Name) and n.func.value.id == "self" and self.cls[-1] is not None:
                    own = [m for c_, m in cands if c_ in mro_names(self.cls[-1])]
                    if len(own) >= 1:
                        sig = signature(own[0], True)
                elif len(cands) == 1 and cands[0][0] is not None:
                    sig = signature(cands[0][1], True)
            elif isinstance(n.func, ast.Name):
                cands = defs.get(n.func.id, [])
                if len(cands) == 1 and cands[0][0] is None:
                    sig = signature(cands[0][1], False)
            if sig is None:
                return n
            ps, nreq = sig
            pos = len(n.args)
            moved = 0
            while n.keywords and pos < nreq and pos < len(ps) and n.keywords[0].arg == ps[pos]:
                n.args.append(n.keywords.pop(0).value)
                pos += 1
                moved += 1
            count[0] += moved
            return n

    for t in trees.values():
        P().visit(t)
        if count[0]:
            ast.fix_missing_locations(t)
    return [f"{count[0]} argument(s) passed by keyword to required parameters read in their positions"] if count[0] else []


def undo_singledispatch(tree: ast.Module) -> List[str]:
    """`@functools.singledispatch` / `@singledispatchmethod` generic functions are read as the isinstance chain they stand
    for: the generic function keeps its name and parameters, each registered implementation becomes one
    `if isinstance(<dispatch argument>, <registered types>):` arm (implementations registered for a subclass of another
    registered type first), the undecorated body is the final `else`.  Exact for concrete classes - dispatch on
    type(arg).__mro__ picks the most specific registered class, which is what the ordered chain does.  Registrations
    for abstract base classes (virtual subclasses) are not modelled: such a generic function is left as written."""
    ABCS = {"Sequence", "Mapping", "Iterable", "Iterator", "Collection", "Container", "Sized", "Hashable", "Callable", "Number", "Integral", "Real", "Set", "MutableSequence",
            "MutableMapping", "MutableSet", "ByteString", "Reversible", "Generator", "Awaitable", "Protocol"}
    KNOWN_SUB = {("bool", "int")}
    out: List[str] = []
    bases = _PROGRAM_INDEX.get("bases", {}) if _PROGRAM_INDEX else {}

    def descends(a: str, b: str, seen=()) -> bool:
        if (a, b) in KNOWN_SUB:
            return True
        for x in bases.get(a, []):
            if x == b or (x not in seen and descends(x, b, seen + (a,))):
                return True
        return False

    def deco_name(d) -> str:
        return ast.unparse(d.func if isinstance(d, ast.Call) else d)

    def ann_types(a) -> Optional[List[ast.expr]]:
        if a is None:
            return None
        if isinstance(a, (ast.Name, ast.Attribute)):
            return [a]
        if isinstance(a, ast.Subscript) and ast.unparse(a.value).split(".")[-1] == "Union":
            el = a.slice.elts if isinstance(a.slice, ast.Tuple) else [a.slice]
            return list(el) if all(isinstance(e, (ast.Name, ast.Attribute)) for e in el) else None
        if isinstance(a, ast.BinOp) and isinstance(a.op, ast.BitOr):
            l, r = ann_types(a.left), ann_types(a.right)
            return l + r if l and r else None
        return None

    def process(body: List[ast.stmt], in_class: bool):
        for g in [b for b in body if isinstance(b, ast.FunctionDef)]:
            kinds = [deco_name(d).split(".")[-1] for d in g.decorator_list]
            if not any(k in ("singledispatch", "singledispatchmethod") for k in kinds) or len(g.decorator_list) != 1:
                continue
            method = kinds[0] == "singledispatchmethod"
            gparams = [a.arg for a in g.args.posonlyargs + g.args.args]
            di = 1 if method else 0
            if len(gparams) <= di or g.args.vararg or g.args.kwarg:
                continue
            disp = gparams[di]
            impls = []
            ok = True
            for r in [b for b in body if isinstance(b, ast.FunctionDef) and b is not g]:
                regs = [d for d in r.decorator_list if deco_name(d) == f"{g.name}.register"]
                if not regs:
                    continue
                if len(regs) != len(r.decorator_list):
                    ok = False
                    break
                types: List[ast.expr] = []
                rparams = [a.arg for a in r.args.posonlyargs + r.args.args]
                for d in regs:
                    if isinstance(d, ast.Call) and len(d.args) == 1 and not d.keywords and isinstance(d.args[0], (ast.Name, ast.Attribute)):
                        types.append(d.args[0])
                    elif not isinstance(d, ast.Call) and len(rparams) > di:
                        t = ann_types((r.args.posonlyargs + r.args.args)[di].annotation)
                        if not t:
                            ok = False
                            break
                        types.extend(t)
                    else:
                        ok = False
                        break
                if not ok or len(rparams) != len(gparams) or r.args.vararg or r.args.kwarg or [a.arg for a in r.args.kwonlyargs] != [a.arg for a in g.args.kwonlyargs]:
                    ok = False
                    break
                if any(ast.unparse(t).split(".")[-1] in ABCS for t in types):
                    ok = False
                    break
                impls.append((r, types, rparams))
            if not ok or not impls:
                continue
            # a registered implementation that is referred to elsewhere by its own name stays defined
            # more specific registrations first
            def tname(t):
                return ast.unparse(t).split(".")[-1]

            order = list(impls)
            changed = True
            guard = 0
            while changed and guard < 50:
                changed = False
                guard += 1
                for i in range(len(order)):
                    for j in range(i + 1, len(order)):
                        if any(descends(tname(b_), tname(a_)) for a_ in order[i][1] for b_ in order[j][1]):
                            order[i], order[j] = order[j], order[i]
                            changed = True
            chain: List[ast.stmt] = list(g.body)
            for r, types, rparams in reversed(order):
                ren = {a: b for a, b in zip(rparams, gparams) if a != b}
                rb = [b for b in r.body if not (isinstance(b, ast.Expr) and isinstance(b.value, ast.Constant) and isinstance(b.value.value, str))] or [ast.Pass()]
                if ren:
                    # a parameter renamed onto a name the implementation uses otherwise would capture it
                    used = {n.id for b in rb for n in ast.walk(b) if isinstance(n, ast.Name)}
                    if any(v in used and v not in rparams for v in ren.values()):
                        ok = False
                        break
                    rb = [_Rename({}, {a: ast.Name(id=b, ctx=ast.Load()) for a, b in ren.items()}).visit(copy.deepcopy(b)) for b in rb]
                    for b in rb:
                        for n in ast.walk(b):
                            if isinstance(n, ast.Name) and n.id in ren and isinstance(n.ctx, (ast.Store, ast.Del)):
                                n.id = ren[n.id]
                tt = types[0] if len(types) == 1 else ast.Tuple(elts=list(types), ctx=ast.Load())
                test = ast.Call(func=ast.Name(id="isinstance", ctx=ast.Load()), args=[ast.Name(id=disp, ctx=ast.Load()), copy.deepcopy(tt)], keywords=[])
                node = ast.If(test=test, body=rb, orelse=chain)
                ast.copy_location(node, r)
                chain = [node]
            if not ok:
                continue
            doc = [b for b in g.body[:1] if isinstance(b, ast.Expr) and isinstance(b.value, ast.Constant) and isinstance(b.value.value, str)]
            if doc:
                # the docstring stays in front, the rest of the generic body is the final else
                inner = chain[0]
                last = inner
                while last.orelse and isinstance(last.orelse[0], ast.If) and last.orelse is not g.body and len(last.orelse) == 1 and last.orelse[0] is not None and last.orelse != g.body:
                    last = last.orelse[0]
                last.orelse = [b for b in g.body if b is not doc[0]] or [ast.Pass()]
                g.body = doc + [inner]
            else:
                g.body = chain
            g.decorator_list = []
            refs = {n.id for n in ast.walk(tree) if isinstance(n, ast.Name)} | {n.attr for n in ast.walk(tree) if isinstance(n, ast.Attribute)}
            for r, _, _ in impls:
                if r.name == "_" or r.name not in refs:
                    body.remove(r)
                else:
                    r.decorator_list = []
            for b in g.body:
                ast.fix_missing_locations(b)
            out.append(f"{g.name}: single-dispatch generic function read as an isinstance chain over {len(impls)} registered implementation(s)")

    process(tree.body, False)
    for c in [c for c in ast.walk(tree) if isinstance(c, ast.ClassDef)]:
        process(c.body, True)
    return out


def undo_decorators(tree: ast.Module, known: Set[str]) -> List[str]:
    out: List[str] = []
    funcs = {st.name: st for st in tree.body if isinstance(st, ast.FunctionDef)}

    def wrapper_of(d: ast.FunctionDef):
        """(factory params, fn param name, wrapper FunctionDef) when d has one of the two shapes"""
        body = [b for b in d.body if not (isinstance(b, ast.Expr) and isinstance(b.value, ast.Constant))]
        rv = body[1].value if len(body) == 2 and isinstance(body[1], ast.Return) else None
        if isinstance(rv, ast.Call) and ast.unparse(rv.func).split(".")[-1] == "cast" and len(rv.args) == 2:
            rv = rv.args[1]  # typing.cast(F, wrapper)
        if len(body) == 2 and isinstance(body[0], ast.FunctionDef) and isinstance(rv, ast.Name) and rv.id == body[0].name:
            inner = body[0]
            if len(d.args.args) == 1 and not d.args.vararg and not d.args.kwarg and not d.args.kwonlyargs:
                # direct decorator?  the inner function must call d's parameter
                fnp = d.args.args[0].arg
                if any(isinstance(n, ast.Call) and isinstance(n.func, ast.Name) and n.func.id == fnp for n in ast.walk(inner)):
                    return [], fnp, inner
            # factory: inner is `def deco(fn): def wrapper...; return wrapper`
            r = wrapper_of(inner)
            if r is not None and not r[0] and not d.args.vararg and not d.args.kwarg:
                return [a.arg for a in d.args.posonlyargs + d.args.args + d.args.kwonlyargs], r[1], r[2], d
        return None

    def process(owner_body: List[ast.stmt], cname: Optional[str]):
        for f in list(owner_body):
            if not isinstance(f, ast.FunctionDef) or not f.decorator_list:
                continue
            qual = f"{cname}.{f.name}" if cname else f.name
            for dec in list(f.decorator_list):
                dn = dec.func if isinstance(dec, ast.Call) else dec
                if not isinstance(dn, ast.Name) or dn.id not in funcs or dn.id in known:
                    continue
                w = wrapper_of(funcs[dn.id])
                if w is None:
                    continue
                fparams, fnp, wr = w[0], w[1], w[2]
                if bool(fparams) != isinstance(dec, ast.Call):
                    continue
                if f.decorator_list.index(dec) != len(f.decorator_list) - 1:
                    continue  # only the innermost decorator is applied by hand
                if f.args.vararg or f.args.kwarg or any(isinstance(n, (ast.Yield, ast.YieldFrom)) for n in ast.walk(f)):
                    continue
                # factory arguments
                fsub: Dict[str, ast.expr] = {}
                if fparams:
                    factory = w[3]
                    if any(isinstance(a, ast.Starred) for a in dec.args) or any(k.arg is None for k in dec.keywords) or len(dec.args) > len(fparams):
                        continue
                    for pn, a in zip(fparams, dec.args):
                        fsub[pn] = a
                    for k in dec.keywords:
                        fsub[k.arg] = k.value
                    allp = [a.arg for a in factory.args.posonlyargs + factory.args.args]
                    for pn, dv in zip(allp[len(allp) - len(factory.args.defaults):], factory.args.defaults):
                        fsub.setdefault(pn, dv)
                    for a_, dv in zip(factory.args.kwonlyargs, factory.args.kw_defaults):
                        if dv is not None:
                            fsub.setdefault(a_.arg, dv)
                    if set(fparams) - set(fsub) or not all(_pure(v) or isinstance(v, (ast.Constant, ast.Tuple)) for v in fsub.values()):
                        continue
                # wrapper parameters <-> the function's own
                wnamed = [a.arg for a in wr.args.posonlyargs + wr.args.args]
                fown = [a.arg for a in f.args.posonlyargs + f.args.args]
                if len(wnamed) > len(fown) or wr.args.kwonlyargs:
                    continue
                if len(wnamed) < len(fown) and not wr.args.vararg:
                    continue
                ren = dict(zip(wnamed, fown))
                rest = fown[len(wnamed):]
                var, kw = (wr.args.vararg.arg if wr.args.vararg else None), (wr.args.kwarg.arg if wr.args.kwarg else None)
                orig_name = f"_undecorated_{f.name.strip('_')}"
                is_method = cname is not None and fown and not any(ast.unparse(x) in ("staticmethod", "classmethod") for x in f.decorator_list)
                ok = [True]

                class W(ast.NodeTransformer):
                    def visit_FunctionDef(self_, n):
                        ok[0] = False
                        return n

                    visit_Lambda = visit_AsyncFunctionDef = visit_FunctionDef

                    def visit_Name(self_, n):
                        if n.id in fsub and isinstance(n.ctx, ast.Load):
                            return ast.copy_location(copy.deepcopy(fsub[n.id]), n)
                        if n.id in ren:
                            return ast.copy_location(ast.Name(id=ren[n.id], ctx=n.ctx), n)
                        if n.id in (var, kw) or n.id == fnp:
                            ok[0] = False  # used other than in the forwarding call
                        return n

                    def visit_Call(self_, n):
                        if isinstance(n.func, ast.Name) and n.func.id == fnp:
                            args: List[ast.expr] = []
                            for a in n.args:
                                if isinstance(a, ast.Starred) and isinstance(a.value, ast.Name) and a.value.id == var:
                                    args.extend(ast.Name(id=r_, ctx=ast.Load()) for r_ in rest)
                                else:
                                    args.append(self_.visit(a))
                            kws = [k for k in n.keywords if not (k.arg is None and isinstance(k.value, ast.Name) and k.value.id == kw)]
                            for k in kws:
                                k.value = self_.visit(k.value)
                            if len(args) != len(fown):
                                ok[0] = False
                                return n
                            if is_method:
                                if not (isinstance(args[0], ast.Name) and args[0].id == fown[0]):
                                    ok[0] = False
                                    return n
                                return ast.copy_location(ast.Call(func=ast.Attribute(value=ast.Name(id=fown[0], ctx=ast.Load()), attr=orig_name, ctx=ast.Load()), args=args[1:], keywords=kws), n)
                            return ast.copy_location(ast.Call(func=ast.Name(id=orig_name, ctx=ast.Load()), args=args, keywords=kws), n)
                        self_.generic_visit(n)
                        return n

                nb = [W().visit(copy.deepcopy(b)) for b in wr.body if not (isinstance(b, ast.Expr) and isinstance(b.value, ast.Constant))]
                if not ok[0] or not nb:
                    continue
                if is_method and fown[0] != "self":
                    continue
                orig = copy.deepcopy(f)
                orig.name = orig_name
                orig.decorator_list = [x for x in orig.decorator_list if x is not None and ast.dump(x) != ast.dump(dec)]
                doc = [b for b in f.body[:1] if isinstance(b, ast.Expr) and isinstance(b.value, ast.Constant) and isinstance(b.value.value, str)]
                f.body = doc + nb
                f.decorator_list = [x for x in f.decorator_list if x is not dec]
                owner_body.insert(owner_body.index(f) + 1, orig)
                ast.fix_missing_locations(f)
                ast.fix_missing_locations(orig)
                out.append(f"{qual}: decorator {dn.id} applied by hand")
                break

    for st in tree.body:
        if isinstance(st, ast.ClassDef):
            process(st.body, st.name)
    process(tree.body, None)
    return out


# ======================================================================================================================
# Helpers that live in a module the rules never saw (`from .failed_message import is_reportable, build_failed_message`,
# `from .defhash import definition_text`): their definitions - and what they need from that module - are analysed as if
# written in the importing module, where the helper expansion then writes them in place.  Exact: names are bound to the same
# objects; only definitions of modules that did not exist in the pinned tree are copied.
# ======================================================================================================================
def pull_in_new_modules(trees: Dict[str, ast.Module]) -> List[str]:
    kf = known_functions()
    if not kf:
        return []
    new_mods = {m for m in trees if m not in kf}
    if not new_mods:
        return []
    out: List[str] = []
    tops: Dict[str, Dict[str, ast.stmt]] = {}
    for m in new_mods:
        d: Dict[str, ast.stmt] = {}
        for st in trees[m].body:
            if isinstance(st, (ast.FunctionDef, ast.ClassDef)):
                d[st.name] = st
            elif isinstance(st, ast.Assign) and len(st.targets) == 1 and isinstance(st.targets[0], ast.Name):
                d[st.targets[0].id] = st
            elif isinstance(st, ast.AnnAssign) and isinstance(st.target, ast.Name) and st.value is not None:
                d[st.target.id] = st
        tops[m] = d
    for mod, t in trees.items():
        if mod in new_mods:
            continue
        have = {st.name for st in t.body if isinstance(st, (ast.FunctionDef, ast.ClassDef))} | \
               {x.id for st in t.body if isinstance(st, (ast.Assign, ast.AnnAssign)) for x in ([st.targets[0]] if isinstance(st, ast.Assign) else [st.target]) if isinstance(x, ast.Name)}
        # `from . import admission` ... `admission.check_identity(...)`: the qualified references become plain names first
        for st in list(t.body):
            if isinstance(st, ast.ImportFrom):
                base = mod.split(".")
                pkg = ".".join(base[: len(base) - st.level] + ([st.module] if st.module else [])) if st.level else (st.module or "")
                for al in list(st.names):
                    src = f"{pkg}.{al.name}" if pkg else al.name
                    if src in new_mods and al.asname in (None, al.name):
                        local = al.asname or al.name
                        used = sorted({n.attr for n in ast.walk(t) if isinstance(n, ast.Attribute) and isinstance(n.value, ast.Name) and n.value.id == local and n.attr in tops[src]})
                        other = [n for n in ast.walk(t) if isinstance(n, ast.Name) and n.id == local and not isinstance(getattr(n, "ctx", None), ast.Store)]
                        attr_uses = [n for n in ast.walk(t) if isinstance(n, ast.Attribute) and isinstance(n.value, ast.Name) and n.value.id == local]
                        if not used or len(other) != len(attr_uses) or any(n.attr not in tops[src] for n in attr_uses) or any(u in have for u in used):
                            continue

                        class Q(ast.NodeTransformer):
                            def visit_Attribute(self_, n):
                                self_.generic_visit(n)
                                if isinstance(n.value, ast.Name) and n.value.id == local:
                                    return ast.copy_location(ast.Name(id=n.attr, ctx=n.ctx), n)
                                return n

                        Q().visit(t)
                        st.names.remove(al)
                        imp = ast.copy_location(ast.ImportFrom(module=(st.module + "." if st.module else "") + al.name, names=[ast.alias(name=u, asname=None) for u in used], level=st.level), st)
                        t.body.insert(t.body.index(st) + 1, imp)
                        if not st.names:
                            t.body.remove(st)
        for st in list(t.body):
            if not isinstance(st, ast.ImportFrom):
                continue
            base = mod.split(".")
            if st.level:
                src = ".".join(base[: len(base) - st.level] + ([st.module] if st.module else []))
            else:
                src = st.module or ""
            if src not in new_mods:
                continue
            wanted = [al.name for al in st.names if al.asname in (None, al.name) and al.name in tops[src]]
            if not wanted:
                continue
            # transitive closure inside the new module
            todo, take = list(wanted), []
            while todo:
                nm = todo.pop()
                if nm in take or nm in have:
                    continue
                take.append(nm)
                for x in ast.walk(tops[src][nm]):
                    if isinstance(x, ast.Name) and x.id in tops[src] and x.id not in take:
                        todo.append(x.id)
            order = [nm for nm in tops[src] if nm in take]
            idx = t.body.index(st)
            for k, nm in enumerate(order):
                t.body.insert(idx + 1 + k, copy.deepcopy(tops[src][nm]))
                have.add(nm)
            st.names = [al for al in st.names if al.name not in take]
            if not st.names:
                t.body.remove(st)
            out.append(f"{mod} <- {src}: {', '.join(order)}")
    return out


def fold_constant_tests(stmts: List[ast.stmt]) -> List[ast.stmt]:
    """`if True:` / `if not False:` / `a if True else b` left behind by substituting constant arguments into an expanded helper:
    the branch that cannot run is dropped (nothing else is touched)"""

    def const_truth(t):
        if isinstance(t, ast.Constant):
            return bool(t.value)
        if isinstance(t, ast.UnaryOp) and isinstance(t.op, ast.Not):
            v = const_truth(t.operand)
            return None if v is None else (not v)
        if isinstance(t, ast.Compare) and len(t.ops) == 1 and isinstance(t.left, ast.Constant) and isinstance(t.comparators[0], ast.Constant) and isinstance(t.ops[0], (ast.Is, ast.IsNot, ast.Eq, ast.NotEq)):
            a, b = t.left.value, t.comparators[0].value
            if isinstance(t.ops[0], ast.Is):
                return a is b if (a is None or b is None or isinstance(a, bool) or isinstance(b, bool)) else None
            if isinstance(t.ops[0], ast.IsNot):
                return a is not b if (a is None or b is None or isinstance(a, bool) or isinstance(b, bool)) else None
            return (a == b) if isinstance(t.ops[0], ast.Eq) else (a != b)
        return None

    class E(ast.NodeTransformer):
        def visit_IfExp(self, n):
            self.generic_visit(n)
            v = const_truth(n.test)
            if v is None:
                return n
            return n.body if v else n.orelse

        def visit_FunctionDef(self, n):
            return n

        visit_AsyncFunctionDef = visit_ClassDef = visit_Lambda = visit_FunctionDef

    out: List[ast.stmt] = []
    for s in stmts:
        for fld in ("body", "orelse", "finalbody"):
            v = getattr(s, fld, None)
            if isinstance(v, list) and v and isinstance(v[0], ast.stmt) and not isinstance(s, (ast.FunctionDef, ast.AsyncFunctionDef, ast.ClassDef)):
                setattr(s, fld, fold_constant_tests(v) or ([ast.Pass()] if fld == "body" else []))
        if isinstance(s, ast.Try):
            for h in s.handlers:
                h.body = fold_constant_tests(h.body) or [ast.Pass()]
        if not isinstance(s, (ast.FunctionDef, ast.AsyncFunctionDef, ast.ClassDef)):
            # expressions of this statement only (nested blocks were handled above)
            for fld, val in list(ast.iter_fields(s)):
                if isinstance(val, ast.expr):
                    setattr(s, fld, E().visit(val))
                elif isinstance(val, list) and val and isinstance(val[0], ast.expr):
                    setattr(s, fld, [E().visit(x) for x in val])
        if isinstance(s, ast.If):
            v = const_truth(s.test)
            if v is not None:
                out.extend(s.body if v else s.orelse)
                continue
        out.append(s)
    return out


# ======================================================================================================================
# Small result objects (`verdict = Verdict(False, "id in use")` ... `if not verdict.admitted:`): a local that is only ever
# bound to constructor calls of a value class the rules never saw (NamedTuple / dataclass with plain fields) and only ever
# read field by field is replaced by one local per field.  Exact (the object never escapes).
# ======================================================================================================================
def scalar_replace_results(tree: ast.Module, modname: str) -> List[str]:
    if not _SIGS:
        return []
    kf = known_functions().get(modname, set())
    vclasses: Dict[str, List[Tuple[str, Optional[ast.expr]]]] = {}
    for st in tree.body:
        if isinstance(st, ast.ClassDef) and not any(q == st.name or q.startswith(st.name + ".") for q in kf):
            is_nt = any(ast.unparse(b).split(".")[-1] == "NamedTuple" for b in st.bases)
            is_dc = any(ast.unparse(d).split("(")[0].split(".")[-1] == "dataclass" for d in st.decorator_list)
            if not (is_nt or is_dc) or any(isinstance(x, ast.FunctionDef) and x.name in ("__init__", "__new__", "__post_init__") for x in st.body):
                continue
            fields = [(x.target.id, x.value) for x in st.body if isinstance(x, ast.AnnAssign) and isinstance(x.target, ast.Name)]
            if fields and all(v is None or isinstance(v, ast.Constant) for _, v in fields):
                vclasses[st.name] = fields
    if not vclasses:
        return []
    out: List[str] = []
    # module-level constants of such a class (`ADMITTED = Verdict(True, None)`) are written where they are read
    mconst: Dict[str, ast.Call] = {}
    for st in tree.body:
        if isinstance(st, ast.Assign) and len(st.targets) == 1 and isinstance(st.targets[0], ast.Name) and isinstance(st.value, ast.Call) and isinstance(st.value.func, ast.Name) \
                and st.value.func.id in vclasses and all(isinstance(a, ast.Constant) for a in st.value.args) and all(isinstance(k.value, ast.Constant) for k in st.value.keywords) \
                and f"={st.targets[0].id}" not in kf:
            mconst[st.targets[0].id] = st.value
    for d in changed_functions(tree, modname):
        if mconst:
            local_stores = {n.id for n in ast.walk(d) if isinstance(n, ast.Name) and isinstance(n.ctx, ast.Store)} | {a.arg for a in ast.walk(d) if isinstance(a, ast.arg)}

            class MC(ast.NodeTransformer):
                def visit_Name(self_, n):
                    if isinstance(n.ctx, ast.Load) and n.id in mconst and n.id not in local_stores:
                        return ast.copy_location(copy.deepcopy(mconst[n.id]), n)
                    return n

            d.body = [MC().visit(b) for b in d.body]
        # candidate locals: every store is `v = K(...)`, `v = None` or `v = <other candidate>`; every load is `v.<field>` or the
        # right-hand side of such a copy
        assigns: Dict[str, List[ast.Assign]] = {}
        bad: Set[str] = set()
        for n in ast.walk(d):
            if isinstance(n, ast.Assign) and len(n.targets) == 1 and isinstance(n.targets[0], ast.Name):
                assigns.setdefault(n.targets[0].id, []).append(n)
            elif isinstance(n, (ast.AugAssign, ast.AnnAssign, ast.For, ast.NamedExpr, ast.withitem, ast.Assign)):
                ts = n.targets if isinstance(n, ast.Assign) else [getattr(n, "target", None) or getattr(n, "optional_vars", None)]
                for t in ts:
                    for x in (ast.walk(t) if t is not None else []):
                        if isinstance(x, ast.Name) and isinstance(x.ctx, (ast.Store, ast.Del)):
                            bad.add(x.id)
            elif isinstance(n, ast.arg):
                bad.add(n.arg)
            elif isinstance(n, ast.ExceptHandler) and n.name:
                bad.add(n.name)

        def ctor(v):
            return isinstance(v, ast.Call) and isinstance(v.func, ast.Name) and v.func.id in vclasses and not any(isinstance(a, ast.Starred) for a in v.args) and all(k.arg for k in v.keywords)

        cls_of: Dict[str, str] = {}
        for var, sts in assigns.items():
            ks = {s_.value.func.id for s_ in sts if ctor(s_.value)}
            if len(ks) == 1 and var not in bad:
                cls_of[var] = next(iter(ks))
        changed_ = True
        while changed_:
            changed_ = False
            # variables only ever copied from candidates join their class
            for var, sts in assigns.items():
                if var in cls_of or var in bad:
                    continue
                srcs = {s_.value.id for s_ in sts if isinstance(s_.value, ast.Name)}
                ks = {cls_of[x] for x in srcs if x in cls_of}
                if len(ks) == 1 and all(isinstance(s_.value, ast.Name) and s_.value.id in cls_of or (isinstance(s_.value, ast.Constant) and s_.value.value is None) for s_ in sts):
                    cls_of[var] = next(iter(ks))
                    changed_ = True
            for var in list(cls_of):
                fn_ = [f for f, _ in vclasses[cls_of[var]]]
                okv = all(ctor(s_.value) and s_.value.func.id == cls_of[var] or (isinstance(s_.value, ast.Constant) and s_.value.value is None)
                          or (isinstance(s_.value, ast.Name) and cls_of.get(s_.value.id) == cls_of[var]) for s_ in assigns[var])
                loads = [n for n in ast.walk(d) if isinstance(n, ast.Name) and n.id == var and isinstance(n.ctx, ast.Load)]
                fine = 0
                for n in ast.walk(d):
                    if isinstance(n, ast.Attribute) and isinstance(n.value, ast.Name) and n.value.id == var and isinstance(n.ctx, ast.Load) and n.attr in fn_:
                        fine += 1
                    elif isinstance(n, ast.Assign) and len(n.targets) == 1 and isinstance(n.targets[0], ast.Name) and isinstance(n.value, ast.Name) and n.value.id == var and n.targets[0].id in cls_of:
                        fine += 1
                if not okv or fine != len(loads):
                    del cls_of[var]
                    changed_ = True
        if not cls_of:
            continue

        def split(st: ast.Assign) -> Optional[List[ast.stmt]]:
            var = st.targets[0].id
            fields = vclasses[cls_of[var]]
            vals: Dict[str, ast.expr] = {}
            if isinstance(st.value, ast.Constant):
                vals = {f: ast.Constant(value=None) for f, _ in fields}
            elif isinstance(st.value, ast.Name):
                vals = {f: ast.Name(id=f"{st.value.id}__{f}", ctx=ast.Load()) for f, _ in fields}
            else:
                for (fname, dflt), a in zip(fields, st.value.args):
                    vals[fname] = a
                for k in st.value.keywords:
                    vals[k.arg] = k.value
                for fname, dflt in fields:
                    if fname not in vals:
                        if dflt is None:
                            return None
                        vals[fname] = copy.deepcopy(dflt)
                if set(vals) - {f for f, _ in fields}:
                    return None
            return [ast.copy_location(ast.Assign(targets=[ast.Name(id=f"{var}__{f}", ctx=ast.Store())], value=vals[f]), st) for f, _ in fields]

        plan = {}
        okall = True
        for var in cls_of:
            for st in assigns[var]:
                r = split(st)
                if r is None:
                    okall = False
                plan[id(st)] = r
        if not okall:
            continue

        class S(ast.NodeTransformer):
            def visit_Assign(self_, n):
                if id(n) in plan:
                    return plan[id(n)]
                self_.generic_visit(n)
                return n

            def visit_Attribute(self_, n):
                self_.generic_visit(n)
                if isinstance(n.value, ast.Name) and n.value.id in cls_of and isinstance(n.ctx, ast.Load) and n.attr in [f for f, _ in vclasses[cls_of[n.value.id]]]:
                    return ast.copy_location(ast.Name(id=f"{n.value.id}__{n.attr}", ctx=ast.Load()), n)
                return n

        nb = []
        for b in d.body:
            r = S().visit(b)
            nb.extend(r if isinstance(r, list) else [r])
        d.body = nb
        for b in d.body:
            ast.fix_missing_locations(b)
        out.append(f"{d.name}: result object(s) {sorted(cls_of)} replaced by one local per field")
    return out
