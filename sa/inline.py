"""Source-level expansion of calls to helper functions that did not exist when the rules were written.

The rules of sa/rules are intraprocedural wherever the property is about the order / dominance of statements
inside one function (forward_message, read_message, connect_module, run, ...).  "Extract method" is the most
common behaviour-preserving refactor and would hide those statements behind a call.  Before the program is
indexed, every call to a function that is *not* in the vocabulary the rules were written against
(sa/known_functions.json: the functions of the pinned tree) is therefore expanded in place when it can be done
exactly:

    self.helper(a, b)            ->  body of helper, parameters bound, locals renamed
    x = self.helper(a)           ->  body, each `return E` becoming `x = E`
    return self.helper(a)        ->  body (its returns now return from the caller)
    if self.helper(a): ...       ->  tmp = <expansion>; if tmp: ...

Expansion is a semantics-preserving rewrite (call by value with fresh local names; `return` inside the helper is
eliminated by structuring, never by jumps), so it can only make the analysed program *more* explicit; calls that
cannot be expanded exactly (generators, *args, returns inside loops/try for the statement forms, recursion,
dynamic receivers) are left as calls.  On the pinned tree nothing is expanded.
"""
from __future__ import annotations

import ast
import copy
import json
import os
from typing import Dict, List, Optional, Set, Tuple

MAX_DEPTH = 3
MAX_STMTS = 120

_KNOWN: Optional[Dict[str, Set[str]]] = None


def known_functions() -> Dict[str, Set[str]]:
    global _KNOWN
    if _KNOWN is None:
        p = os.path.join(os.path.dirname(os.path.abspath(__file__)), "known_functions.json")
        try:
            _KNOWN = {k: set(v) for k, v in json.load(open(p)).items()}
        except (OSError, ValueError):
            _KNOWN = {}
    return _KNOWN


def _contains(stmts, kinds) -> bool:
    for s in stmts:
        for n in _walk_no_nested(s):
            if isinstance(n, kinds):
                return True
    return False


def _walk_no_nested(node):
    stack = [node]
    first = True
    while stack:
        n = stack.pop()
        yield n
        if not first and isinstance(n, (ast.FunctionDef, ast.AsyncFunctionDef, ast.ClassDef, ast.Lambda)):
            continue
        first = False
        stack.extend(ast.iter_child_nodes(n))


def _returns_only_structured(stmts) -> bool:
    """every Return sits directly in the function body or in (nested) if/else branches - not in loops, try, with, match"""
    for s in stmts:
        if isinstance(s, ast.Return):
            continue
        if isinstance(s, ast.If):
            if not _returns_only_structured(s.body) or not _returns_only_structured(s.orelse):
                return False
            continue
        if _contains([s], ast.Return):
            return False
    return True


def _always_returns(stmts) -> bool:
    if not stmts:
        return False
    s = stmts[-1]
    if isinstance(s, (ast.Return, ast.Raise)):
        return True
    if isinstance(s, ast.If):
        return bool(s.orelse) and _always_returns(s.body) and _always_returns(s.orelse)
    return False


def _pure(e) -> bool:
    if isinstance(e, (ast.Name, ast.Constant)):
        return True
    if isinstance(e, ast.Attribute):
        return _pure(e.value)
    return False


class _Rename(ast.NodeTransformer):
    def __init__(self, rename: Dict[str, str], subst: Dict[str, ast.expr]):
        self.rename, self.subst = rename, subst

    def visit_Name(self, n):
        if n.id in self.subst and isinstance(n.ctx, ast.Load):
            return ast.copy_location(copy.deepcopy(self.subst[n.id]), n)
        if n.id in self.rename:
            return ast.copy_location(ast.Name(id=self.rename[n.id], ctx=n.ctx), n)
        return n

    def visit_ExceptHandler(self, n):
        if n.name and n.name in self.rename:
            n.name = self.rename[n.name]
        self.generic_visit(n)
        return n


class Expander:
    def __init__(self, tree: ast.Module, modname: str, known: Set[str]):
        self.tree, self.modname, self.known = tree, modname, known
        self.funcs: Dict[str, ast.FunctionDef] = {}
        self.classes: Dict[str, Dict[str, ast.FunctionDef]] = {}
        self.bases: Dict[str, List[str]] = {}
        self.count = 0
        self.sites: List[str] = []
        self._n = 0
        for st in tree.body:
            if isinstance(st, ast.FunctionDef):
                self.funcs[st.name] = st
            elif isinstance(st, ast.ClassDef):
                self.classes[st.name] = {m.name: m for m in st.body if isinstance(m, ast.FunctionDef)}
                self.bases[st.name] = [b.id for b in st.bases if isinstance(b, ast.Name)]

    # ---- resolution -------------------------------------------------------------------------------------
    def _method(self, cname: str, mname: str, seen=()) -> Optional[Tuple[ast.FunctionDef, str]]:
        if cname in seen or cname not in self.classes:
            return None
        if mname in self.classes[cname]:
            return self.classes[cname][mname], f"{cname}.{mname}"
        for b in self.bases.get(cname, []):
            r = self._method(b, mname, seen + (cname,))
            if r:
                return r
        return None

    def resolve(self, call: ast.Call, cname: Optional[str]):
        fn = call.func
        if isinstance(fn, ast.Attribute) and isinstance(fn.value, ast.Name):
            if fn.value.id == "self" and cname:
                r = self._method(cname, fn.attr)
                if r:
                    d, q = r
                    return d, q, self._kind(d)
            elif fn.value.id in self.classes:
                r = self._method(fn.value.id, fn.attr)
                if r and self._kind(r[0]) == "static":
                    return r[0], r[1], "static"
        elif isinstance(fn, ast.Name) and fn.id in self.funcs:
            return self.funcs[fn.id], fn.id, "function"
        return None

    @staticmethod
    def _kind(d: ast.FunctionDef) -> str:
        decs = [ast.unparse(x) for x in d.decorator_list]
        if not decs:
            return "method"
        if decs == ["staticmethod"]:
            return "static"
        return "other"

    def eligible(self, d: ast.FunctionDef, qual: str, kind: str, stack: Tuple[str, ...]) -> bool:
        if qual in self.known or qual in stack or len(stack) > MAX_DEPTH:
            return False
        if kind == "other" or (kind == "function" and d.decorator_list):
            return False
        a = d.args
        if a.vararg or a.kwarg:
            return False
        if _contains(d.body, (ast.Yield, ast.YieldFrom, ast.Await, ast.Global, ast.Nonlocal, ast.FunctionDef, ast.AsyncFunctionDef, ast.ClassDef)):
            return False
        if sum(1 for _ in ast.walk(d)) > MAX_STMTS * 12:
            return False
        return True

    # ---- expansion -----------------------------------------------------------------------------------------
    def bind(self, d: ast.FunctionDef, call: ast.Call, kind: str):
        a = d.args
        params = [x.arg for x in a.posonlyargs + a.args]
        anns = {x.arg: x.annotation for x in a.posonlyargs + a.args + a.kwonlyargs}
        actual: Dict[str, ast.expr] = {}
        if kind == "method":
            if not params:
                return None
            actual[params[0]] = ast.Name(id="self", ctx=ast.Load())
            params = params[1:]
        if any(isinstance(x, ast.Starred) for x in call.args) or any(k.arg is None for k in call.keywords):
            return None
        if len(call.args) > len(params):
            return None
        for p, v in zip(params, call.args):
            actual[p] = v
        kwonly = [x.arg for x in a.kwonlyargs]
        for k in call.keywords:
            if k.arg in actual or k.arg not in params + kwonly:
                return None
            actual[k.arg] = k.value
        allp = [x.arg for x in a.posonlyargs + a.args]
        defaults = dict(zip(allp[len(allp) - len(a.defaults):], a.defaults))
        for x, dv in zip(a.kwonlyargs, a.kw_defaults):
            if dv is not None:
                defaults[x.arg] = dv
        for p in params + kwonly:
            if p not in actual:
                if p not in defaults:
                    return None
                actual[p] = defaults[p]
        return actual, anns

    def expand(self, call: ast.Call, d: ast.FunctionDef, qual: str, kind: str, mode: str, target, cname, stack) -> Optional[List[ast.stmt]]:
        b = self.bind(d, call, kind)
        if b is None:
            return None
        actual, anns = b
        body = copy.deepcopy(d.body)
        if body and isinstance(body[0], ast.Expr) and isinstance(body[0].value, ast.Constant) and isinstance(body[0].value.value, str):
            body = body[1:]
        if mode != "return" and not _returns_only_structured(body):
            return None
        self._n += 1
        suf = f"__{d.name.strip('_')}{self._n}"
        stored: Set[str] = set()
        for s in body:
            for n in _walk_no_nested(s):
                if isinstance(n, ast.Name) and isinstance(n.ctx, (ast.Store, ast.Del)):
                    stored.add(n.id)
                elif isinstance(n, ast.ExceptHandler) and n.name:
                    stored.add(n.name)
        rename, subst, pre = {}, {}, []
        for p, v in actual.items():
            if p not in stored and _pure(v):
                subst[p] = v
            else:
                rename[p] = p + suf
                tgt = ast.Name(id=p + suf, ctx=ast.Store())
                if anns.get(p) is not None:
                    pre.append(ast.AnnAssign(target=tgt, annotation=copy.deepcopy(anns[p]), value=copy.deepcopy(v), simple=1))
                else:
                    pre.append(ast.Assign(targets=[tgt], value=copy.deepcopy(v)))
        for n in stored:
            if n not in rename:
                rename[n] = n + suf
        rn = _Rename(rename, subst)
        body = [rn.visit(s) for s in body]
        if mode == "return":
            if not _always_returns(body):
                body = body + [ast.Return(value=ast.Constant(value=None))]
        else:
            if mode == "assign" and not _always_returns(body):
                body = body + [ast.Return(value=ast.Constant(value=None))]
            body = self._structure(body, [], mode, target)
        out = pre + body
        if not out:
            out = [ast.Pass()]
        for s in out:
            for n in ast.walk(s):
                if not hasattr(n, "lineno") and isinstance(n, (ast.stmt, ast.expr)):
                    ast.copy_location(n, call)
            ast.fix_missing_locations(s)
        self.count += 1
        self.sites.append(f"{'.'.join(stack[-1:])} <- {qual}")
        return self.block(out, cname, stack + (qual,))

    def _effect(self, v, mode, target) -> List[ast.stmt]:
        if mode == "assign":
            return [ast.Assign(targets=[copy.deepcopy(target)], value=v if v is not None else ast.Constant(value=None))]
        if v is None or _pure(v):
            return []
        return [ast.Expr(value=v)]

    def _structure(self, stmts, cont, mode, target) -> List[ast.stmt]:
        if not stmts:
            return copy.deepcopy(cont)
        s, rest = stmts[0], stmts[1:]
        if isinstance(s, ast.Return):
            return self._effect(s.value, mode, target)
        if isinstance(s, ast.If) and _contains([s], ast.Return):
            after = self._structure(rest, cont, mode, target)
            body = self._structure(s.body, after, mode, target) or [ast.Pass()]
            orelse = self._structure(s.orelse, after, mode, target)
            return [ast.copy_location(ast.If(test=s.test, body=body, orelse=orelse), s)]
        return [s] + self._structure(rest, cont, mode, target)

    # ---- traversal ----------------------------------------------------------------------------------------------
    def _try(self, s: ast.stmt, cname, stack) -> Optional[List[ast.stmt]]:
        def res(c):
            if not isinstance(c, ast.Call):
                return None
            r = self.resolve(c, cname)
            if r is None:
                return None
            d, q, kind = r
            return (d, q, kind) if self.eligible(d, q, kind, stack) else None

        if isinstance(s, ast.Expr):
            r = res(s.value)
            if r:
                return self.expand(s.value, r[0], r[1], r[2], "stmt", None, cname, stack)
        elif isinstance(s, ast.Return) and s.value is not None:
            r = res(s.value)
            if r:
                return self.expand(s.value, r[0], r[1], r[2], "return", None, cname, stack)
        elif isinstance(s, ast.Assign) and len(s.targets) == 1:
            r = res(s.value)
            if r and (_pure(s.targets[0]) or (isinstance(s.targets[0], ast.Tuple) and all(isinstance(e, ast.Name) for e in s.targets[0].elts))):
                return self.expand(s.value, r[0], r[1], r[2], "assign", s.targets[0], cname, stack)
        elif isinstance(s, ast.AnnAssign) and s.value is not None and isinstance(s.target, ast.Name):
            r = res(s.value)
            if r:
                return self.expand(s.value, r[0], r[1], r[2], "assign", ast.Name(id=s.target.id, ctx=ast.Store()), cname, stack)
        elif isinstance(s, ast.If):
            t = s.test
            neg = isinstance(t, ast.UnaryOp) and isinstance(t.op, ast.Not)
            c = t.operand if neg else t
            r = res(c)
            if r:
                self._n += 1
                tmp = f"_inl_{r[0].name.strip('_')}{self._n}"
                ex = self.expand(c, r[0], r[1], r[2], "assign", ast.Name(id=tmp, ctx=ast.Store()), cname, stack)
                if ex is not None:
                    nt = ast.Name(id=tmp, ctx=ast.Load())
                    s.test = ast.copy_location(ast.UnaryOp(op=ast.Not(), operand=nt) if neg else nt, t)
                    ast.fix_missing_locations(s)
                    s.body = self.block(s.body, cname, stack)
                    s.orelse = self.block(s.orelse, cname, stack)
                    return ex + [s]
        return None

    def block(self, stmts: List[ast.stmt], cname, stack) -> List[ast.stmt]:
        out: List[ast.stmt] = []
        for s in stmts:
            r = self._try(s, cname, stack)
            if r is not None:
                out.extend(r)
                continue
            if isinstance(s, (ast.FunctionDef, ast.AsyncFunctionDef, ast.ClassDef)):
                out.append(s)
                continue
            for fld in ("body", "orelse", "finalbody"):
                v = getattr(s, fld, None)
                if isinstance(v, list) and v and isinstance(v[0], ast.stmt):
                    setattr(s, fld, self.block(v, cname, stack))
            if isinstance(s, ast.Try):
                for h in s.handlers:
                    h.body = self.block(h.body, cname, stack)
            if hasattr(ast, "Match") and isinstance(s, getattr(ast, "Match")):
                for c in s.cases:
                    c.body = self.block(c.body, cname, stack)
            out.append(s)
        return out

    def run(self):
        # expand into copies first so that a helper inlined into two callers is always taken in its original form
        originals = {id(d): copy.deepcopy(d) for d in list(self.funcs.values()) + [m for c in self.classes.values() for m in c.values()]}
        todo: List[Tuple[ast.FunctionDef, Optional[str], str]] = [(d, None, n) for n, d in self.funcs.items()]
        for cn, ms in self.classes.items():
            todo += [(d, cn, f"{cn}.{mn}") for mn, d in ms.items()]
        # resolution must see the untouched definitions
        self.funcs = {n: originals[id(d)] for n, d in self.funcs.items()}
        self.classes = {cn: {mn: originals[id(d)] for mn, d in ms.items()} for cn, ms in self.classes.items()}
        for d, cn, q in todo:
            d.body = self.block(d.body, cn, (q,))
        return self.count


def expand_module(tree: ast.Module, modname: str) -> Tuple[int, List[str]]:
    kf = known_functions()
    if not kf:
        return 0, []  # no vocabulary available: expanding everything would change what the rules were written against
    # a module the rules never saw has no anchors: all of its helpers may be expanded
    known = kf.get(modname, set())
    ex = Expander(tree, modname, known)
    n = ex.run()
    return n, ex.sites
