"""Flow-insensitive def-use helpers: definitions of a local, and the backward
"source closure" of an expression through container plumbing (list / chain /
index / iteration / copies)."""
from __future__ import annotations

import ast
from typing import Dict, List, Optional, Set, Tuple

from .program import FuncInfo, walk_local, unparse, norm
from .util import path_of

PLUMBING_CALLS = {"list", "tuple", "set", "frozenset", "sorted", "reversed", "iter", "chain", "enumerate", "zip", "copy", "deepcopy", "filter"}


def definitions(f: ast.FunctionDef, name: str) -> List[Tuple[str, ast.AST]]:
    """[(kind, rhs)] for every definition of local `name`: kind in assign / iter / param / with / unpack / aug."""
    out: List[Tuple[str, ast.AST]] = []
    a = f.args
    for x in a.posonlyargs + a.args + a.kwonlyargs:
        if x.arg == name:
            out.append(("param", x))
    for n in walk_local(f):
        if isinstance(n, ast.Assign):
            for t in n.targets:
                _match(t, name, n.value, "assign", out)
        elif isinstance(n, ast.AnnAssign) and n.value is not None:
            _match(n.target, name, n.value, "assign", out)
        elif isinstance(n, ast.AugAssign):
            _match(n.target, name, n.value, "aug", out)
        elif isinstance(n, (ast.For, ast.AsyncFor)):
            _match(n.target, name, n.iter, "iter", out)
        elif isinstance(n, ast.comprehension):
            _match(n.target, name, n.iter, "iter", out)
        elif isinstance(n, (ast.With, ast.AsyncWith)):
            for it in n.items:
                if it.optional_vars is not None:
                    _match(it.optional_vars, name, it.context_expr, "with", out)
        elif isinstance(n, ast.NamedExpr):
            _match(n.target, name, n.value, "assign", out)
    return out


def _match(target, name, value, kind, out):
    if isinstance(target, ast.Name):
        if target.id == name:
            out.append((kind, value))
    elif isinstance(target, (ast.Tuple, ast.List)):
        for i, x in enumerate(target.elts):
            if isinstance(x, ast.Starred):
                x = x.value
            if isinstance(x, ast.Name) and x.id == name:
                if kind == "assign" and isinstance(value, (ast.Tuple, ast.List)) and len(value.elts) == len(target.elts):
                    out.append((kind, value.elts[i]))
                else:
                    out.append(("unpack:" + kind + f":{i}", value))
            elif isinstance(x, (ast.Tuple, ast.List)):
                _match(x, name, value, "unpack:" + kind + f":{i}", out)


def source_closure(f: ast.FunctionDef, e: ast.AST, depth: int = 0, seen: Optional[Set[str]] = None) -> Set[str]:
    """Leaves (normalised text) an element of `e` can come from, looking through
    local copies, list()/chain()/sorted()/enumerate()..., indexing and iteration.
    A leaf is an attribute path, a subscript of an attribute path (`self.d[k]`),
    a parameter (`param:x`), a call (`call:f(...)`) or other text."""
    seen = set() if seen is None else seen
    if depth > 12:
        return {"deep:" + norm(e)}
    if isinstance(e, ast.Name):
        if e.id in seen:
            return set()
        seen = seen | {e.id}
        defs = definitions(f, e.id)
        if not defs:
            return {"free:" + e.id}
        out: Set[str] = set()
        for kind, rhs in defs:
            if kind == "param":
                out.add("param:" + e.id)
            elif kind.startswith("unpack"):
                # element of an iterated tuple stream: look through enumerate/zip/items
                out |= source_closure(f, rhs, depth + 1, seen)
            else:
                out |= source_closure(f, rhs, depth + 1, seen)
        return out
    if isinstance(e, ast.Subscript):
        base = e.value
        if isinstance(base, ast.Name):
            return source_closure(f, base, depth + 1, seen)
        if isinstance(e.slice, ast.Slice):
            return source_closure(f, base, depth + 1, seen)
        p = path_of(base)
        if p is not None:
            return {f"{p}[{norm(e.slice)}]"}
        return source_closure(f, base, depth + 1, seen)
    if isinstance(e, ast.Call):
        fn = e.func
        nm = fn.id if isinstance(fn, ast.Name) else (fn.attr if isinstance(fn, ast.Attribute) else "")
        if isinstance(fn, ast.Name) and nm in PLUMBING_CALLS:
            out = set()
            for a in e.args:
                if isinstance(a, ast.Starred):
                    a = a.value
                out |= source_closure(f, a, depth + 1, seen)
            return out
        if isinstance(fn, ast.Attribute) and nm in ("values", "keys", "items", "copy", "union", "get"):
            return source_closure(f, fn.value, depth + 1, seen) | ({"method:" + nm} if nm in ("union",) else set())
        if isinstance(fn, ast.Attribute) and nm in ("chain", "from_iterable"):
            out = set()
            for a in e.args:
                out |= source_closure(f, a, depth + 1, seen)
            return out
        return {"call:" + norm(e)}
    if isinstance(e, ast.Attribute):
        p = path_of(e)
        return {p if p is not None else "expr:" + norm(e)}
    if isinstance(e, (ast.List, ast.Tuple, ast.Set)):
        out = set()
        for x in e.elts:
            out |= source_closure(f, x, depth + 1, seen)
        return out or {"empty"}
    if isinstance(e, ast.BinOp) and isinstance(e.op, (ast.Add, ast.BitOr)):
        return source_closure(f, e.left, depth + 1, seen) | source_closure(f, e.right, depth + 1, seen)
    if isinstance(e, (ast.ListComp, ast.SetComp, ast.GeneratorExp)):
        out = source_closure(f, e.elt, depth + 1, seen)
        return out
    if isinstance(e, ast.IfExp):
        return source_closure(f, e.body, depth + 1, seen) | source_closure(f, e.orelse, depth + 1, seen)
    if isinstance(e, ast.Starred):
        return source_closure(f, e.value, depth + 1, seen)
    return {"expr:" + norm(e)}
