"""C01 - pub/sub routing is exact (DESIGN §2 C01): the routing decision structure."""
from __future__ import annotations

import ast

from .. import callgraph, cfg as C, dataflow, flow, guards
from ..program import AnalysisError, Program, norm, walk_local, ancestors
from ..report import Check
from ..types import Types
from ..util import calls_in, fkey, is_method_call, node_calls, path_of, recv_of, where
from .mgr import module_writers, comprehension_facts, MGR, CORE, Dispatch, const_resolver, self_call

CONTROL_TYPES = {"MT_CONNECT", "MT_CONNECT_V2", "MT_DISCONNECT", "MT_SUBSCRIBE", "MT_UNSUBSCRIBE", "MT_PAUSE_SUBSCRIPTION",
                 "MT_RESUME_SUBSCRIPTION", "MT_CLIENT_SET_NAME", "MT_MODULE_READY"}


def recipient_sends(prog, ty, f):
    """(cfg node, call, receiver name) for every `<Module>.send_message(...)` in f."""
    mc = prog.cls(MGR, "Module")
    g = C.build(f.node)
    out = []
    for n in g.nodes:
        for c in node_calls(n):
            if is_method_call(c, module_writers(prog)):
                t = ty.expr(f, recv_of(c))
                if t.kind == "cls" and t.cls is mc:
                    out.append((n, c, path_of(recv_of(c))))
    return g, out


def header_stores(f_node: ast.FunctionDef, pname: str):
    """Stores into attributes / items of parameter `pname` (incl. setattr) in a function body."""
    out = []
    for n in walk_local(f_node):
        tg = []
        if isinstance(n, ast.Assign):
            tg = n.targets
        elif isinstance(n, (ast.AugAssign, ast.AnnAssign)):
            tg = [n.target]
        elif isinstance(n, ast.Delete):
            tg = n.targets
        for t in tg:
            for x in (t.elts if isinstance(t, (ast.Tuple, ast.List)) else [t]):
                base = x
                while isinstance(base, (ast.Attribute, ast.Subscript)):
                    base = base.value
                if isinstance(x, (ast.Attribute, ast.Subscript)) and isinstance(base, ast.Name) and base.id == pname:
                    out.append((n, x.attr if isinstance(x, ast.Attribute) else "[]"))
        if isinstance(n, ast.Call) and isinstance(n.func, ast.Name) and n.func.id in ("setattr", "delattr") and n.args and path_of(n.args[0]) == pname:
            out.append((n, "setattr"))
        if isinstance(n, ast.Call) and isinstance(n.func, ast.Attribute) and n.func.attr in ("memmove", "memset") and n.args and path_of(n.args[0]) == pname:
            out.append((n, "memmove"))
    return out


def run(prog: Program, chk: Check):
    ty = Types(prog)
    cg = callgraph.get(prog)
    chk.explanation = (
        "C01 decided as the routing decision structure of MessageManager.forward_message / process_message: recipients come only from "
        "subscriptions[type] and subscriptions[ALL]; every send is dominated by the destination filter and by both range gates; the "
        "fall-through dispatch branch forwards the received header and buffer slice; nothing on the path to the wire stores into the "
        "header except msg_count; at most one send per recipient iteration. Not decided: delivery over all histories / service orders / "
        "payload sizes (runtime values)."
    )
    chk.assumptions += ["a module is never in subscriptions[t] and subscriptions[ALL] at once (C02 invariant I3)",
                        "select() readiness (wlist) is an OS fact"]
    fm = prog.func(MGR, "MessageManager.forward_message")
    pm = prog.func(MGR, "MessageManager.process_message")
    g, sends = recipient_sends(prog, ty, fm)
    if len(sends) < 1:
        raise AnalysisError("anchor vanished: no Module.send_message call in forward_message")
    params = fm.params()
    hdr_p = next((p for p in params if ty.locals_of(fm).get(p) is not None and ty.locals_of(fm)[p].kind == "cls"
                  and "MessageHeader" in prog.base_names(ty.locals_of(fm)[p].cls)), None)
    if hdr_p is None:
        raise AnalysisError("anchor vanished: forward_message has no MessageHeader parameter")
    data_p = params[params.index(hdr_p) + 1] if params.index(hdr_p) + 1 < len(params) else None
    res = const_resolver(prog, fm.module)
    consts = prog.module_constants(CORE)
    ALL = consts.get("ALL_MESSAGE_TYPES")
    cm = guards.copy_map(fm.node)
    gs = flow.guard_states(g)

    # ---- R1 recipient source ---------------------------------------------------------------
    R1 = chk.rule("C01-R1", "recipients come exactly from subscriptions[header.msg_type] and subscriptions[ALL_MESSAGE_TYPES]", 1,
                  "recipients == subscribers(type) U subscribers(all); any other source adds non-subscribers, a missing one loses subscribers")
    for n, c, rv in sends:
        leaves = dataflow.source_closure(fm.node, recv_of(c))
        canon = set()
        for lf in leaves:
            if lf.startswith("self.subscriptions[") and lf.endswith("]"):
                k = guards.parse(lf[len("self.subscriptions["):-1])
                k = guards.fold_consts(guards.subst(k, cm), res)
                kt = norm(k)
                if kt == f"{hdr_p}.msg_type":
                    canon.add("TYPE")
                elif isinstance(k, ast.Constant) and k.value == ALL:
                    canon.add("ALL")
                else:
                    canon.add(lf)
            else:
                canon.add(lf)
        R1.decide(canon == {"TYPE", "ALL"}, fkey(fm, c), where(fm, c), f"recipient `{rv}` drawn from subscriptions[type] ++ subscriptions[ALL]",
                  f"recipient `{rv}` drawn from {sorted(canon)} (expected exactly subscriptions[{hdr_p}.msg_type] and subscriptions[ALL_MESSAGE_TYPES])")

    # the collection may be re-ordered, copied or extended on the way to the loop, but narrowed only by the destination filter
    # itself: whoever a narrowing leaves out must be ineligible for this message (or no longer connected)
    rvars = sorted({t.id for a in walk_local(fm.node) if isinstance(a, ast.Assign) for t in a.targets if isinstance(t, ast.Name)
                    and any(lf.startswith("self.subscriptions[") for lf in dataflow.source_closure(fm.node, ast.Name(id=t.id, ctx=ast.Load())))})
    nnar = 0
    for a in walk_local(fm.node):
        what = None
        if isinstance(a, ast.Assign) and any(isinstance(t, ast.Name) and t.id in rvars for t in a.targets):
            v = a.value
            while isinstance(v, ast.Call) and isinstance(v.func, ast.Name) and v.func.id in ("list", "tuple", "set", "sorted", "frozenset") and len(v.args) == 1:
                v = v.args[0]
            if isinstance(v, (ast.ListComp, ast.SetComp, ast.GeneratorExp)) and any(gen.ifs for gen in v.generators):
                gen = v.generators[0]
                if len(v.generators) != 1 or not isinstance(gen.target, ast.Name) or norm(v.elt) != gen.target.id:
                    what = "comprehension too involved to decide whom it leaves out"
                else:
                    m = gen.target.id
                    cond = gen.ifs[0] if len(gen.ifs) == 1 else ast.BoolOp(op=ast.And(), values=list(gen.ifs))
                    node = next((x for x in g.nodes if x.ast is a), None)
                    goal = guards.parse(f"not ({hdr_p}.dest_mod_id == 0 or {m}.mod_id == {hdr_p}.dest_mod_id or {m}.is_logger) or {m}.conn not in self.modules")
                    paths = [[(guards.fold_consts(guards.subst(e, cm), res), pol) for e, pol in p] + [(guards.fold_consts(guards.subst(cond, cm), res), False)] for p in (gs.at(node) if node is not None else [[]])]
                    bad = guards.any_path_implies(paths, goal)
                    nnar += 1
                    R1.decide(not bad, fkey(fm, a), where(fm, a), "the narrowing leaves out only subscribers the destination filter excludes anyway",
                              f"`{norm(a)[:90]}` leaves out subscribers that the destination filter would accept: "
                              + (", ".join(("" if pol else "not ") + norm(e) for e, pol in paths[bad[0]]) if bad else ""))
                    continue
            elif isinstance(v, ast.Subscript) and isinstance(v.slice, ast.Slice) and isinstance(v.value, ast.Name) and v.value.id in rvars:
                what = "keeps a positional slice of the subscribers"
            elif isinstance(v, ast.Call) and isinstance(v.func, ast.Name) and v.func.id in ("filter", "next"):
                what = f"narrows the subscribers through {v.func.id}()"
        elif isinstance(a, ast.Call) and isinstance(a.func, ast.Attribute) and a.func.attr in ("remove", "pop", "discard", "clear", "difference_update", "intersection_update") and isinstance(a.func.value, ast.Name) and a.func.value.id in rvars:
            what = f"removes entries from the subscriber collection ({a.func.attr})"
        elif isinstance(a, ast.Delete) and any(isinstance(t, ast.Subscript) and isinstance(t.value, ast.Name) and t.value.id in rvars for t in a.targets):
            what = "deletes entries of the subscriber collection"
        if what:
            nnar += 1
            R1.bad(fkey(fm, a), where(fm, a), f"`{norm(a)[:90]}` {what}: subscribers of the type can be left out of the delivery")
    chk.units["recipient_collections"] = rvars
    chk.units["recipient_narrowings"] = nnar

    # ---- R2 destination filter -----------------------------------------------------------------
    R2 = chk.rule("C01-R2", "every send is dominated by dest_mod_id == 0 or module.mod_id == dest_mod_id or module.is_logger", 1,
                  "otherwise an addressed message reaches modules other than the addressee and the loggers")
    for n, c, rv in sends:
        goal = guards.parse(f"{hdr_p}.dest_mod_id == 0 or {rv}.mod_id == {hdr_p}.dest_mod_id or {rv}.is_logger")
        paths = [[(guards.fold_consts(guards.subst(e, cm), res), pol) for e, pol in list(p) + comprehension_facts(fm.node, rv)] for p in gs.at(n)]
        bad = guards.any_path_implies(paths, goal)
        R2.decide(not bad, fkey(fm, c), where(fm, c), "destination filter dominates the send",
                  f"a path reaches `{norm(c)}` without the destination filter: guards on that path = "
                  + (", ".join(("" if pol else "not ") + norm(e) for e, pol in paths[bad[0]]) if bad else ""))

    # ---- R3 range gates ---------------------------------------------------------------------------
    R3 = chk.rule("C01-R3", "every send (and failure notice) is dominated by both destination range tests", 4,
                  "a message with an out-of-range destination must be delivered to nobody")
    gates = {"dest_mod_id": consts.get("MAX_MODULES"), "dest_host_id": consts.get("MAX_HOSTS")}
    targets = [(n, c) for n, c, _ in sends]
    for n in g.nodes:
        for c in node_calls(n):
            if self_call("send_failed_message")(c):
                targets.append((n, c))
    for n, c in targets:
        paths = [[(guards.fold_consts(guards.subst(e, cm), res), pol) for e, pol in p] for p in gs.at(n)]
        for fld, mx in gates.items():
            goal = guards.parse(f"not ({hdr_p}.{fld} < 0) and not ({hdr_p}.{fld} > {mx})")
            with guards.int_theory():
                bad = guards.any_path_implies(paths, goal)
            R3.decide(not bad, fkey(fm, f"{fld}:{norm(c)}"), where(fm, c), f"0 <= {fld} <= {mx} established before the send",
                      f"`{norm(c)}` reachable without the range test 0 <= {hdr_p}.{fld} <= {mx}")

    # ---- R4 pass-through -----------------------------------------------------------------------------
    R4 = chk.rule("C01-R4", "the fall-through branch forwards the received header + buffer slice; nothing stores into the header but msg_count", 4,
                  "type, source, destination and payload bytes must arrive unchanged")
    d = Dispatch(prog, pm)
    fwd_nodes = d.call_nodes(self_call("forward_message"), under=None)
    pcm = guards.copy_map(pm.node)
    if not fwd_nodes:
        R4.bad(fkey(pm, "fallthrough-forward"), where(pm), "the fall-through branch of process_message does not call forward_message")
    for n in fwd_nodes:
        for c in node_calls(n):
            if self_call("forward_message")(c):
                b = callgraph.bind_args(fm, c, bound_method=True)
                srcp = next((q for q in params if ty.locals_of(fm).get(q) is not None and ty.locals_of(fm)[q].is_cls("Module")), None)
                src_ok = srcp is not None and b.get(srcp) is not None and path_of(b.get(srcp)) in pm.params()
                h = b.get(hdr_p)
                h_res = norm(guards.subst(h, pcm)) if h is not None else None
                R4.decide(h_res == "self.header", fkey(pm, "forwards-received-header"), where(pm, c), "forwards the received header object",
                          f"forward_message called with header `{norm(h) if h is not None else None}` (= {h_res}), not the received header")
                R4.decide(src_ok, fkey(pm, "forwards-with-source-module"), where(pm, c), "passes the source module",
                          "forward_message is not given the source module parameter")
    # header property must be a view of the receive buffer
    hp = prog.func(MGR, "MessageManager.header")
    rets = [n for n in walk_local(hp.node) if isinstance(n, ast.Return)]
    okv = len(rets) == 1 and isinstance(rets[0].value, ast.Call) and is_method_call(rets[0].value, "from_buffer") and \
        path_of(rets[0].value.args[0]) in ("self.header_view", "self.header_buffer")
    R4.decide(okv, fkey(hp, "header-is-buffer-view"), where(hp), "self.header is a from_buffer view of the header receive buffer",
              "MessageManager.header no longer returns header_cls.from_buffer(<header buffer>)")
    # stores into the header / payload on the way to the wire
    sm = prog.func(MGR, "Module.send_message")
    checked = set()

    def scan(f, pname, role, depth=0):
        if (f.key, pname) in checked or depth > 4:
            return
        checked.add((f.key, pname))
        allowed = {"msg_count"} if role == "header" else set()
        st = header_stores(f.node, pname)
        for node, attr in st:
            R4.decide(attr in allowed, fkey(f, node), where(f, node), f"store to {role}.{attr} is the sequence stamp",
                      f"{f.qual} modifies the forwarded {role}: {norm(node)}")
        if not st:
            R4.ok(fkey(f, f"no-store:{role}"), where(f), f"no store into the {role} parameter `{pname}`")
        for c in calls_in(f.node):
            st_, fi, _ = ty.callee(f, c)
            if fi is None:
                continue
            b = callgraph.bind_args(fi, c, bound_method=isinstance(c.func, ast.Attribute))
            for q, actual in b.items():
                if path_of(actual) == pname and fi.key != f.key:
                    scan(fi, q, role, depth + 1)

    scan(fm, hdr_p, "header")
    if data_p:
        scan(fm, data_p, "payload")
    # process_message itself must not store into the received header before forwarding
    for hv in [k for k, v in pcm.items() if norm(v) == "self.header"] + ["self.header"]:
        for node, attr in header_stores(pm.node, hv.split(".")[0]) if "." not in hv else []:
            R4.bad(fkey(pm, node), where(pm, node), f"process_message modifies the received header: {norm(node)}")

    # ---- R5 dispatch exhaustiveness ---------------------------------------------------------------------
    R5 = chk.rule("C01-R5", "only the control types are consumed; every other type reaches forward_message exactly once", 2,
                  "a swallowed type is delivered to nobody")
    fol = d.follow_under(None)
    isf = lambda n: any(self_call("forward_message")(c) for c in node_calls(n))
    lo, hi = flow.count_on_paths(d.g, isf, [d.g.entry.id], [d.g.exit.id], follow=fol)
    R5.decide((lo, hi) == (1, 1), fkey(pm, "other-types-forwarded-once"), where(pm), "non-control types: exactly one forward_message on every path",
              f"non-control types: forward_message calls per path in [{lo}, {hi}], expected exactly 1")
    for t in sorted(d.types):
        if t in CONTROL_TYPES:
            R5.ok(fkey(pm, f"control:{t}"), where(pm), f"{t} is a manager control type")
            continue
        lo, hi = flow.count_on_paths(d.g, isf, [d.g.entry.id], [d.g.exit.id], follow=d.follow_under(t))
        R5.decide((lo, hi) == (1, 1), fkey(pm, f"dispatched:{t}"), where(pm), f"{t} is still forwarded",
                  f"process_message consumes {t} (not a control type) without forwarding it on every path ([{lo}, {hi}] forwards)")
    # the service loop hands every completely read frame to process_message
    runf = prog.func(MGR, "MessageManager.run")
    rg = C.build(runf.node)
    rcm = guards.copy_map(runf.node)
    pmn = [n for n in rg.nodes if any(self_call("process_message")(c) for c in node_calls(n))]
    rdn = [n for n in rg.nodes if any(self_call("read_message")(c) for c in node_calls(n))]
    run_focus = [n.ast for n in pmn + rdn if n.ast is not None]
    rgs = flow.guard_states(rg, focus=run_focus)
    okrun = len(pmn) == 1 and len(rdn) == 1
    if okrun:
        rcall = [c for c in node_calls(rdn[0]) if self_call("read_message")(c)][0]
        # the read's result: a local it is assigned to, or the call expression itself when it is tested in place
        if rdn[0].kind == "stmt" and isinstance(rdn[0].ast, ast.Assign) and rdn[0].ast.value is rcall:
            atom = path_of(rdn[0].ast.targets[0])
        else:
            atom = norm(rcall)
        # when the read is tested in place (`if src and self.read_message(s):`) it is evaluated only under its left context
        ctx = ["(" + norm(x) + ")" for x, pol in rgs.at_expr(rdn[0], rcall)[0][len(rgs.at(rdn[0])[0]):] if pol] if rgs.at(rdn[0]) else []
        # (1) process_message only for a completely read frame
        facts_ok = atom is not None and not guards.any_path_implies(rgs.at(pmn[0]), guards.parse(atom))
        # (2) every completely read frame is processed: a way from the read to the next iteration / the exit that skips
        #     process_message is taken only when the read returned falsy
        pm_ids = {pmn[0].id}
        gsk = flow.guard_states(rg, edge_filter=lambda e: not (e.src in pm_ids and e.kind != "exc"), focus=run_focus)
        lp = next((a for a in ancestors(rcall) if isinstance(a, (ast.For, ast.While))), None)
        skipped_ok = lp is not None
        if lp is not None:
            head = next(n for n in rg.nodes if n.kind in ("for", "test") and (n.ast is lp or n.ast is getattr(lp, "test", None)))
            body_ids = {n.id for n in rg.nodes if n.ast is not None and any(a is lp for a in ancestors(n.ast))}
            after_read = flow.reach(rg, [rdn[0].id], blocked={head.id}, follow=lambda e: e.kind != "exc" and e.src not in pm_ids) - {head.id}
            for e in rg.pred[head.id]:
                if e.src not in body_ids or e.src not in after_read or e.kind == "exc" or e.src in pm_ids:
                    continue
                for p_ in gsk.after_edge(e):
                    if guards.any_path_implies([p_], guards.parse(f"not ({' and '.join(ctx + [atom])})")):
                        skipped_ok = False
        okrun = facts_ok and skipped_ok
    R5.decide(okrun, fkey(runf, "process-every-read-frame"), where(runf), "run(): process_message(src) is called iff read_message returned truthy",
              "run() no longer calls process_message exactly under the result of read_message")

    # ---- R6 at most one send per recipient iteration -------------------------------------------------------
    R6 = chk.rule("C01-R6", "Module.send_message is called at most once per iteration of the recipient loop", 1,
                  "a second send in one iteration duplicates the message at that recipient")
    loops = {}
    for n, c, rv in sends:
        lp = next((a for a in ancestors(c) if isinstance(a, (ast.For, ast.While))), None)
        if lp is None:
            R6.bad(fkey(fm, c), where(fm, c), "recipient send is not inside a loop over the recipients")
            continue
        loops[id(lp)] = lp
    for lp in loops.values():
        head = [n for n in g.nodes if n.kind in ("for", "test") and (n.ast is lp or n.ast is getattr(lp, "test", None))]
        if not head:
            continue
        h = head[0]
        starts = [e.dst for e in g.succ[h.id] if e.kind in ("iter", "true")]
        send_ids = {n.id for n, _, _ in sends}
        lo, hi = flow.count_on_paths(g, send_ids, starts, [h.id], follow=lambda e: e.src != h.id)
        R6.decide(hi <= 1, fkey(fm, f"loop:{norm(lp.iter) if isinstance(lp, ast.For) else norm(lp.test)}"), where(fm, lp),
                  f"at most one send per iteration (min {lo}, max {hi})", f"up to {hi} sends to the same recipient in one iteration")
    # the chained recipient list has no duplicate: under ARBITRARY control frames a module is never registered for a
    # type and for ALL at once (manager-only exploration shared with C02-M)
    from .c02 import manager_closure

    closure_error = None
    try:
        ns, nt, mviol = manager_closure(prog)
    except AnalysisError as e_:
        # the handlers left the interpreter's vocabulary: this must not hide what the structural rules below establish
        closure_error = str(e_)
        chk.defer_error(f"C01-R6/R9 could not interpret the subscription handlers: {e_}")
        ns, nt, mviol = 0, 0, []
    dbl = [v for v in mviol if v[0] == "double"]
    R6.decide(not dbl, f"{MGR}::MessageManager|no-double-registration", where(prog.func(MGR, "MessageManager.add_subscription")),
              f"{ns} manager states x every control frame: never registered for ALL and an individual type at once",
              "a module can be registered for ALL_MESSAGE_TYPES and an individual type at once (duplicate delivery): " + (dbl[0][2] if dbl else ""))

    # ---- R9 who is "subscribed at that moment": the routing table follows the control frames ------------------------------
    R9 = chk.rule("C01-R9", "after every SUBSCRIBE / UNSUBSCRIBE / PAUSE / RESUME frame the subscription table holds exactly what the frame asked for", 1,
                  "a module registered under another type than it asked for receives messages it did not subscribe to and misses the ones it did")
    rt = [v for v in mviol if v[0] == "route"]
    R9.decide(not rt, f"{MGR}::MessageManager|table-follows-frames", where(prog.func(MGR, "MessageManager.add_subscription")),
              f"{ns} manager states x every control frame ({nt} transitions): registered set afterwards = what the frame asked for",
              "the subscription table does not follow the control frames: " + (f"{rt[0][1]}: {rt[0][2]}" if rt else ""))

    # ---- R10 the subscription table is written by the subscription handlers and remove_module only -----------------------
    # (also through a local that names one of its entries: `subs = self.subscriptions[t]; subs |= self.subscriptions[ALL]` copies the
    # subscribe-to-all modules into the type's own set for good - they keep receiving the type after UNSUBSCRIBE / PAUSE of ALL)
    R10 = chk.rule("C01-R10", "only add_subscription / remove_subscription / remove_module change self.subscriptions or one of its entries (aliases included)", 1,
                   "a delivery path that edits a subscriber set changes who is subscribed without any control frame")
    SETMUT = {"add", "discard", "remove", "update", "clear", "pop", "difference_update", "intersection_update", "symmetric_difference_update", "__ior__", "__iand__", "__isub__"}
    writers_ok = {"add_subscription", "remove_subscription", "remove_module", "__init__"}
    nentry = 0
    for f in prog.cls(MGR, "MessageManager").methods.values():
        entry_alias = set()
        for n in walk_local(f.node):
            if isinstance(n, ast.Assign) and len(n.targets) == 1 and isinstance(n.targets[0], ast.Name):
                v = n.value
                if (isinstance(v, ast.Subscript) and path_of(v.value) == "self.subscriptions") or \
                        (isinstance(v, ast.Call) and isinstance(v.func, ast.Attribute) and v.func.attr in ("get", "setdefault") and path_of(v.func.value) == "self.subscriptions"):
                    entry_alias.add(n.targets[0].id)

        def is_entry(e):
            return (isinstance(e, ast.Subscript) and path_of(e.value) == "self.subscriptions") or (isinstance(e, ast.Name) and e.id in entry_alias) or path_of(e) == "self.subscriptions"

        for n in walk_local(f.node):
            hit = None
            if isinstance(n, ast.Call) and isinstance(n.func, ast.Attribute) and n.func.attr in SETMUT and is_entry(n.func.value):
                hit = n
            elif isinstance(n, ast.AugAssign) and is_entry(n.target):
                hit = n
            elif isinstance(n, (ast.Assign, ast.Delete)) and any(isinstance(t, ast.Subscript) and path_of(t.value) == "self.subscriptions" for t in n.targets):
                hit = n
            if hit is not None:
                nentry += 1
                okw = f.name in writers_ok or (prog.is_expanded_helper(f) and False)
                R10.decide(okw, fkey(f, hit), where(f, hit), "subscription table written by a subscription handler / remove_module",
                           f"{f.qual} changes the subscription table (`{norm(hit)[:70]}`): subscribers are added or removed without a control frame")
    if nentry < 3:
        raise AnalysisError(f"anchor vanished: writes to self.subscriptions (found {nentry})")

    # ---- R12 entries are filed under keys of the domain they are looked up with -----------------------------------------------
    # forward_message looks subscribers up under header.msg_type, a signed 32-bit field.  A key under which a subscription is
    # filed must be a value of that same domain: the msg_type field of the typed control payload (or ALL_MESSAGE_TYPES, or a key
    # the table / a module's own record already holds).  A hand-decoded integer is in that domain only if it is decoded as signed
    # (an id such as -7 filed as 2**32-7 is never found again).
    R12 = chk.rule("C01-R12", "subscriptions are filed under the payload's msg_type field (a signed id), never under a differently decoded integer", 4,
                   "a key from another integer domain (unsigned decoding, truncation) is never matched by header.msg_type: the subscriber gets nothing")
    nkey = 0
    for f in prog.cls(MGR, "MessageManager").methods.values():
        if f.name not in ("add_subscription", "remove_subscription") and not prog.is_expanded_helper(f):
            continue
        cmf = guards.copy_map(f.node)
        loopvars = {}
        for lp in walk_local(f.node):
            if isinstance(lp, ast.For):
                for nm_ in [x.id for x in ast.walk(lp.target) if isinstance(x, ast.Name)]:
                    loopvars[nm_] = norm(lp.iter)
        for n in walk_local(f.node):
            if not (isinstance(n, ast.Subscript) and path_of(n.value) == "self.subscriptions"):
                continue
            par = getattr(n, "_parent", None)
            writes = (isinstance(par, ast.Attribute) and par.attr in SETMUT) or isinstance(n.ctx, (ast.Store, ast.Del))
            if not writes:
                continue
            nkey += 1
            k = guards.subst(n.slice, cmf)
            kt = norm(k)
            defs_of = {}
            for a_ in walk_local(f.node):
                if isinstance(a_, ast.Assign) and len(a_.targets) == 1 and isinstance(a_.targets[0], ast.Name):
                    defs_of.setdefault(a_.targets[0].id, []).append(a_.value)
                elif isinstance(a_, ast.AnnAssign) and isinstance(a_.target, ast.Name) and a_.value is not None:
                    defs_of.setdefault(a_.target.id, []).append(a_.value)

            def classify(e_, depth=0):
                """(ok, reason) for one key expression; a local is judged by every value assigned to it"""
                if isinstance(e_, ast.Attribute) and e_.attr == "msg_type":
                    return True, ""
                if norm(e_) in ("ALL_MESSAGE_TYPES", "cd.ALL_MESSAGE_TYPES"):
                    return True, ""
                if isinstance(e_, ast.Name) and e_.id in loopvars and (loopvars[e_.id].replace("list(", "").replace("tuple(", "").rstrip(")").endswith(".subs") or "self.subscriptions" in loopvars[e_.id]):
                    return True, ""
                if isinstance(e_, ast.Call) and norm(e_.func) == "int" and len(e_.args) == 1:
                    return classify(e_.args[0], depth + 1)
                if isinstance(e_, ast.Call) and norm(e_.func) == "int.from_bytes":
                    sg = next((kw.value for kw in e_.keywords if kw.arg == "signed"), None)
                    if isinstance(sg, ast.Constant) and sg.value is True:
                        return True, ""
                    return False, f"`{norm(e_)[:90]}` decodes the id as an unsigned integer: a negative type id is filed under id + 2**32 and never matched by header.msg_type"
                if isinstance(e_, ast.Name) and e_.id in defs_of and depth < 4:
                    for v_ in defs_of[e_.id]:
                        ok_, why2 = classify(v_, depth + 1)
                        if not ok_:
                            return False, why2
                    return True, ""
                if isinstance(e_, ast.IfExp):
                    for v_ in (e_.body, e_.orelse):
                        ok_, why2 = classify(v_, depth + 1)
                        if not ok_:
                            return False, why2
                    return True, ""
                return False, f"`{norm(e_)[:90]}`, which is not the msg_type field of the control payload"

            okk, why_ = classify(k)
            R12.decide(okk, fkey(f, f"key:{norm(n.slice)}:{par.attr if isinstance(par, ast.Attribute) else 'store'}"), where(f, n), f"key {kt[:60]}",
                       f"{f.qual}: a subscription is filed under {why_}")
    if nkey < 4:
        raise AnalysisError(f"anchor vanished: keyed writes into self.subscriptions in the subscription handlers (found {nkey})")

    # ---- R11 client connections stay blocking: a frame that arrives in pieces is still read whole -----------------------------
    def mode_changes(tree_or_func):
        hits = []
        for c in [x for x in ast.walk(tree_or_func) if isinstance(x, ast.Call)]:
            if isinstance(c.func, ast.Attribute) and c.func.attr in ("settimeout", "setblocking") and "listen" not in (path_of(c.func.value) or ""):
                a = c.args[0] if c.args else None
                harmless = isinstance(a, ast.Constant) and ((c.func.attr == "settimeout" and a.value is None) or (c.func.attr == "setblocking" and a.value is True))
                if not harmless:
                    hits.append(c)
        return hits

    R11 = chk.rule("C01-R11", "no timeout / non-blocking mode is ever set on a client connection of the manager", 1,
                   "with a timeout the socket is non-blocking underneath: MSG_WAITALL reads return short, a message that arrives in two TCP segments is dropped together with its publisher")
    import os as _os
    fx_path = _os.path.join(_os.path.dirname(_os.path.dirname(_os.path.dirname(_os.path.abspath(__file__)))), "fixtures", "c01_manager_socket_mode.py")
    try:
        fx_hits = mode_changes(ast.parse(open(fx_path, encoding="utf-8").read()))
    except OSError:
        fx_hits = []
    if len(fx_hits) != 1:
        raise AnalysisError(f"C01-R11 detector no longer matches its positive example fixtures/c01_manager_socket_mode.py exactly once (found {len(fx_hits)})")
    nscan = 0
    for f in prog.module(MGR).functions.values():
        nscan += 1
        for c in mode_changes(f.node):
            R11.bad(fkey(f, c), where(f, c), f"{f.qual}: `{norm(c)}` puts a client connection into timeout / non-blocking mode: a frame read with MSG_WAITALL can come back short and is taken for a dead peer")
    if not R11.instances:
        R11.ok(f"{MGR}|socket-mode", prog.module(MGR).rel, f"{nscan} manager functions scanned, no socket mode change; the positive example in fixtures/c01_manager_socket_mode.py matched")

    # ---- R7 readiness is polled for every connection, in the round in which it is used ---------------------------------
    R7 = chk.rule("C01-R7", "wlist is refreshed from a write-select over every connection before a round's frames are serviced", 2,
                  "a connection left out of the poll is treated as 'cannot accept data' although it can: the message is dropped for a subscribed, writable module")
    # the select whose writable result becomes self.wlist: directly (`_, self.wlist, _ = select.select(...)`) or through a
    # local (`_, w, _ = select.select(...)` ... `self.wlist.update(w)` / `self.wlist = frozenset(w)`)
    sel = []
    refresh = {}
    for n in walk_local(runf.node):
        if not (isinstance(n, ast.Assign) and isinstance(n.value, ast.Call) and norm(n.value.func) == "select.select" and len(n.targets) == 1):
            continue
        t = n.targets[0]
        wt = t.elts[1] if isinstance(t, (ast.Tuple, ast.List)) and len(t.elts) == 3 else None
        if wt is None:
            continue
        if norm(wt) == "self.wlist":
            sel.append(n)
            refresh[id(n)] = n
        elif isinstance(wt, ast.Name):
            for m_ in walk_local(runf.node):
                into = None
                if isinstance(m_, ast.Assign) and len(m_.targets) == 1 and norm(m_.targets[0]) in ("self.wlist", "self.wlist[:]"):
                    v_ = m_.value
                    if isinstance(v_, ast.Call) and isinstance(v_.func, ast.Name) and v_.func.id in ("set", "frozenset", "list", "tuple") and len(v_.args) == 1:
                        v_ = v_.args[0]
                    into = v_
                elif isinstance(m_, ast.Expr) and isinstance(m_.value, ast.Call) and norm(m_.value.func) in ("self.wlist.update", "self.wlist.extend") and len(m_.value.args) == 1:
                    into = m_.value.args[0]
                if into is not None and isinstance(into, ast.Name) and into.id == wt.id and m_.lineno > n.lineno:
                    sel.append(n)
                    refresh[id(n)] = m_
                    break
    okp = len(sel) == 1
    src_txt = ""
    if okp:
        c = sel[0].value
        w = c.args[1] if len(c.args) >= 2 else None
        leaves = dataflow.source_closure(runf.node, w) if w is not None else set()
        src_txt = ", ".join(sorted(leaves))
        def real_filter(comp):
            # excluding the listening socket (never a recipient) is not a restriction of the poll
            return any(not ("listen_socket" in norm(c_) and len([n_ for n_ in ast.walk(c_) if isinstance(n_, ast.Attribute)]) <= 2) for g_ in comp.generators for c_ in g_.ifs)

        okp = leaves == {"self.modules"} and not any(isinstance(x, (ast.ListComp, ast.GeneratorExp, ast.SetComp)) and real_filter(x) for x in ast.walk(w))
        # filtered locals: a comprehension with a condition feeding the write set
        for nm in [x.id for x in ast.walk(w) if isinstance(x, ast.Name)]:
            for kind, rhs in dataflow.definitions(runf.node, nm):
                if isinstance(rhs, (ast.ListComp, ast.GeneratorExp, ast.SetComp)) and real_filter(rhs):
                    okp = False
                    src_txt += " (filtered)"
    R7.decide(okp, fkey(runf, "write-select-covers-all"), where(runf, sel[0] if sel else runf.node), "write-select polls self.modules (every connection)",
              f"the write-readiness poll covers only [{src_txt}] instead of every connection in self.modules")
    if sel and pmn:
        seln = [n for n in rg.nodes if n.ast is refresh[id(sel[0])]]
        selc = [n for n in rg.nodes if n.ast is sel[0]]
        tests = [n for n in rg.nodes if n.kind == "test" and any(e.dst == selc[0].id for e in rg.succ[n.id])] if selc else []
        # the poll may only be skipped when there is nothing to service: its guard is the truthiness of the serviced list
        svc = next((a for a in ancestors(pmn[0].ast) if isinstance(a, ast.For)), None)
        L_ = norm(svc.iter) if svc is not None else "rlist"
        empties = (L_, f"len({L_}) > 0", f"len({L_})", f"len({L_}) != 0")
        cond_ok = all(norm(t.ast) in empties for t in tests)
        R7.decide(bool(seln) and not flow.must_precede(rg, seln, pmn, follow=lambda e: not (e.cond is not None and norm(e.cond) in empties and e.pol is False)) and cond_ok,
                  fkey(runf, "refreshed-before-servicing"), where(runf), "the poll runs before process_message in every round that services frames",
                  "frames can be serviced in a round whose wlist was not refreshed (or the poll is skipped under an extra condition)")

    # ---- R8 both header layouts: the manager never hard-codes a header class --------------------------------------------------
    R8 = chk.rule("C01-R8", "manager.py builds, sizes and views headers only through the configured header class (plain or timecode)", 3,
                  "a hard-coded MessageHeader truncates / mis-frames every message when the timecode layout is in use")
    mmod = prog.module(MGR)
    hard = []
    for f in mmod.functions.values():
        for n in walk_local(f.node):
            if isinstance(n, ast.Call):
                fn = n.func
                tgt = fn.value if isinstance(fn, ast.Attribute) and fn.attr in ("from_buffer", "from_buffer_copy", "from_bytes") else fn
                if isinstance(tgt, ast.Name) and tgt.id in ("MessageHeader", "TimeCodeMessageHeader"):
                    hard.append((f, n))
                if norm(fn) in ("ctypes.sizeof", "sizeof") and n.args and isinstance(n.args[0], ast.Name) and n.args[0].id in ("MessageHeader", "TimeCodeMessageHeader"):
                    hard.append((f, n))
    R8.decide(not hard, f"{MGR}|no-hard-coded-header-class", mmod.rel, "no construction / view / sizeof of a fixed header class",
              "manager.py hard-codes a header class: " + "; ".join(f"{f.qual}: {norm(n)[:50]}" for f, n in hard[:3]))
    # every Module the manager creates is told the configured header class explicitly (Module.send_ack and anything else that
    # builds a header through module.header_cls must use the layout of the rest of the stream); a default on that field would
    # silently pick the plain layout
    from .mgr import module_constructions

    for f, c, okc in module_constructions(prog):
        R8.decide(okc, fkey(f, f"Module(header_cls):{norm(c)[:40]}"), where(f, c), "Module created with header_cls=self.header_cls",
                  f"{f.qual}: `{norm(c)[:70]}` does not pass the manager's configured header class to the Module (it would build headers of the default layout)")
    init = prog.func(MGR, "MessageManager.__init__")
    sz = [n for n in walk_local(init.node) if isinstance(n, ast.Assign) and norm(n.targets[0]) == "self.header_size"]
    R8.decide(len(sz) == 1 and norm(sz[0].value) == "ctypes.sizeof(self.header_cls)", fkey(init, "header_size"), where(init), "header_size = sizeof(configured header class)",
              "self.header_size is not ctypes.sizeof(self.header_cls)")
    rdm = prog.func(MGR, "MessageManager.read_message")
    # the receive itself, or a receive helper that is handed the header buffer and the size (how the helper completes the read is C03's concern)
    hrd = [c for c in calls_in(rdm.node) if isinstance(c.func, ast.Attribute) and any(norm(a) in ("self.header_buffer", "self.header_view") for a in c.args)]
    okh = len(hrd) == 1 and any(norm(a) == "self.header_size" for a in hrd[0].args)
    if okh and hrd[0].func.attr == "recv_into":
        okh = norm(hrd[0].args[0]) in ("self.header_buffer", "self.header_view") and len(hrd[0].args) >= 2 and norm(hrd[0].args[1]) == "self.header_size" and any(norm(a).endswith("MSG_WAITALL") for a in hrd[0].args)
    R8.decide(okh, fkey(rdm, "header-read-size"), where(rdm),
              "the header read requests exactly header_size bytes (MSG_WAITALL)", "read_message does not read exactly self.header_size header bytes")
    hbuf = [n for n in walk_local(init.node) if isinstance(n, ast.Assign) and norm(n.targets[0]) == "self.header_buffer"]
    R8.decide(len(hbuf) == 1 and norm(hbuf[0].value) == "bytearray(self.header_size)", fkey(init, "header_buffer"), where(init), "header receive buffer has header_size bytes", "header receive buffer is not bytearray(self.header_size)")

    chk.units.update({"recipient_send_sites": len(sends), "range_gated_sites": len(targets), "dispatch_types": sorted(d.types)})
