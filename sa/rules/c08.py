"""C08 - client read path is faithful, filtered and self-resynchronising (DESIGN §2 C08)."""
from __future__ import annotations

import ast
from typing import Dict

from .. import cfg as C, flow, guards
from ..program import AnalysisError, Program, norm, walk_local, ancestors
from ..report import Check
from ..types import Types
from ..util import calls_in, fkey, is_method_call, node_calls, path_of, recv_of, where
from .mgr import CORE, const_resolver

CLI = "pyrtma.client"
RECV = ("recv", "recv_into", "recvfrom", "recv_bytes")
SEND = ("send", "sendall")


def property_aliases(prog, cls) -> Dict[str, ast.expr]:
    """self.<prop> -> the private attribute it returns (possibly wrapped in set()/list()/tuple())."""
    out = {}
    for ci in prog.mro(cls):
        for name, fi in ci.methods.items():
            if not any(d.split(".")[-1] == "property" for d in fi.decorators):
                continue
            body = [s for s in fi.node.body if not (isinstance(s, ast.Expr) and isinstance(s.value, ast.Constant))]
            if len(body) == 1 and isinstance(body[0], ast.Return) and body[0].value is not None:
                v = body[0].value
                if isinstance(v, ast.Call) and isinstance(v.func, ast.Name) and v.func.id in ("set", "list", "tuple", "frozenset") and len(v.args) == 1:
                    v = v.args[0]
                if isinstance(v, ast.Attribute) and path_of(v) and path_of(v).startswith("self."):
                    out.setdefault(f"self.{name}", v)
    return out


class _AttrSubst(ast.NodeTransformer):
    def __init__(self, mapping):
        self.mapping = mapping

    def visit_Attribute(self, node):
        p = path_of(node)
        if p in self.mapping and isinstance(node.ctx, ast.Load):
            return ast.copy_location(guards._clone(self.mapping[p]), node)
        return self.generic_visit(node)


def inline_props(e, mapping):
    return ast.fix_missing_locations(_AttrSubst(mapping).visit(guards._clone(e)))


def sock_calls(f, names):
    return [c for c in calls_in(f.node) if is_method_call(c, names) and path_of(recv_of(c)) in ("self._sock", "self.sock")]


def _mode_calls(fnode):
    out = []
    for c in calls_in(fnode):
        if isinstance(c.func, ast.Attribute) and c.func.attr in ("settimeout", "setblocking") and c.args:
            a = c.args[0]
            blocking = isinstance(a, ast.Constant) and (a.value is None if c.func.attr == "settimeout" else a.value is True)
            out.append((c, blocking))
        elif norm(c.func) in ("socket.setdefaulttimeout",) and c.args and not (isinstance(c.args[0], ast.Constant) and c.args[0].value is None):
            out.append((c, False))
        elif norm(c.func) == "socket.create_connection" and (len(c.args) > 1 or any(k.arg == "timeout" for k in c.keywords)):
            out.append((c, False))
    return out


def _split_modes(fnode):
    calls = _mode_calls(fnode)
    if not any(not b for _, b in calls):
        return [], []
    g = C.build(fnode)
    node_of = lambda c: next((m for m in g.nodes if any(x is c for x in node_calls(m))), None)
    restores = [m for m in g.nodes for c, b in calls if b and any(x is c for x in node_calls(m))]
    bad, good = [], []
    for c, b in calls:
        if b:
            continue
        n = node_of(c)
        if n is None:
            continue
        if norm(c.func) == "socket.setdefaulttimeout":
            bad.append((c, "sets a process-wide default timeout: every client socket created later is non-blocking with timeout"))
        elif flow.must_follow(g, [n], restores, exits=("exit",)):
            bad.append((c, "leaves a timeout / non-blocking mode on the socket on a normal exit (no settimeout(None) / setblocking(True) follows)"))
        else:
            good.append(c)
    return bad, good


def mode_changes(fnode):
    return _split_modes(fnode)[0]


def restored_changes(fnode):
    return _split_modes(fnode)[1]


def _fixture_hits(prog):
    import os
    p = os.path.join(os.path.dirname(os.path.dirname(os.path.dirname(os.path.abspath(__file__)))), "fixtures", "c08_socket_mode.py")
    tree = ast.parse(open(p, encoding="utf-8").read())
    from ..program import _set_parents
    _set_parents(tree)
    hits = []
    for cls in [n for n in tree.body if isinstance(n, ast.ClassDef)]:
        for fn in [n for n in cls.body if isinstance(n, ast.FunctionDef)]:
            if mode_changes(fn):
                hits.append(f"{cls.name}.{fn.name}")
    return hits


def run(prog: Program, chk: Check):
    ty = Types(prog)
    chk.explanation = (
        "C08 decided on Client._read_message / read_message: exactly one drain of header.num_data_bytes on every path to an "
        "UnknownMessageType/InvalidMessageDefinition raise and none on the success path; payload received under type_size == "
        "num_data_bytes; every ConnectionLost raise preceded by _connected = False; every socket primitive inside a try that converts "
        "ConnectionError; every non-None return of read_message dominated by the subscription filter; the version/size rejection "
        "conditions and their negation on the success path; bytes received into the returned objects with only recv_time stored. "
        "Not decided: the server closing at every byte offset (MSG_WAITALL semantics are the OS's)."
    )
    chk.assumptions += ["recv(..., MSG_WAITALL) returns the requested bytes or fewer only at connection end (platform)"]
    cl = prog.cls(CLI, "Client")
    rm = prog.func(CLI, "Client._read_message")
    g = C.build(rm.node)
    gs = flow.guard_states(g)
    res = const_resolver(prog, rm.module)
    consts = prog.module_constants(CORE)
    env = ty.locals_of(rm)
    rmcm = guards.copy_map(rm.node)  # `payload_size = header.num_data_bytes` and similar locals are looked through
    sub_paths = lambda ps: [[(guards.subst(e_, rmcm), pol_) for e_, pol_ in p_] for p_ in ps]

    def hdr_read(n):
        for c in node_calls(n):
            if is_method_call(c, "recv_into") and path_of(recv_of(c)) == "self._sock" and c.args:
                t = ty.expr(rm, c.args[0])
                if (t.kind == "cls" and "MessageHeader" in prog.base_names(t.cls)) or norm(c.args[0]) in ("header",):
                    return c
        return None

    H = [n for n in g.nodes if hdr_read(n) is not None]
    if len(H) != 1:
        raise AnalysisError(f"anchor vanished: expected one header receive in _read_message, found {len(H)}")
    hn = H[0]
    hc = hdr_read(hn)
    hv = path_of(hc.args[0])

    def has_waitall(c):
        return any(norm(a).endswith("MSG_WAITALL") for a in c.args) or any(norm(k.value).endswith("MSG_WAITALL") for k in c.keywords)

    wrapper_cache = {}

    def drain_wrapper(fi):
        """A Client method all of whose normal paths receive exactly its size parameter with MSG_WAITALL."""
        if fi.key in wrapper_cache:
            return wrapper_cache[fi.key]
        okw = False
        ps = [p for p in fi.params() if p != "self"]
        if len(ps) >= 1:
            wg = C.build(fi.node)

            def rcv(m):
                for cc in node_calls(m):
                    if is_method_call(cc, "recv") and path_of(recv_of(cc)) == "self._sock" and cc.args and path_of(cc.args[0]) == ps[0] and has_waitall(cc):
                        return True
                return False

            lo, hi = flow.count_on_paths(wg, rcv, [wg.entry.id], [wg.exit.id])
            okw = (lo, hi) == (1, 1)
        wrapper_cache[fi.key] = okw
        return okw

    def is_drain(n):
        for c in node_calls(n):
            if is_method_call(c, ("recv", "recv_into")) and path_of(recv_of(c)) == "self._sock" and c is not hc:
                size = c.args[0] if c.func.attr == "recv" else (c.args[1] if len(c.args) > 1 else None)
                if size is not None and norm(guards.subst(size, rmcm)) == f"{hv}.num_data_bytes" and has_waitall(c):
                    return True
            elif isinstance(c.func, ast.Attribute) and path_of(recv_of(c)) == "self" and c.args and norm(guards.subst(c.args[0], rmcm)) == f"{hv}.num_data_bytes":
                st, fi, _ = ty.callee(rm, c)
                if fi is not None and drain_wrapper(fi):
                    return True
        return False

    def payload_read(n):
        for c in node_calls(n):
            if is_method_call(c, "recv_into") and path_of(recv_of(c)) == "self._sock" and c is not hc and len(c.args) >= 2 and not is_drain(n):
                return c
        return None

    # ---- D drain before raise ------------------------------------------------------------------------
    D = chk.rule("C08-D", "exactly one MSG_WAITALL drain of header.num_data_bytes on every path to a decode-error raise; none on success", 5,
                 "0 drains leave the payload in the stream (next call mis-frames); 2 drains eat the following frame")
    raises = []
    for n in g.nodes:
        if n.kind == "stmt" and isinstance(n.ast, ast.Raise) and n.ast.exc is not None:
            e = n.ast.exc.func if isinstance(n.ast.exc, ast.Call) else n.ast.exc
            nm = norm(e).split(".")[-1]
            if nm in ("UnknownMessageType", "InvalidMessageDefinition"):
                raises.append((n, nm))
    if len(raises) < 2:
        raise AnalysisError(f"anchor vanished: expected >=2 decode-error raises in _read_message, found {len(raises)}")
    for n, nm in raises:
        lo, hi = flow.count_on_paths(g, is_drain, [hn.id], [n.id])
        D.decide((lo, hi) == (1, 1), fkey(rm, n.ast), where(rm, n.ast), f"{nm}: exactly one drain between header read and raise",
                 f"{nm}: number of drains of {hv}.num_data_bytes on a path from the header read to this raise is in [{lo}, {hi}], expected exactly 1")
    rets = [n for n in g.nodes if n.kind == "stmt" and isinstance(n.ast, ast.Return) and isinstance(n.ast.value, ast.Call) and norm(n.ast.value.func) == "Message"]
    if len(rets) != 1:
        raise AnalysisError("anchor vanished: `return Message(header, data)` in _read_message")
    rn = rets[0]
    lo, hi = flow.count_on_paths(g, is_drain, [hn.id], [rn.id])
    D.decide(hi == 0, fkey(rm, "success:no-drain"), where(rm, rn.ast), "no drain on the success path", f"up to {hi} drain(s) on a path to the successful return")
    P = [n for n in g.nodes if payload_read(n) is not None]
    if len(P) != 1:
        D.bad(fkey(rm, "success:payload-read"), where(rm), f"expected one payload receive, found {len(P)}")
    else:
        pn = P[0]
        pc = payload_read(pn)
        size = norm(pc.args[1])
        paths = sub_paths(gs.at(pn))
        goal = guards.parse(f"{size} == {hv}.num_data_bytes")
        D.decide(not guards.any_path_implies(paths, goal) and has_waitall(pc), fkey(rm, "success:payload-size"), where(rm, pc),
                 f"payload receive of `{size}` bytes is dominated by {size} == {hv}.num_data_bytes (MSG_WAITALL)",
                 f"payload receive size `{size}` is not established equal to {hv}.num_data_bytes (or MSG_WAITALL missing)")
        lo, hi = flow.count_on_paths(g, [pn], [hn.id], [rn.id])
        # paths that skip the payload read must have a zero-length payload
        gs2 = flow.guard_states(g, edge_filter=lambda e: not (e.src == pn.id and e.kind != "exc"))
        skip_paths = sub_paths(gs2.at(rn))
        goal0 = guards.parse(f"not {hv}.num_data_bytes")
        bad = guards.any_path_implies(skip_paths, goal0)
        D.decide(hi <= 1 and not bad, fkey(rm, "success:payload-once-or-empty"), where(rm, rn.ast),
                 "payload read at most once, skipped only when num_data_bytes is 0", "the success path can skip the payload read for a non-empty payload or read it twice")
    # header read itself: full header size with MSG_WAITALL and a length check leading to ConnectionLost
    D.decide(len(hc.args) >= 2 and norm(hc.args[1]) in (f"{hv}.size", f"ctypes.sizeof({hv})") and has_waitall(hc), fkey(rm, "header-read"), where(rm, hc),
             "header read requests the whole header with MSG_WAITALL", f"header read is {norm(hc)}")

    # ---- L ConnectionLost => disconnected ----------------------------------------------------------------
    L = chk.rule("C08-L", "every `raise ConnectionLost` is preceded by self._connected = False; every socket primitive converts ConnectionError", 8,
                 "a client that reports connected after a lost connection breaks 'leaves the client in the disconnected state'")
    nraise = 0
    for f in cl.methods.values():
        fg = None
        for n in walk_local(f.node):
            if isinstance(n, ast.Raise) and n.exc is not None:
                e = n.exc.func if isinstance(n.exc, ast.Call) else n.exc
                if norm(e).split(".")[-1] != "ConnectionLost":
                    continue
                nraise += 1
                fg = fg or C.build(f.node)

                def is_clear(m):
                    a = m.ast
                    return (m.kind == "stmt" and isinstance(a, ast.Assign) and any(path_of(t) == "self._connected" for t in a.targets)
                            and isinstance(a.value, ast.Constant) and a.value.value is False)

                rnodes = [m for m in fg.nodes if m.ast is n]
                miss = flow.must_precede(fg, is_clear, rnodes)
                ctx = next((a for a in ancestors(n) if isinstance(a, ast.ExceptHandler)), None)
                label = f"in-handler({norm(ctx.type) if ctx is not None and ctx.type is not None else 'direct'})"
                L.decide(not miss, fkey(f, f"raise ConnectionLost {label}"), where(f, n), "_connected cleared before the raise on every path",
                         f"`raise ConnectionLost` in {f.qual} reachable without `self._connected = False`")
    if nraise < 4:
        raise AnalysisError(f"anchor vanished: expected >=4 `raise ConnectionLost` in Client, found {nraise}")
    for f in cl.methods.values():
        for c in sock_calls(f, RECV + SEND):
            tr = None
            for a in ancestors(c):
                if isinstance(a, ast.Try) and any(c in calls_in(st) for st in a.body):
                    tr = a
                    break
            conv = False
            if tr is not None:
                for h in tr.handlers:
                    names = [norm(x).split(".")[-1] for x in (h.type.elts if isinstance(h.type, ast.Tuple) else [h.type])] if h.type is not None else ["*"]
                    if any(x in ("ConnectionError", "OSError", "*", "Exception") for x in names):
                        if any(isinstance(s, ast.Raise) and s.exc is not None and norm(s.exc.func if isinstance(s.exc, ast.Call) else s.exc).split(".")[-1] == "ConnectionLost"
                               for st in h.body for s in walk_local(st)):
                            conv = True
            L.decide(conv, fkey(f, c), where(f, c), "inside a try converting ConnectionError to ConnectionLost",
                     f"`{norm(c)}` in {f.qual} is outside any try that converts ConnectionError into ConnectionLost")
    # a direct `raise ConnectionLost` (outside an except handler) is justified by a short read only: fewer bytes than were
    # requested.  An empty result is not by itself a lost connection - a zero-length request returns empty on a live socket.
    for f in cl.methods.values():
        directs = [n for n in walk_local(f.node) if isinstance(n, ast.Raise) and n.exc is not None and norm(n.exc.func if isinstance(n.exc, ast.Call) else n.exc).split(".")[-1] == "ConnectionLost"
                   and not any(isinstance(a, ast.ExceptHandler) for a in ancestors(n))]
        if not directs:
            continue
        fg2 = C.build(f.node)
        fgs2 = flow.guard_states(fg2)
        rcv = []
        for a in walk_local(f.node):
            if isinstance(a, ast.Assign) and len(a.targets) == 1 and isinstance(a.targets[0], ast.Name) and isinstance(a.value, ast.Call) and is_method_call(a.value, ("recv", "recv_into")) and path_of(recv_of(a.value)) == "self._sock":
                c = a.value
                size = c.args[0] if c.func.attr == "recv" else (c.args[1] if len(c.args) > 1 else None)
                if size is not None:
                    v = a.targets[0].id
                    rcv.append(f"{v} != {norm(size)}" if c.func.attr == "recv_into" else f"len({v}) != {norm(size)}")
        for n in directs:
            node = next(m for m in fg2.nodes if m.ast is n)
            okk = False
            for goal_s in rcv:
                if not guards.any_path_implies(fgs2.at(node), guards.parse(goal_s)):
                    okk = True
            L.decide(okk, fkey(f, f"direct-raise-only-on-short-read#{directs.index(n)}"), where(f, n), "raised only when a receive returned fewer bytes than requested",
                     f"`raise ConnectionLost` in {f.qual} is not conditioned on a receive returning fewer bytes than requested (candidates: {rcv or 'none'}): "
                     "an empty result of a zero-length request on a live connection would be reported as a lost connection")
    # short header / payload read -> ConnectionLost
    for label, node in (("header", hn),) + ((("payload", P[0]),) if len(P) == 1 else ()):
        v = path_of(node.ast.targets[0]) if isinstance(node.ast, ast.Assign) else None
        restore = {m.id for m in g.nodes if m is not node and v in flow.stores_of(m)}
        live = flow.reach(g, [node.id], blocked=restore, blocked_pass_exc=False)
        tests = [t for t in g.nodes if t.kind == "test" and v and v in flow.access_paths(t.ast) and t.id in live]
        okk = bool(tests)
        for t in tests:
            for e in g.succ[t.id]:
                if e.kind == "true":
                    r = flow.reach(g, [e.dst])
                    lost = any(m.kind == "stmt" and isinstance(m.ast, ast.Raise) and "ConnectionLost" in norm(m.ast) for m in (g.nodes[x] for x in r))
                    if not lost or g.exit.id in flow.reach(g, [e.dst], follow=lambda ed: ed.kind != "exc"):
                        okk = False
        tests = []
        for t in tests:
            for e in g.succ[t.id]:
                if e.kind == "true":
                    r = flow.reach(g, [e.dst])
                    if any(m.kind == "stmt" and isinstance(m.ast, ast.Raise) and "ConnectionLost" in norm(m.ast) for m in (g.nodes[x] for x in r)) and g.exit.id not in flow.reach(g, [e.dst], follow=lambda ed: ed.kind != "exc"):
                        okk = True
        L.decide(okk, fkey(rm, f"short-{label}-read"), where(rm, node.ast), f"short {label} read raises ConnectionLost",
                 f"a short {label} read (fewer bytes than requested) does not lead to ConnectionLost")

    # ---- M blocking mode --------------------------------------------------------------------------------------------
    M = chk.rule("C08-M", "the client socket is left in blocking mode: a timeout / non-blocking mode set on it is undone on every normal exit of the same function", 0,
                 "MSG_WAITALL completes a frame only on a blocking socket; with a timeout left on it a short read of a slow frame is reported as ConnectionLost")
    fx = _fixture_hits(prog)
    if fx != ["Client._socket_connect"]:
        raise AnalysisError(f"C08-M self-check: the positive example must match exactly once, matched {fx}")
    nmode = 0
    nscan = 0
    for f in prog.all_functions():
        if f.module.name not in (CLI, "pyrtma.client_base"):
            continue
        nscan += 1
        if True:
            for c, why in mode_changes(f.node):
                nmode += 1
                M.bad(fkey(f, c), where(f, c), f"{f.qual}: `{norm(c)}` {why}")
            for c in restored_changes(f.node):
                nmode += 1
                M.ok(fkey(f, c), where(f, c), "mode change undone on every normal exit")
    M.ok("C08-M|scan", where(rm), f"{nscan} client function(s) scanned, {nmode} socket mode change(s); the positive example in fixtures/c08_socket_mode.py matched")
    chk.units["client_socket_mode_changes"] = nmode

    # ---- F subscription filter -----------------------------------------------------------------------------
    F = chk.rule("C08-F", "every return of read_message is dominated by: sub_all or not M or type in subscribed_types or (ack and type == ACK)", 2,
                 "otherwise a queued message of an unsubscribed type is handed to the caller")
    rd = prog.func(CLI, "Client.read_message")
    fg = C.build(rd.node)
    fgs = flow.guard_states(fg)
    fres = const_resolver(prog, rd.module)
    props = property_aliases(prog, cl)
    ack = consts.get("MT_ACKNOWLEDGE")
    for n in fg.nodes:
        if n.kind == "stmt" and isinstance(n.ast, ast.Return) and n.ast.value is not None and not (isinstance(n.ast.value, ast.Constant) and n.ast.value.value is None):
            mv = path_of(n.ast.value)
            if mv is None:
                F.bad(fkey(rd, n.ast), where(rd, n.ast), f"read_message returns a computed value `{norm(n.ast.value)}`; filter cannot be established")
                continue
            goal = guards.parse(f"self._sub_all or (not {mv}) or ({mv}.header.msg_type in self._subscribed_types) or (ack and {mv}.header.msg_type == {ack})")
            rcm = guards.copy_map(rd.node)  # `msg_type = msg.header.msg_type` is looked through
            paths = [[(guards.fold_consts(inline_props(guards.subst(e, rcm), props), fres), pol) for e, pol in p] for p in fgs.at(n)]
            bad = guards.any_path_implies(paths, goal)
            F.decide(not bad, fkey(rd, n.ast), where(rd, n.ast), "filter dominates the return",
                     "a message can be returned without passing the subscription filter; guards on that path: "
                     + (", ".join(("" if pol else "not ") + norm(e) for e, pol in paths[bad[0]]) if bad else ""))
    # the candidate always comes from _read_message
    calls = [c for c in calls_in(rd.node) if is_method_call(c, "_read_message") and path_of(recv_of(c)) == "self"]
    # ... possibly through a helper of the client the rules never saw (a generator that pulls the frames): the helper's own
    # parameter must be what it passes on, and read_message must hand it its sync_check
    via_helper_ok = True
    for hc in [c for c in calls_in(rd.node) if isinstance(c.func, ast.Attribute) and path_of(c.func.value) == "self" and c.func.attr in cl.methods and prog.is_expanded_helper(cl.methods[c.func.attr])]:
        h = cl.methods[hc.func.attr]
        inner = [c for c in calls_in(h.node) if is_method_call(c, "_read_message") and path_of(recv_of(c)) == "self"]
        if not inner:
            continue
        from .. import callgraph as _cg
        b_ = _cg.bind_args(h, hc, bound_method=True)
        for c in inner:
            a = c.args[2] if len(c.args) >= 3 else next((k.value for k in c.keywords if k.arg == "sync_check"), None)
            okp = a is not None and isinstance(a, ast.Name) and a.id in h.params() and norm(b_.get(a.id)) == "sync_check" if a is not None and isinstance(a, ast.Name) and b_.get(a.id) is not None else False
            via_helper_ok = via_helper_ok and okp
            calls.append(None)
    calls_direct = [c for c in calls if c is not None]
    F.decide(len(calls) >= 1 and via_helper_ok and all(len(c.args) >= 3 and norm(c.args[2]) == "sync_check" or any(k.arg == "sync_check" and norm(k.value) == "sync_check" for k in c.keywords) for c in calls_direct),
             fkey(rd, "passes-sync_check"), where(rd), "every inner read passes the caller's sync_check", "an inner _read_message call does not pass sync_check through")

    # ---- V rejection conditions ---------------------------------------------------------------------------------
    V = chk.rule("C08-V", "InvalidMessageDefinition raised exactly for size mismatch or (sync_check and version != 0 and version != type_hash); success implies neither", 3,
                 "a weaker guard accepts out-of-sync frames; a stronger one rejects valid ones (incl. unfilled version 0)")
    dv = path_of(rn.ast.value.args[1]) if len(rn.ast.value.args) == 2 else None
    if dv is None:
        raise AnalysisError("anchor vanished: Message(header, data) arguments")
    ts_names = {path_of(payload_read(P[0]).args[1])} if len(P) == 1 else {"type_size"}
    ts = sorted(ts_names)[0]
    size_bad = guards.parse(f"{ts} != {hv}.num_data_bytes")
    ver_bad = guards.parse(f"sync_check and {hv}.version != 0 and {hv}.version != {dv}.type_hash")
    for n, nm in raises:
        if nm != "InvalidMessageDefinition":
            continue
        paths = sub_paths(gs.at(n))
        j1 = not guards.any_path_implies(paths, size_bad)
        j2 = not guards.any_path_implies(paths, ver_bad)
        # one raise site may serve both reasons (`if mismatch is not None: drain; raise`): every path needs one of them
        j3 = not guards.any_path_implies(paths, guards.parse(f"({norm(size_bad)}) or ({norm(ver_bad)})"))
        V.decide(j1 or j2 or j3, fkey(rm, n.ast), where(rm, n.ast), "raise justified by " + ("size mismatch" if j1 else "version mismatch under sync_check" if j2 else "size or version mismatch"),
                 "InvalidMessageDefinition raised under a condition that is neither the size mismatch nor (sync_check and version != 0 and version != type_hash)")
    paths = sub_paths(gs.at(rn))
    V.decide(not guards.any_path_implies(paths, guards.parse(f"not ({ts} != {hv}.num_data_bytes)")), fkey(rm, "success:size-agrees"), where(rm, rn.ast),
             "success implies the sizes agree", "a frame whose size differs from the local definition can be returned")
    V.decide(not guards.any_path_implies(paths, guards.parse(f"not (sync_check and {hv}.version != 0 and {hv}.version != {dv}.type_hash)")),
             fkey(rm, "success:version-agrees"), where(rm, rn.ast), "success implies no version mismatch under sync_check",
             "with sync_check a frame with a different non-zero version can be returned")
    # a definition class without type_hash (v1 style) is still accepted with version 0: the hash of the local definition may be
    # read only where the frame's version is known to be non-zero (short-circuit order matters: `version not in (0, data.type_hash)`
    # evaluates the hash first and raises AttributeError before the payload was consumed)
    for nd in g.nodes:
        if nd.ast is None:
            continue
        for x in [x for x in walk_local(nd.ast) if isinstance(x, ast.Attribute) and x.attr == "type_hash" and path_of(x.value) == dv and isinstance(x.ctx, ast.Load)]:
            facts = sub_paths(gs.at_expr(nd, x))
            okh = not guards.any_path_implies(facts, guards.parse(f"{hv}.version != 0"))
            V.decide(okh, fkey(rm, f"type_hash-read-under-version:{norm(nd.ast)[:40]}"), where(rm, x), f"{dv}.type_hash read only when {hv}.version != 0",
                     f"`{dv}.type_hash` is evaluated although {hv}.version may be 0: a v1-style definition (no type_hash) raises AttributeError before the payload is drained, and the next read starts inside it")
    # type_size is the local definition's size
    tdefs = [n for n in walk_local(rm.node) if isinstance(n, ast.Assign) and any(path_of(t) == ts for t in n.targets)]
    size_srcs = (f"{dv}.type_size", f"{dv}.size", f"ctypes.sizeof({dv})")

    def from_local_def(v):
        # either size attribute of the local definition, or a choice between them (`data.size if data.type_size == -1 else data.type_size`)
        if isinstance(v, ast.IfExp):
            return from_local_def(v.body) and from_local_def(v.orelse)
        return norm(v) in size_srcs

    V.decide(bool(tdefs) and all(from_local_def(n.value) for n in tdefs), fkey(rm, "type_size-source"), where(rm),
             "compared size is the local definition's size", "`type_size` is not taken from the local message definition")

    # ---- B faithful bytes ------------------------------------------------------------------------------------------
    B = chk.rule("C08-B", "header and payload are received into the returned objects; only header.recv_time is stored afterwards", 3,
                 "any other store between receive and return changes the delivered bytes")
    B.decide(path_of(rn.ast.value.args[0]) == hv, fkey(rm, "returns-received-header"), where(rm, rn.ast), "returned header is the receive buffer object",
             f"returned header `{norm(rn.ast.value.args[0])}` is not the object the header was received into (`{hv}`)")
    if len(P) == 1:
        B.decide(path_of(payload_read(P[0]).args[0]) == dv, fkey(rm, "returns-received-payload"), where(rm, rn.ast), "returned payload is the receive buffer object",
                 f"returned payload `{dv}` is not the object the payload was received into")
    stores = []
    for n in walk_local(rm.node):
        tg = n.targets if isinstance(n, ast.Assign) else ([n.target] if isinstance(n, (ast.AugAssign, ast.AnnAssign)) else [])
        for t in tg:
            base = t
            while isinstance(base, (ast.Attribute, ast.Subscript)):
                base = base.value
            if isinstance(t, (ast.Attribute, ast.Subscript)) and isinstance(base, ast.Name) and base.id in (hv, dv):
                stores.append((n, t))
    badst = [(n, t) for n, t in stores if not (isinstance(t, ast.Attribute) and path_of(t) == f"{hv}.recv_time")]
    B.decide(not badst, fkey(rm, "only-recv_time-stored"), where(rm), f"{len(stores)} store(s) into the received objects, all to recv_time",
             "store into the received header/payload: " + "; ".join(norm(n) for n, _ in badst))
    chk.units.update({"decode_error_raises": len(raises), "connection_lost_raises": nraise})
