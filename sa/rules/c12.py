"""C12 - id and name conflicts are always detected, never invented (DESIGN §2 C12)."""
from __future__ import annotations

import ast

from .. import callgraph, cfg as C, flow, guards, dataflow
from ..program import AnalysisError, Program, norm, walk_local, ancestors
from ..report import Check
from ..types import Types
from ..util import calls_in, fkey, is_method_call, node_calls, path_of, recv_of, where

PAR = "pyrtma.parser"
SHARED = ("constants", "string_constants", "aliases", "struct_defs", "message_defs")
ID_TABLES = {"message_ids": "MessageIDError", "module_ids": "ModuleIDError", "host_ids": "HostIDError"}


def table_stores(fg, table):
    out = []
    for n in fg.nodes:
        if n.kind == "stmt" and isinstance(n.ast, ast.Assign):
            for t in n.ast.targets:
                if isinstance(t, ast.Subscript) and path_of(t.value) == f"self.{table}":
                    out.append((n, t))
    return out


def dup_check_calls(f):
    out = []
    for c in calls_in(f.node):
        if is_method_call(c, "check_duplicate_name") and path_of(recv_of(c)) == "self":
            ns = None
            for k in c.keywords:
                if k.arg == "namespaces":
                    ns = k.value
            if ns is None and len(c.args) >= 3:
                ns = c.args[2]
            names = tuple(x.value for x in ns.elts) if isinstance(ns, (ast.Tuple, ast.List)) and all(isinstance(x, ast.Constant) for x in ns.elts) else None
            nm = c.args[1] if len(c.args) >= 2 else next((k.value for k in c.keywords if k.arg == "name"), None)
            out.append((c, names, path_of(nm) if nm is not None else None))
    return out


def file_read_once(prog, cg, D):
    """the once-only discipline of Parser.parse_file, reported under rule D (shared by C12 and C15)"""
    pf = prog.func(PAR, "Parser.parse_file")
    pg = C.build(pf.node)
    pgs = flow.guard_states(pg)
    ptn = [n for n in pg.nodes if any(is_method_call(c, "parse_text") and path_of(recv_of(c)) == "self" for c in node_calls(n))]
    apn = [n for n in pg.nodes for c in node_calls(n) if is_method_call(c, "append") and path_of(recv_of(c)) == "self.included_files"]
    if len(ptn) != 1:
        raise AnalysisError("anchor vanished: parse_text call in parse_file")
    if len(apn) != 1:
        D.bad(fkey(pf, "records-file"), where(pf), f"parse_file records the parsed file in included_files {len(apn)} times (expected once): repeated imports are parsed again")
        apn = []
    if apn:
        apc = [c for c in node_calls(apn[0]) if is_method_call(c, "append")][0]
        pv = path_of(apc.args[0])
        pdef = dataflow.definitions(pf.node, pv) if pv else []
        D.decide(len(pdef) == 1 and norm(pdef[0][1]).endswith(".resolve()"), fkey(pf, "resolved-path"), where(pf), f"`{pv}` is a resolved path", f"recorded path `{pv}` is not the resolved path")
        tests = [n for n in pg.nodes if n.kind == "test" and "self.included_files" in flow.access_paths(n.ast) and pv in flow.access_paths(n.ast)]
        D.decide(len(tests) == 1, fkey(pf, "membership-test-same-variable"), where(pf), f"membership test compares `{pv}` with included_files", "no membership test of the recorded path variable against included_files")
        if tests:
            t = tests[0]
            # (the fact is established at the recording point; the append itself invalidates it afterwards)
            bad = guards.any_path_implies(pgs.at(apn[0]), guards.parse(f"not ({norm(t.ast)})"))
            D.decide(not bad, fkey(pf, "parse-only-if-new"), where(pf), "the file is recorded (and then parsed) only when it was not seen", "a file can be recorded/parsed although already included")
            # skip path registers nothing: from the true edge no handler / parse_text / append is reachable
            skip = flow.reach(pg, [e.dst for e in pg.succ[t.id] if e.kind == "true"])
            D.decide(ptn[0].id not in skip and apn[0].id not in skip, fkey(pf, "skip-path-registers-nothing"), where(pf), "the skip path neither parses nor records", "the skip path still parses or records the file")
        D.decide(not flow.must_precede(pg, apn, ptn), fkey(pf, "record-before-parse"), where(pf), "path recorded before parsing (diamond/cyclic imports terminate)", "file is recorded only after parsing its imports")
    for cf, cc in cg.call_sites_of(prog.func(PAR, "Parser.parse_text").key):
        D.decide(cf.key == pf.key, fkey(cf, cc), where(cf, cc), "parse_text called from parse_file", f"parse_text called from {cf.qual} (bypasses the once-only test)")
    hi = prog.func(PAR, "Parser.handle_import")
    D.decide(any(is_method_call(c, "parse_file") for c in calls_in(hi.node)), fkey(hi, "imports-through-parse_file"), where(hi), "imports go through parse_file", "handle_import does not go through parse_file")


def prog_field_index(prog, f, call, field):
    """position of dataclass field `field` in the class constructed by `call` (None when unknown)"""
    cn = norm(call.func).split(".")[-1]
    ci = f.module.classes.get(cn)
    if ci is None:
        return None
    names = [n.target.id for n in ci.node.body if isinstance(n, ast.AnnAssign) and isinstance(n.target, ast.Name)]
    return names.index(field) if field in names else None


def prog_first_field_is_name(prog, f, call):
    return prog_field_index(prog, f, call, "name") == 0


def run(prog: Program, chk: Check):
    cg = callgraph.get(prog)
    chk.explanation = (
        "C12 decided on the parser's registration discipline: every store into one of the five shared name tables is preceded on "
        "every path by check_duplicate_name on the same name over the same five-table tuple (sibling agreement; indirect registrars "
        "accepted through their callers); every store into an id registry is preceded by its whole-registry duplicate loop and range "
        "test raising the matching error; reserved ranges expand with an inclusive end and every id is registered; a file is parsed "
        "at most once (resolved path tested and recorded before parse_text; parse_text only reachable through parse_file); all "
        "tables are per-instance and reset by clear(), which parse() calls on failure. Not decided: symlink/case aliasing of paths."
    )
    par = prog.cls(PAR, "Parser")
    m = prog.module(PAR)

    # ---- N shared namespace discipline ----------------------------------------------------------------------
    N = chk.rule("C12-N", "every store into a shared name table is preceded by check_duplicate_name(name, namespaces=<all five tables>)", 8,
                 "a handler that checks a subset lets two kinds share a name undetected")
    # sibling agreement of the namespace tuples
    for f in par.methods.values():
        for c, names, nm in dup_check_calls(f):
            if names is None:
                N.bad(fkey(f, c), where(f, c), "namespaces argument is not a literal tuple of table names")
                continue
            if set(names) & set(SHARED):
                N.decide(set(names) == set(SHARED), fkey(f, f"namespaces:{f.name}"), where(f, c), "checks all five shared tables",
                         f"{f.qual} checks only {names}; missing {sorted(set(SHARED) - set(names))}")

    def local_check_ok(f, fg, store_node, key_path):
        checks = [(c, names, nm) for c, names, nm in dup_check_calls(f) if names is not None and set(names) >= set(SHARED) and nm == key_path]
        cn = [n for n in fg.nodes if any(cc is c for cc in node_calls(n) for c, _, _ in checks)]
        return bool(cn) and not flow.must_precede(fg, cn, [store_node])

    for f in par.methods.values():
        fg = C.build(f.node)
        for table in SHARED:
            for n, t in table_stores(fg, table):
                key = path_of(t.slice)
                if key is None:
                    N.bad(fkey(f, n.ast), where(f, n.ast), f"store into self.{table} with a computed key `{norm(t.slice)}`")
                    continue
                if local_check_ok(f, fg, n, key):
                    N.ok(fkey(f, n.ast), where(f, n.ast), f"check_duplicate_name({key}, all five tables) dominates the store")
                    continue
                # indirect registrar: the key is a parameter and every caller checked it (or synthesises a per-id name)
                if key in f.params():
                    sites = cg.call_sites_of(f.key)
                    allok = bool(sites)
                    why = []
                    for cf, cc in sites:
                        b = callgraph.bind_args(f, cc, bound_method=True)
                        actual = b.get(key)
                        cfg_ = C.build(cf.node)
                        call_nodes = [x for x in cfg_.nodes if any(y is cc for y in node_calls(x))]
                        ap = path_of(actual) if actual is not None else None
                        if ap and call_nodes and local_check_ok(cf, cfg_, call_nodes[0], ap):
                            continue
                        # synthesised reserved name: f"_RESERVED_{id:06d}" with the same id passed as id=
                        defs = [d for d in (dataflow.definitions(cf.node, ap) if ap else []) if d[0] != "param"]
                        synth = False
                        if isinstance(actual, (ast.JoinedStr, ast.BinOp, ast.Call)):
                            defs = [("assign", actual)]  # the synthesised name is written in place
                        idarg_ = None
                        for a in cc.args[1:]:
                            if isinstance(a, ast.Call) and norm(a.func) == "dict":
                                idarg_ = next((path_of(k.value) for k in a.keywords if k.arg == "id"), None)
                        if len(defs) == 1 and isinstance(defs[0][1], ast.BinOp) and isinstance(defs[0][1].op, ast.Mod) and isinstance(defs[0][1].left, ast.Constant) \
                                and isinstance(defs[0][1].left.value, str):
                            # "_RESERVED_%06d" % id
                            fmt = defs[0][1].left.value
                            synth = fmt.startswith("_RESERVED_") and fmt.count("%") == 1 and fmt.rstrip()[-1] == "d" and idarg_ is not None and path_of(defs[0][1].right) == idarg_
                        if len(defs) == 1 and isinstance(defs[0][1], ast.Call) and isinstance(defs[0][1].func, ast.Attribute) and defs[0][1].func.attr == "format" \
                                and isinstance(defs[0][1].func.value, ast.Constant) and isinstance(defs[0][1].func.value.value, str) and len(defs[0][1].args) == 1:
                            fmt = defs[0][1].func.value.value
                            synth = fmt.startswith("_RESERVED_") and fmt.count("{") == 1 and idarg_ is not None and path_of(defs[0][1].args[0]) == idarg_
                        if len(defs) == 1 and isinstance(defs[0][1], ast.JoinedStr):
                            js = defs[0][1]
                            fv = [v for v in js.values if isinstance(v, ast.FormattedValue)]
                            lit = "".join(v.value for v in js.values if isinstance(v, ast.Constant))
                            idarg = None
                            for a in cc.args[1:]:
                                if isinstance(a, ast.Call) and norm(a.func) == "dict":
                                    idarg = next((path_of(k.value) for k in a.keywords if k.arg == "id"), None)
                            synth = lit.startswith("_RESERVED_") and len(fv) == 1 and path_of(fv[0].value) == idarg and idarg is not None
                        if not synth:
                            allok = False
                            why.append(f"{cf.qual}:{norm(cc)[:60]}")
                    N.decide(allok, fkey(f, n.ast), where(f, n.ast), f"indirect registrar: every caller checked `{key}` (or derives it injectively from the id)",
                             f"store into self.{table}[{key}] in {f.qual}: no duplicate-name check in " + ("; ".join(why) or "any caller"))
                else:
                    N.bad(fkey(f, n.ast), where(f, n.ast), f"store into self.{table}[{key}] without a dominating check_duplicate_name over the shared tables")
    # check_duplicate_name itself: compares against every entry of every namespace and raises
    cd = prog.func(PAR, "Parser.check_duplicate_name")
    # the scan may live in check_duplicate_name itself or in a helper it hands (name, namespaces) to
    ty = Types(prog)
    scan_units = [(cd, {p_: p_ for p_ in cd.params()})]
    for c_ in calls_in(cd.node):
        st_, fi_, _d = ty.callee(cd, c_)
        if fi_ is not None and fi_.module.name == PAR and prog.is_expanded_helper(fi_):
            b_ = callgraph.bind_args(fi_, c_, bound_method=isinstance(c_.func, ast.Attribute))
            scan_units.append((fi_, {p_: path_of(a_) for p_, a_ in b_.items() if path_of(a_)}))
    okcd, scan_fn, match_if = False, None, None
    for fu, binding in scan_units:
        for l1 in [n for n in walk_local(fu.node) if isinstance(n, ast.For) and isinstance(n.target, ast.Name) and binding.get(norm(n.iter)) == "namespaces"]:
            # `ns = getattr(self, namespace)` may name the table first
            tabs = {n.targets[0].id: norm(n.value) for n in l1.body if isinstance(n, ast.Assign) and len(n.targets) == 1 and isinstance(n.targets[0], ast.Name)}
            other = [n for n in l1.body if not (isinstance(n, ast.For) or (isinstance(n, ast.Assign) and len(n.targets) == 1 and isinstance(n.targets[0], ast.Name)
                                                                        and (norm(n.value) == f"getattr(self, {l1.target.id})" or isinstance(n.value, ast.Constant))))]
            def iter_text(n, tabs=tabs):
                t = norm(n.iter)
                for k_, v_ in tabs.items():
                    if t.startswith(k_ + "."):
                        t = v_ + t[len(k_):]
                return t

            for l2 in [n for n in l1.body if isinstance(n, ast.For) and isinstance(n.target, ast.Name) and not other
                       and iter_text(n) in (f"getattr(self, {l1.target.id}).values()", f"self.__dict__[{l1.target.id}].values()")]:
                ifs = [n for n in l2.body if isinstance(n, ast.If) and isinstance(n.test, ast.Compare) and len(n.test.ops) == 1 and isinstance(n.test.ops[0], ast.Eq)
                       and {binding.get(norm(n.test.left), norm(n.test.left)), binding.get(norm(n.test.comparators[0]), norm(n.test.comparators[0]))} == {"name", f"{l2.target.id}.name"} and not n.orelse]
                # nothing else in the two loops skips entries
                stray = [x for x in list(walk_local(l1)) if isinstance(x, (ast.Break, ast.Continue, ast.Return, ast.Raise)) and not any(a is i_ for i_ in ifs for a in ancestors(x))]
                if len(ifs) == 1 and not stray and len([n for n in l1.body if isinstance(n, ast.For)]) == 1 and len(l2.body) == 1:
                    okcd, scan_fn, match_if = True, fu, ifs[0]
    keyed = False
    if not okcd:
        # keyed form: `if getattr(self, namespace).get(name) is not None: raise` / `if name in table: raise`.  Equivalent to the
        # scan of every entry's .name exactly when every store into every shared table keys the object by its own name
        # (`self.T[k] = Kind(k, ...)` / `Kind(name=k, ...)`): checked for all stores below.
        key_is_name = True
        nst_ = 0
        for f_ in par.methods.values():
            fg_ = C.build(f_.node)
            for table in SHARED:
                for n_, t_ in table_stores(fg_, table):
                    nst_ += 1
                    k_ = path_of(t_.slice)
                    v_ = n_.ast.value
                    obj = v_
                    if isinstance(v_, ast.Name):  # obj = Kind(name, ...); self.T[name] = obj
                        ds_ = [d.value for d in walk_local(f_.node) if isinstance(d, ast.Assign) and len(d.targets) == 1 and path_of(d.targets[0]) == v_.id]
                        obj = ds_[0] if len(ds_) == 1 else None
                    named = isinstance(obj, ast.Call) and k_ is not None and (
                        any(kw.arg == "name" and path_of(kw.value) == k_ for kw in obj.keywords) or
                        (prog_field_index(prog, f_, obj, "name") is not None and len(obj.args) > prog_field_index(prog, f_, obj, "name")
                         and path_of(obj.args[prog_field_index(prog, f_, obj, "name")]) == k_))
                    if not named:
                        key_is_name = False
        for l1 in [n for n in walk_local(cd.node) if isinstance(n, ast.For) and isinstance(n.target, ast.Name) and norm(n.iter) == "namespaces"]:
            tabs = {path_of(n.targets[0] if isinstance(n, ast.Assign) else n.target): norm(n.value) for n in l1.body
                    if isinstance(n, (ast.Assign, ast.AnnAssign)) and n.value is not None and path_of(n.targets[0] if isinstance(n, ast.Assign) else n.target)}
            ifs_ = [n for n in l1.body if isinstance(n, ast.If)]
            rest = [n for n in l1.body if not isinstance(n, (ast.If, ast.Assign, ast.AnnAssign))]
            if len(ifs_) != 1 or rest or ifs_[0].orelse:
                continue
            t = ifs_[0].test
            txt = norm(t)
            for k_, v_ in tabs.items():  # `o = table.get(name)` / `if o is not None:` (a hoisted assignment expression)
                if txt == f"{k_} is not None":
                    txt = f"{v_} is not None"
            for k_, v_ in tabs.items():
                txt = txt.replace(f"{k_}.get(", f"{v_}.get(").replace(f" in {k_}", f" in {v_}")
            tab = f"getattr(self, {l1.target.id})"
            lookups = (f"{tab}.get(name) is not None", f"name in {tab}", f"(o := {tab}.get(name)) is not None")
            import re as _re
            ok_t = txt in lookups or bool(_re.fullmatch(r"\(\w+ := " + _re.escape(tab) + r"\.get\(name\)\) is not None", txt))
            stray = [x for x in walk_local(l1) if isinstance(x, (ast.Break, ast.Continue, ast.Return))]
            raises = isinstance(ifs_[0].body[-1], ast.Raise) and "DuplicateNameError" in norm(ifs_[0].body[-1])
            if ok_t and not stray and raises and key_is_name and nst_ >= 5:
                okcd, keyed = True, True
    if okcd and not keyed:
        hit = match_if.body[-1]
        raises_here = isinstance(hit, ast.Raise) and "DuplicateNameError" in norm(hit)
        if not raises_here:
            # the helper reports the match (a non-None value); the caller must raise for every non-None result
            okcd = isinstance(hit, ast.Return) and hit.value is not None and not (isinstance(hit.value, ast.Constant) and hit.value.value is None) and scan_fn is not cd
            if okcd:
                cg_ = C.build(cd.node)
                cgs_ = flow.guard_states(cg_)
                resv = [path_of(n.targets[0]) for n in walk_local(cd.node) if isinstance(n, ast.Assign) and isinstance(n.value, ast.Call) and ty.callee(cd, n.value)[1] is scan_fn]
                okcd = len(resv) == 1 and resv[0] is not None
                if okcd:
                    # every normal exit of check_duplicate_name implies the result was None
                    for e_ in cg_.pred[cg_.exit.id]:
                        if e_.kind == "exc":
                            continue
                        if guards.any_path_implies(cgs_.after_edge(e_), guards.parse(f"{resv[0]} is None")):
                            okcd = False
                    okcd = okcd and any(isinstance(s_, ast.Raise) and "DuplicateNameError" in norm(s_) for s_ in walk_local(cd.node))
    N.decide(okcd, fkey(cd, "exhaustive"), where(cd), "walks every namespace and every entry, raises DuplicateNameError on equality, no early exit",
             "check_duplicate_name no longer compares against every entry of every namespace")

    # ---- I id registries ----------------------------------------------------------------------------------------
    I = chk.rule("C12-I", "every store into message_ids / module_ids / host_ids is preceded by the whole-registry duplicate loop and the range test", 4,
                 "a skipped duplicate or range test lets two definitions share an id or an id leave its range")

    def validator_shape(f, table, err, value_name):
        """The whole-registry duplicate test of f, in any of its spellings, as the set of CFG edges that certify
        "no entry of self.<table> has this value":
          for x in self.T.values(): if V == x.value: raise E            -> the loop's exhaustion edge
          x = next((m for m in self.T.values() if V == m.value), None); if x is not None: raise E   -> the `x is None` edge
          if any(V == m.value for m in self.T.values()): raise E        -> the false edge
        and the range test (an ordering comparison on V guarding a raise of RTMASyntaxError)."""
        fg = C.build(f.node)
        cmf = guards.copy_map(f.node)
        res = {"loop": None, "range": None, "pass_edges": set(), "cfg": fg}
        for lp in walk_local(f.node):
            if isinstance(lp, ast.For) and norm(lp.iter) == f"self.{table}.values()" and isinstance(lp.target, ast.Name):
                x = lp.target.id
                early = [s for s in walk_local(lp) if isinstance(s, (ast.Break, ast.Continue, ast.Return))]
                tests = [s for s in lp.body if isinstance(s, ast.If)]
                for t in tests:
                    if isinstance(t.test, ast.Compare) and len(t.test.ops) == 1 and isinstance(t.test.ops[0], ast.Eq) and \
                            {norm(t.test.left), norm(t.test.comparators[0])} == {value_name, f"{x}.value"} and \
                            any(isinstance(s, ast.Raise) and err in norm(s) for s in t.body) and not early and t is lp.body[0]:
                        res["loop"] = lp
                        res["pass_edges"] |= {(n.id, "done") for n in fg.nodes if n.kind == "for" and n.ast is lp}

        def scans_table(comp) -> bool:
            """comprehension / generator over every entry of the table, selecting those whose .value equals V"""
            if not isinstance(comp, (ast.GeneratorExp, ast.ListComp, ast.SetComp)) or len(comp.generators) != 1:
                return False
            gen = comp.generators[0]
            if norm(gen.iter) != f"self.{table}.values()" or not isinstance(gen.target, ast.Name):
                return False
            x = gen.target.id
            eqs = [c for c in list(gen.ifs) + [comp.elt] if isinstance(c, ast.Compare) and len(c.ops) == 1 and isinstance(c.ops[0], ast.Eq)
                   and {norm(c.left), norm(c.comparators[0])} == {value_name, f"{x}.value"}]
            return len(eqs) == 1 and len(gen.ifs) <= 1 and (bool(gen.ifs) or eqs[0] is comp.elt)

        for n in walk_local(f.node):
            # x = next((m for m in T.values() if V == m.value), None)
            if isinstance(n, ast.Assign) and len(n.targets) == 1 and isinstance(n.targets[0], ast.Name) and isinstance(n.value, ast.Call) and isinstance(n.value.func, ast.Name) \
                    and n.value.func.id == "next" and len(n.value.args) == 2 and isinstance(n.value.args[1], ast.Constant) and n.value.args[1].value is None and scans_table(n.value.args[0]) \
                    and n.value.args[0].generators[0].ifs:
                xv = n.targets[0].id
                for t in [t for t in fg.nodes if t.kind == "test" and xv in flow.access_paths(t.ast)]:
                    for e in fg.succ[t.id]:
                        if e.cond is not None and guards.implies([(e.cond, e.pol)], guards.parse(f"{xv} is None")):
                            other = [e2 for e2 in fg.succ[t.id] if e2 is not e and e2.kind != "exc"]
                            if other and all(any(isinstance(s, ast.Raise) and err in norm(s) for s in walk_local(b)) for b in [fg.nodes[o.dst].ast for o in other] if b is not None):
                                res["pass_edges"].add((t.id, e.kind))
                                res["loop"] = res["loop"] or n
            # if any(V == m.value for m in T.values()): raise E
        for t in [t for t in fg.nodes if t.kind == "test"]:
            for c in [c for c in ast.walk(t.ast) if isinstance(c, ast.Call) and isinstance(c.func, ast.Name) and c.func.id == "any" and len(c.args) == 1 and scans_table(c.args[0])]:
                for e in fg.succ[t.id]:
                    if e.cond is not None and guards.implies([(e.cond, e.pol)], guards.parse(f"not {norm(c)}")):
                        other = [e2 for e2 in fg.succ[t.id] if e2 is not e and e2.kind != "exc"]
                        if other and all(any(isinstance(s, ast.Raise) and err in norm(s) for s in walk_local(b)) for b in [fg.nodes[o.dst].ast for o in other] if b is not None):
                            res["pass_edges"].add((t.id, e.kind))
                            res["loop"] = res["loop"] or c
        for t in walk_local(f.node):
            if isinstance(t, ast.If):
                tt = guards.subst(t.test, cmf)  # `in_core_range = value < 10 and value != 0` is looked through
                if value_name in flow.access_paths(tt) and any(isinstance(c, ast.Compare) and isinstance(c.ops[0], (ast.Lt, ast.Gt, ast.LtE, ast.GtE)) for c in ast.walk(tt)):
                    if any(isinstance(s, ast.Raise) and "RTMASyntaxError" in norm(s) for s in walk_local(t)):
                        res["range"] = t
        return res

    # the message id validator: the method of the parser that holds the whole-registry duplicate test on message_ids and the
    # range test for one of its parameters (validate_msg_id today; found by shape, so that a rename or a validator that also
    # registers the id - `register_msg_id` - is still recognised)
    vmi, vparam, shp = None, None, None
    for cand in par.methods.values():
        for p_ in [p for p in cand.params() if p != "self"]:
            sh_ = validator_shape(cand, "message_ids", "MessageIDError", p_)
            if sh_["loop"] is not None and sh_["range"] is not None and (vmi is None or cand.name == "validate_msg_id"):
                vmi, vparam, shp = cand, p_, sh_
    if vmi is None and "validate_msg_id" in par.methods:
        vmi = par.methods["validate_msg_id"]
        vparam = [p for p in vmi.params() if p != "self"][-1]
        shp = validator_shape(vmi, "message_ids", "MessageIDError", vparam)
    vname = vmi.name if vmi is not None else None
    if vmi is not None:
        I.decide(shp["loop"] is not None, fkey(vmi, "duplicate-loop"), where(vmi), "loop over all message_ids comparing .value, raising MessageIDError", "validate_msg_id lacks the whole-registry duplicate loop")
        I.decide(shp["range"] is not None, fkey(vmi, "range-test"), where(vmi), "range test raising RTMASyntaxError", "validate_msg_id lacks the range test")
    nstores = 0
    for f in par.methods.values():
        fg = C.build(f.node)
        for table, err in ID_TABLES.items():
            for n, t in table_stores(fg, table):
                nstores += 1
                val = n.ast.value
                vargs = [norm(a) for a in val.args] if isinstance(val, ast.Call) else []
                vcalls = [x for x in fg.nodes for c in node_calls(x) if vname and is_method_call(c, vname) and len(c.args) == 2] if table == "message_ids" and f is not vmi else []
                if vcalls:
                    okv = False
                    for x in vcalls:
                        c = [c for c in node_calls(x) if is_method_call(c, vname)][0]
                        if len(vargs) >= 2 and norm(c.args[1]) == vargs[1] and norm(c.args[0]) == vargs[0]:
                            okv = not flow.must_precede(fg, [x], [n])
                    I.decide(okv, fkey(f, n.ast), where(f, n.ast), "validate_msg_id(name, id) on the stored name/id dominates the store",
                             f"{f.qual} registers a message id without validate_msg_id on the same (name, id)")
                else:
                    # the tests live in the storing function itself (a validator that registers, or a validator the analysis
                    # expanded in place): they are about the value that is stored
                    vp = [p for p in f.params() if p != "self"][-1]
                    if table == "message_ids" and f is not vmi and len(vargs) >= 2:
                        vp = vargs[1]
                    shp = validator_shape(f, table, err, vp)
                    fg2 = shp["cfg"]
                    n2 = next((x for x in fg2.nodes if x.ast is n.ast and x.kind == n.kind), None)
                    rgn = [x for x in fg2.nodes if x.kind == "test" and shp["range"] is not None and x.ast is shp["range"].test]
                    okv = bool(shp["pass_edges"]) and bool(rgn) and n2 is not None and not flow.must_precede(fg2, rgn, [n2])
                    # the store is reachable only across an edge that certifies "no entry has this value"
                    if okv:
                        r = flow.reach(fg2, [fg2.entry.id], follow=lambda e: (e.src, e.kind) not in shp["pass_edges"])
                        okv = n2.id not in r
                    stored_val = any(vp in flow.access_paths(a) for a in (val.args if isinstance(val, ast.Call) else []))
                    I.decide(okv and stored_val, fkey(f, n.ast), where(f, n.ast), f"duplicate loop ({err}) and range test dominate the store of `{vp}`",
                             f"{f.qual} registers into {table} without the exhausted duplicate loop raising {err} / the range test on `{vp}`")
    if nstores < 3:  # one per registry (message ids may be stored by each handler or once by the validator)
        raise AnalysisError(f"anchor vanished: expected >= 3 id registry stores, found {nstores}")
    # no other writer of the id registries outside Parser methods
    for f in m.functions.values():
        if f.cls is par:
            continue
        for n in walk_local(f.node):
            if isinstance(n, ast.Assign) and any(isinstance(t, ast.Subscript) and (path_of(t.value) or "").split(".")[-1] in ID_TABLES for t in n.targets):
                I.bad(fkey(f, n), where(f, n), f"id registry written outside the Parser handlers in {f.qual}")

    # ---- B the range tests refuse exactly the ids outside the permitted ranges -------------------------------------------
    # The permitted ranges are RTMA's own (core definitions, the error texts of the three handlers):
    #   message / signal / reserved id: 0 .. MAX_MESSAGE_TYPES;  host id: 1 .. 32767;  module id: 10 .. 99 or >= 200 (0 = manager)
    # Each range test touches the id only through comparisons with integer constants, so evaluating it on the grid of all
    # constants +-1 decides its equivalence with the table (the non-numeric conjuncts - "not the core file", "core definitions
    # imported" - are taken as true: the case of a user file).  A vacuous test (`0 > id > MAX`) is found here.
    B = chk.rule("C12-B", "the range test of each id kind refuses exactly the ids outside the permitted range", 3,
                 "a range test that can never fire (or fires one off) lets an id outside its range compile")
    PERMITTED = {
        "message_ids": ("0 .. MAX_MESSAGE_TYPES", lambda v, K: 0 <= v <= K["MAX_MESSAGE_TYPES"]),
        "host_ids": ("1 .. 32767", lambda v, K: 1 <= v <= 32767),
        "module_ids": ("10 .. 99 or >= 200 (0: the manager itself)", lambda v, K: v == 0 or 10 <= v <= 99 or v >= 200),
    }
    from .mgr import const_resolver as _cres

    pres0 = _cres(prog, m)
    core_consts = prog.module_constants("pyrtma.core_defs")

    def pres(e_):
        r_ = pres0(e_)
        if not isinstance(r_, int) and isinstance(e_, ast.Name) and isinstance(core_consts.get(e_.id), int):
            return core_consts[e_.id]  # `from .core_defs import MAX_MESSAGE_TYPES` (inside a try block in the parser)
        return r_

    Kc = {"MAX_MESSAGE_TYPES": pres(ast.parse("MAX_MESSAGE_TYPES", mode="eval").body)}
    if not isinstance(Kc["MAX_MESSAGE_TYPES"], int):
        raise AnalysisError("anchor vanished: MAX_MESSAGE_TYPES is not a resolvable integer constant of the parser")

    class _Opaque(Exception):
        pass

    def ev_range(e, val, vname, cm_):
        if isinstance(e, ast.Constant) and isinstance(e.value, (int, bool)) and not isinstance(e.value, str):
            return e.value
        if isinstance(e, ast.Name) and e.id == vname:
            return val
        if isinstance(e, ast.Name) and e.id in cm_:
            return ev_range(cm_[e.id], val, vname, cm_)
        if isinstance(e, (ast.Name, ast.Attribute)):
            r_ = pres(e)
            if isinstance(r_, int):
                return r_
            raise _Opaque
        if isinstance(e, ast.UnaryOp) and isinstance(e.op, ast.Not):
            try:
                return not ev_range(e.operand, val, vname, cm_)
            except _Opaque:
                raise
        if isinstance(e, ast.UnaryOp) and isinstance(e.op, ast.USub):
            return -ev_range(e.operand, val, vname, cm_)
        if isinstance(e, ast.BinOp) and isinstance(e.op, (ast.Add, ast.Sub)):
            a_, b_ = ev_range(e.left, val, vname, cm_), ev_range(e.right, val, vname, cm_)
            return a_ + b_ if isinstance(e.op, ast.Add) else a_ - b_
        if isinstance(e, ast.BoolOp):
            vals = []
            for x_ in e.values:
                try:
                    vals.append(bool(ev_range(x_, val, vname, cm_)))
                except _Opaque:
                    vals.append(True if isinstance(e.op, ast.And) else False)  # a non-numeric conjunct holds / disjunct does not (user file)
            return all(vals) if isinstance(e.op, ast.And) else any(vals)
        if isinstance(e, ast.Compare):
            left = ev_range(e.left, val, vname, cm_)
            for op_, c_ in zip(e.ops, e.comparators):
                r_ = ev_range(c_, val, vname, cm_)
                ok_ = {ast.Lt: left < r_, ast.LtE: left <= r_, ast.Gt: left > r_, ast.GtE: left >= r_, ast.Eq: left == r_, ast.NotEq: left != r_}.get(type(op_))
                if ok_ is None:
                    raise _Opaque
                if not ok_:
                    return False
                left = r_
            return True
        raise _Opaque

    nB = 0
    for table_, (text_, allowed_) in PERMITTED.items():
        # the function holding the range test for this registry: the storing handler, or the message id validator
        holders = []
        for f_ in par.methods.values():
            cands_ = [p for p in f_.params() if p != "self"]
            # ... or the local that is stored (a validator expanded into the handler tests a local of the handler)
            for n_, t_ in table_stores(C.build(f_.node), table_):
                v_ = n_.ast.value
                for a_ in (v_.args if isinstance(v_, ast.Call) else []):
                    if isinstance(a_, ast.Name) and a_.id not in cands_:
                        cands_.append(a_.id)
            for p_ in cands_:
                sh_ = validator_shape(f_, table_, ID_TABLES[table_], p_)
                if sh_["range"] is not None:
                    stores_here = any(True for _ in table_stores(sh_["cfg"], table_))
                    holders.append((0 if (sh_["loop"] is not None or sh_["pass_edges"]) else (1 if stores_here or f_ is vmi else 2), f_, p_, sh_))
        holders = [h_ for h_ in holders if h_[0] < 2]
        if not holders:
            chk.defer_error(f"C12-B: no range test found for {table_}")
            continue
        _, f_, p_, sh_ = sorted(holders, key=lambda h_: h_[0])[0]
        cm_ = guards.copy_map(f_.node)
        # conditions on the way to the raise: the range `if` and the `if`s nested in it that enclose the raise
        rtest = sh_["range"]
        raises_ = [s_ for s_ in walk_local(rtest) if isinstance(s_, ast.Raise) and "RTMASyntaxError" in norm(s_)]
        conds = [rtest.test]
        for a_ in ancestors(raises_[0]):
            if a_ is rtest:
                break
            if isinstance(a_, ast.If) and any(x_ is raises_[0] for b_ in a_.body for x_ in ast.walk(b_)):
                conds.append(a_.test)
        grid = sorted({c_ + d_ for c_ in (0, 1, 10, 99, 100, 199, 200, 32767, 65535, Kc["MAX_MESSAGE_TYPES"], -2147483648, 2147483647) for d_ in (-1, 0, 1)})
        witness = None
        try:
            def cond_holds(c_, v_):
                try:
                    return bool(ev_range(c_, v_, p_, cm_))
                except _Opaque:
                    if p_ in flow.access_paths(guards.subst(c_, cm_)):
                        raise
                    return True  # a condition that does not mention the id ("not the core file", "core definitions imported"): the user-file case

            for v_ in grid:
                refused = all(cond_holds(c_, v_) for c_ in conds)
                if refused == allowed_(v_, Kc) and witness is None:
                    witness = (v_, refused)
        except _Opaque:
            witness = ("?", None)
        nB += 1
        B.decide(witness is None, fkey(f_, f"range:{table_}"), where(f_, rtest), f"refuses exactly the ids outside {text_}",
                 f"{f_.qual}: the range test `{norm(rtest.test)[:80]}` " + ("could not be evaluated over the integers" if witness and witness[0] == "?" else
                 (f"{'refuses' if witness[1] else 'accepts'} id {witness[0]}" if witness else "")) + f"; permitted: {text_}")

    # ---- R reserved ranges -------------------------------------------------------------------------------------------
    R = chk.rule("C12-R", "reserved ranges expand with inclusive end and every reserved id is registered through handle_signal", 3,
                 "an exclusive end leaves the last reserved id free; an unregistered id escapes conflict detection")
    hr = prog.func(PAR, "Parser.handle_reserve")
    rngs = [c for c in calls_in(hr.node) if isinstance(c.func, ast.Name) and c.func.id == "range"]
    okr = False
    if len(rngs) == 1 and len(rngs[0].args) == 2:
        a0, a1 = rngs[0].args
        sdef = dataflow.definitions(hr.node, path_of(a0)) if path_of(a0) else []
        okr = isinstance(a1, ast.BinOp) and isinstance(a1.op, ast.Add) and isinstance(a1.right, ast.Constant) and a1.right.value == 1 and isinstance(a1.left, ast.Name)
        if okr:
            edef = dataflow.definitions(hr.node, a1.left.id)
            okr = len(sdef) == 1 and len(edef) == 1 and "'start'" in norm(sdef[0][1]).replace('"', "'") and "'end'" in norm(edef[0][1]).replace('"', "'")
    R.decide(okr, fkey(hr, "range(start, end + 1)"), where(hr), "range(start, end + 1) over the two regex groups", "reserved range is not expanded as range(start, end + 1) of the parsed bounds")
    acc = None
    nested = False  # the accumulator holds one span (range / 1-tuple) per entry instead of the flat ids
    for c in calls_in(hr.node):
        if is_method_call(c, ("extend", "append")) and c.args and any(x is rngs[0] for x in ast.walk(c.args[0])) if rngs else False:
            acc = path_of(recv_of(c))
            nested = c.func.attr == "append"

    def iterates_acc(it):
        if not acc:
            return False
        if not nested:
            return path_of(it) == acc
        # chain.from_iterable(acc) / chain(*acc)
        if isinstance(it, ast.Call) and norm(it.func).split(".")[-2:] == ["chain", "from_iterable"] and len(it.args) == 1 and path_of(it.args[0]) == acc:
            return True
        return isinstance(it, ast.Call) and norm(it.func).split(".")[-1] == "chain" and len(it.args) == 1 and isinstance(it.args[0], ast.Starred) and path_of(it.args[0].value) == acc

    loops = [lp for lp in walk_local(hr.node) if isinstance(lp, ast.For) and iterates_acc(lp.iter)]
    okl = False
    if loops:
        lp = loops[-1]
        idv = path_of(lp.target)
        hs = [c for c in calls_in(lp) if is_method_call(c, "handle_signal")]
        uncond = hs and not any(isinstance(a, (ast.If, ast.Try)) for c in hs for a in ancestors(c) if any(x is lp for x in ancestors(a)))
        idpass = any(isinstance(a, ast.Call) and norm(a.func) == "dict" and any(k.arg == "id" and path_of(k.value) == idv for k in a.keywords) for c in hs for a in c.args)
        okl = bool(uncond) and idpass and not any(isinstance(s, (ast.Break, ast.Continue)) for s in walk_local(lp))
    R.decide(okl, fkey(hr, "register-every-id"), where(hr), "every collected id is registered through handle_signal(dict(id=id, ...))", "not every reserved id is registered through handle_signal")
    ints = [c for c in calls_in(hr.node) if is_method_call(c, "append") and path_of(recv_of(c)) == acc and c.args and not any(x is rngs[0] for x in ast.walk(c.args[0]))
            and (not nested or (isinstance(c.args[0], (ast.Tuple, ast.List)) and len(c.args[0].elts) == 1))] if rngs else []
    R.decide(bool(ints), fkey(hr, "single-ids"), where(hr), "single integer entries are collected too", "single integer reserved entries are not collected")

    # ---- D a file is read once ---------------------------------------------------------------------------------------------
    D = chk.rule("C12-D", "parse_file tests and records the resolved path before parse_text; parse_text is reachable only through parse_file", 4,
                 "a file parsed twice reports conflicts of a definition with itself")
    file_read_once(prog, cg, D)

    # the parser's notion of "current file" is restored on every normal exit (the module/host id range rules and all
    # error messages are keyed by it; a skipped repeat import must not leave the importer under another file's name)
    for fn in ("Parser.parse_file", "Parser.parse_options"):
        pf_ = prog.func(PAR, fn)
        pgx = C.build(pf_.node)
        sets = [n for n in pgx.nodes if n.kind == "stmt" and isinstance(n.ast, ast.Assign) and any(path_of(t) == "self.current_file" for t in n.ast.targets)]
        saved = [path_of(n.ast.targets[0]) for n in pgx.nodes if n.kind == "stmt" and isinstance(n.ast, ast.Assign) and norm(n.ast.value) == "self.current_file"]
        changes = [n for n in sets if norm(n.ast.value) not in saved]
        restores = [n for n in sets if norm(n.ast.value) in saved]
        esc = flow.must_follow(pgx, changes, restores, exits=("exit",)) if changes else []
        D.decide(bool(changes) and bool(restores) and not esc, fkey(pf_, "current_file-restored"), where(pf_), "self.current_file is restored on every normal exit",
                 f"{fn} can return normally with self.current_file still naming the file it was asked to parse (e.g. on the already-included skip path): later sections of the importing file are judged under the wrong file name")

    # ---- G one registry per parse ------------------------------------------------------------------------------------------------
    G = chk.rule("C12-G", "all registries are instance attributes reset by clear(); parse() clears on failure", 3,
                 "state leaking between parses invents conflicts")
    init, clr = par.methods["__init__"], par.methods["clear"]

    def containers(f):
        out = set()
        for n in walk_local(f.node):
            t = None
            if isinstance(n, ast.Assign) and len(n.targets) == 1:
                t, v = n.targets[0], n.value
            elif isinstance(n, ast.AnnAssign) and n.value is not None:
                t, v = n.target, n.value
            if t is not None and isinstance(t, ast.Attribute) and path_of(t.value) == "self":
                if isinstance(v, (ast.Dict, ast.List)) or (isinstance(v, ast.Call) and norm(v.func) in ("dict", "list", "set")):
                    out.add(t.attr)
        return out

    ci, cc_ = containers(init), containers(clr)
    G.decide(ci == cc_ and len(ci) >= 12, fkey(clr, "resets-every-table"), where(clr), f"clear() resets the same {len(ci)} containers __init__ creates",
             f"clear() and __init__ disagree on containers: only in __init__ {sorted(ci - cc_)}, only in clear {sorted(cc_ - ci)}")
    cls_level = [k for k, v in par.class_consts.items() if isinstance(v, (ast.Dict, ast.List, ast.Set)) or (isinstance(v, ast.Call) and norm(v.func) in ("dict", "list", "set", "defaultdict"))]
    # a class-level table that is only ever read (a constant mapping) is shared harmlessly; one that the parser writes to
    # (or that shadows a registry) is state surviving from one Parser to the next
    MUTATORS_ = {"append", "extend", "insert", "add", "update", "setdefault", "pop", "popitem", "clear", "remove", "discard", "sort"}

    def written(k):
        for f_ in m.functions.values():
            for n_ in walk_local(f_.node):
                if isinstance(n_, ast.Call) and isinstance(n_.func, ast.Attribute) and n_.func.attr in MUTATORS_ and (path_of(n_.func.value) or "").split(".")[-1] == k:
                    return True
                if isinstance(n_, (ast.Assign, ast.AugAssign, ast.Delete)):
                    for t_ in (n_.targets if isinstance(n_, (ast.Assign, ast.Delete)) else [n_.target]):
                        if isinstance(t_, ast.Subscript) and (path_of(t_.value) or "").split(".")[-1] == k:
                            return True
        return False

    cls_level = [k for k in cls_level if k in ci or k in cc_ or written(k)]
    G.decide(not cls_level, f"{PAR}::Parser|no-class-level-registry", f"{m.rel}:{par.node.lineno}", "no class-level (shared) container", f"class-level containers shared between Parser instances: {cls_level}")
    pa = prog.func(PAR, "Parser.parse")
    okp = False
    for t in walk_local(pa.node):
        if isinstance(t, ast.Try):
            for h in t.handlers:
                if h.type is not None and norm(h.type) in ("Exception", "BaseException") and any(is_method_call(c, "clear") for s in h.body for c in calls_in(s)) and any(isinstance(s, ast.Raise) for s in h.body):
                    okp = True
    G.decide(okp, fkey(pa, "clears-on-failure"), where(pa), "parse() clears and re-raises on failure", "parse() does not clear the registries when parsing fails")
    chk.units.update({"id_registry_stores": nstores})
