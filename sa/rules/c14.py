"""C14 - undeliverable messages are reported, not silently lost (DESIGN §2 C14)."""
from __future__ import annotations

import ast

from .. import callgraph, cfg as C, flow, guards
from ..program import AnalysisError, Program, norm, walk_local, ancestors
from ..report import Check
from ..types import Types
from ..util import calls_in, fkey, is_method_call, node_calls, path_of, recv_of, stores_to_attr, where
from .mgr import iterates_loggers, module_writers, comprehension_facts, MGR, CORE, const_resolver, self_call
from .c01 import recipient_sends


def conn_error_handlers(prog, ty, f):
    """[(try stmt, handler, send call, recipient path)] for try blocks in f whose body sends to a Module."""
    mc = prog.cls(MGR, "Module")
    out = []
    for t in walk_local(f.node):
        if not isinstance(t, ast.Try):
            continue
        sends = []
        for st in t.body:
            for c in calls_in(st):
                if is_method_call(c, module_writers(prog)):
                    rt = ty.expr(f, recv_of(c))
                    if rt.kind == "cls" and rt.cls is mc:
                        sends.append(c)
        if not sends:
            continue
        out.append((t, sends))
    return out


def catches_conn_error(h: ast.ExceptHandler) -> bool:
    if h.type is None:
        return True
    ts = h.type.elts if isinstance(h.type, ast.Tuple) else [h.type]
    return any(norm(x).split(".")[-1] in ("ConnectionError", "OSError", "Exception", "BaseException", "IOError", "socket.error", "error") for x in ts)


def run(prog: Program, chk: Check):
    ty = Types(prog)
    cg = callgraph.get(prog)
    chk.explanation = (
        "C14 decided on forward_message's per-subscriber case split and on the write-failure handlers: every path through one "
        "iteration sends, reports (send_failed_message) or is ineligible by the destination filter; all write-failure handlers "
        "remove the module and report with the failed recipient and the original header; not-ready loggers are waited for with a "
        "blocking select and only non-loggers are dropped; the recursion guard covers FAILED_MESSAGE and every RTMA_LOG* constant; "
        "the notice carries the recipient id and a full header copy. Not decided: which sockets the OS reports writable."
    )
    fm = prog.func(MGR, "MessageManager.forward_message")
    g, sends = recipient_sends(prog, ty, fm)
    if not sends:
        raise AnalysisError("anchor vanished: no recipient send in forward_message")
    res = const_resolver(prog, fm.module)
    cm = guards.copy_map(fm.node)
    consts = prog.module_constants(CORE)
    hdr_p = next(p for p in fm.params() if ty.locals_of(fm).get(p) is not None and ty.locals_of(fm)[p].kind == "cls"
                 and "MessageHeader" in prog.base_names(ty.locals_of(fm)[p].cls))
    fold = lambda facts: [(guards.fold_consts(guards.subst(e, cm), res), pol) for e, pol in facts]

    # ---- B no silent branch ------------------------------------------------------------------------
    B = chk.rule("C14-B", "every path through one subscriber iteration sends, reports, or is ineligible by the destination filter", 3,
                 "an eligible subscriber that is neither sent to nor reported is a silent loss")
    loops = {}
    for n, c, rv in sends:
        lp = next((a for a in ancestors(c) if isinstance(a, (ast.For, ast.While))), None)
        if lp is not None:
            loops.setdefault(id(lp), (lp, []))[1].append((n, c, rv))
    if not loops:
        raise AnalysisError("anchor vanished: recipient sends are not inside a loop")
    is_report = lambda n: any(self_call("send_failed_message")(c) for c in node_calls(n))
    for lp, lsends in loops.values():
        rv = lsends[0][2]
        head = next(n for n in g.nodes if n.kind in ("for", "test") and (n.ast is lp or n.ast is getattr(lp, "test", None)))
        send_ids = {n.id for n, _, _ in lsends}
        rep_ids = {n.id for n in g.nodes if is_report(n)}
        done = send_ids | rep_ids
        # drop the normal out-edges of completed sends / reports: what still reaches the loop head is unsent + unreported
        ef = lambda e: not (e.src in done and e.kind != "exc")
        gs = flow.guard_states(g, edge_filter=ef)
        # ineligible = excluded by the destination filter, or no longer connected (removed earlier in this very delivery)
        goal_inelig = guards.parse(f"not ({hdr_p}.dest_mod_id == 0 or {rv}.mod_id == {hdr_p}.dest_mod_id or {rv}.is_logger) or {rv}.conn not in self.modules")
        body_ids = {n.id for n in g.nodes if n.ast is not None and any(a is lp for a in ancestors(n.ast))}
        nback = 0
        for e in g.pred[head.id]:
            if e.src not in body_ids and not (g.nodes[e.src].kind in ("join", "with_exit", "dispatch")):
                continue
            if e.src == g.entry.id:
                continue
            paths = gs.after_edge(e) if ef(e) else []
            if not paths:
                continue
            # paths that did not come through this iteration's body are not of interest: they carry no body fact;
            # the loop-entry edge comes from outside the body and was skipped above
            nback += 1
            fp = [fold(list(p) + comprehension_facts(fm.node, rv)) for p in paths]
            bad = guards.any_path_implies(fp, goal_inelig)
            B.decide(not bad, fkey(fm, f"silent-path-from:{norm(g.nodes[e.src].ast)[:70] if g.nodes[e.src].ast is not None else g.nodes[e.src].kind}"),
                     where(fm, g.nodes[e.src].ast if g.nodes[e.src].ast is not None else lp),
                     "unsent and unreported only when the destination filter excludes the subscriber",
                     "an iteration can end without send or FAILED_MESSAGE although the subscriber is eligible; guards on that path: "
                     + (", ".join(("" if pol else "not ") + norm(x) for x, pol in fp[bad[0]]) if bad else ""))
        # exceptional escapes: a raise out of the loop body after a failed send must not skip the report
        B.decide(nback >= 1, fkey(fm, "iteration-paths"), where(fm, lp), f"{nback} unsent/unreported path class(es) examined", "no iteration path found")
        # each of the three readiness cases reaches a send or a report
        for n, c, _ in lsends:
            B.ok(fkey(fm, c), where(fm, c), "send branch")
        drop = [n for n in g.nodes if n.id in rep_ids and n.id in body_ids and not any(isinstance(a, ast.ExceptHandler) for a in ancestors(n.ast))]
        for n in drop:
            B.ok(fkey(fm, n.ast), where(fm, n.ast), "drop branch reports")

    # ---- H sibling handlers agree -------------------------------------------------------------------------
    H = chk.rule("C14-H", "every write-failure handler removes the failed recipient and reports it with the original header", 3,
                 "a handler that forgets the report loses the message silently; one naming another module misreports")
    mm = prog.cls(MGR, "MessageManager")
    for f in mm.methods.values():
        for t, tsends in conn_error_handlers(prog, ty, f):
            hs = [h for h in t.handlers if catches_conn_error(h)]
            if not hs:
                H.bad(fkey(f, tsends[0]), where(f, tsends[0]), f"send to a module in {f.qual} has no ConnectionError handler")
                continue
            c0 = tsends[0]
            rcp = path_of(recv_of(c0))
            # the header being delivered: the send's header argument, or - for a writer that is handed an assembled frame -
            # the enclosing function's MessageHeader parameter
            hargs = [a for a in c0.args if ty.expr(f, a).kind == "cls" and "MessageHeader" in prog.base_names(ty.expr(f, a).cls)]
            fhp = [q for q in f.params() if ty.locals_of(f).get(q) is not None and ty.locals_of(f)[q].kind == "cls" and "MessageHeader" in prog.base_names(ty.locals_of(f)[q].cls)]
            hdr = path_of(hargs[0]) if hargs else (fhp[0] if fhp else (path_of(c0.args[0]) if c0.args else None))
            for h in hs:
                calls = [c for st in h.body for c in calls_in(st)]
                rm = [c for c in calls if (self_call("remove_module")(c) or self_call("disconnect_module")(c)) and c.args and path_of(c.args[0]) == rcp]
                rp = [c for c in calls if self_call("send_failed_message")(c) and len(c.args) >= 2 and path_of(c.args[0]) == rcp and path_of(c.args[1]) == hdr]
                H.decide(bool(rm) and bool(rp), fkey(f, f"handler:{norm(c0)}"), where(f, h),
                         f"handler removes `{rcp}` and reports it with `{hdr}`",
                         f"write-failure handler in {f.qual} lacks " + " and ".join(x for x, ok in (("remove_module(%s)" % rcp, rm), ("send_failed_message(%s, %s, ...)" % (rcp, hdr), rp)) if not ok))
    # sends to modules outside any try
    for f in mm.methods.values():
        for c in calls_in(f.node):
            if is_method_call(c, module_writers(prog)):
                rt = ty.expr(f, recv_of(c))
                if rt.kind == "cls" and rt.cls.name == "Module":
                    tr = [a for a in ancestors(c) if isinstance(a, ast.Try) and any(c in calls_in(st) for st in a.body)]
                    if not tr:
                        H.bad(fkey(f, c), where(f, c), f"send to a module outside any write-failure handler in {f.qual}")

    # ---- L loggers are waited for --------------------------------------------------------------------------------
    L = chk.rule("C14-L", "a not-ready logger is waited for with a blocking select; only non-loggers are dropped", 3,
                 "skipping a logger loses the message for the log; dropping must be confined to non-loggers")
    lg_hosts = [f_ for f_ in mm.methods.values() if f_ is not fm and any(isinstance(n_, ast.For) and iterates_loggers(f_.node, n_) for n_ in walk_local(f_.node))]
    if not lg_hosts:
        raise AnalysisError("anchor vanished: no loop over self.logger_modules in the manager (logger fan-out)")
    for f in [fm] + lg_hosts:
        gg, ss = recipient_sends(prog, ty, f)
        if f is not fm:  # only the fan-out itself: sends inside the loop over the loggers
            ss = [(n_, c_, rv_) for n_, c_, rv_ in ss if any(isinstance(a_, ast.For) and iterates_loggers(f.node, a_) for a_ in ancestors(c_))]
        ggs = flow.guard_states(gg)
        lcm = guards.copy_map(f.node)  # `writable = module.conn in self.wlist; if writable:` counts as the readiness test
        for n, c, rv in ss:
            ready = guards.parse(f"{rv}.conn in self.wlist")
            # edges that establish readiness are removed: what remains are the not-known-ready paths
            def not_ready_edge(e, ready=ready):
                return not (e.cond is not None and guards.implies([(guards.subst(e.cond, lcm), e.pol)], ready))

            def is_wait(m, rv=rv):
                for cc in node_calls(m):
                    if norm(cc.func) == "select.select" and len(cc.args) >= 2:
                        w = cc.args[1]
                        tm = cc.args[3] if len(cc.args) >= 4 else None
                        for kw in cc.keywords:
                            if kw.arg == "timeout":
                                tm = kw.value
                        blocking = tm is None or (isinstance(tm, ast.Constant) and tm.value is None)
                        if isinstance(w, (ast.List, ast.Tuple)) and [path_of(x) for x in w.elts] == [f"{rv}.conn"] and blocking:
                            return True
                return False

            r = flow.reach(gg, [gg.entry.id], follow=not_ready_edge)
            if n.id not in r:
                L.ok(fkey(f, c), where(f, c), "send only reachable for a ready connection")
                continue
            # path facts over the graph without the edges leaving a blocking select: every way of reaching the send that did
            # not wait must have readiness established (also through a flag: `deliver = ...` / `if deliver:`)
            wait_ids = {m.id for m in gg.nodes if is_wait(m)}
            gnw = flow.guard_states(gg, edge_filter=lambda e, wait_ids=wait_ids: e.src not in wait_ids)
            pnw = [[(guards.subst(e_, lcm), pol_) for e_, pol_ in p] for p in gnw.at(n)]
            unwaited = [p for p in pnw if guards.satisfiable(p) and not guards.implies(p, ready)]
            L.decide(not unwaited, fkey(f, c), where(f, c), "not-ready path passes select.select([], [conn], [], None) before the send",
                     f"`{norm(c)}` reachable for a not-ready connection without a blocking select on it")
            if f is fm:
                paths = [[(guards.subst(e_, lcm), pol_) for e_, pol_ in p] for p in ggs.at(n)]
                paths = [p for p in paths if not guards.implies(p, ready)]
                badp = guards.any_path_implies(paths, guards.parse(f"{rv}.is_logger"))
                L.decide(not badp, fkey(f, f"not-ready-send-is-logger:{norm(c)}"), where(f, c), "only loggers are sent to when not ready",
                         "a not-ready non-logger can be written to (would block the manager)")
    # drop branch only for non-loggers
    gs0 = flow.guard_states(g)
    for n in g.nodes:
        if is_report(n) and not any(isinstance(a, ast.ExceptHandler) for a in ancestors(n.ast)):
            rc = [c for c in node_calls(n) if self_call("send_failed_message")(c)][0]
            rv = path_of(rc.args[0]) if rc.args else "module"
            badp = guards.any_path_implies(gs0.at(n), guards.parse(f"not {rv}.is_logger"))
            L.decide(not badp, fkey(fm, f"drop-only-non-logger:{norm(rc)}"), where(fm, rc), "drop branch is reachable only for non-loggers",
                     "a logger can be dropped instead of waited for")

    # ---- G recursion guard --------------------------------------------------------------------------------------------
    G = chk.rule("C14-G", "send_failed_message does nothing for FAILED_MESSAGE and every RTMA_LOG* type", 7,
                 "a failure notice about a failure notice or a log message recurses / produces further notices")
    sf = prog.func(MGR, "MessageManager.send_failed_message")
    sg = C.build(sf.node)
    sgs = flow.guard_states(sg)
    scm = guards.copy_map(sf.node)
    sres = const_resolver(prog, sf.module)
    shdr = next(p for p in sf.params() if ty.locals_of(sf).get(p) is not None and ty.locals_of(sf)[p].kind == "cls"
                and "MessageHeader" in prog.base_names(ty.locals_of(sf)[p].cls))
    required = {k: v for k, v in consts.items() if k == "MT_FAILED_MESSAGE" or k.startswith("MT_RTMA_LOG")}
    if len(required) < 2:
        raise AnalysisError("anchor vanished: MT_FAILED_MESSAGE / MT_RTMA_LOG* constants not found in core_defs")
    effects = [n for n in sg.nodes if n.id in sg.reachable_from_entry() and any(self_call("forward_message")(c) or self_call("send_message")(c) for c in node_calls(n))]
    if not effects:
        raise AnalysisError("anchor vanished: send_failed_message publishes nothing")
    for name, v in sorted(required.items()):
        goal = guards.parse(f"not ({shdr}.msg_type == {v})")
        bad = False
        for n in effects:
            paths = [[(guards.fold_consts(guards.subst(e, scm), sres), pol) for e, pol in p] for p in sgs.at(n)]
            if guards.any_path_implies(paths, goal):
                bad = True
        G.decide(not bad, fkey(sf, f"guard:{name}"), where(sf), f"{name} is excluded before anything is published",
                 f"a failed {name} ({v}) still produces a FAILED_MESSAGE (recursion guard does not cover it)")

    # every other way out of send_failed_message passes the publication: an early return for any other reason loses the notice
    # for whoever would have received it (subscribers to FAILED_MESSAGE *and* to ALL_MESSAGE_TYPES)
    pub_ids = {n.id for n in effects}
    sgs2 = flow.guard_states(sg, edge_filter=lambda e: not (e.src in pub_ids and e.kind != "exc"))
    unpublished = [p for e in sg.pred[sg.exit.id] if e.src not in pub_ids for p in sgs2.after_edge(e)]
    unpublished = [[(guards.fold_consts(guards.subst(e, scm), sres), pol) for e, pol in p] for p in unpublished]
    in_guard = guards.parse(" or ".join(f"{shdr}.msg_type == {v}" for v in sorted(set(required.values()))))
    all_types = consts.get("ALL_MESSAGE_TYPES")
    nobody = guards.parse(f"not self.subscriptions[{consts.get('MT_FAILED_MESSAGE')}] and not self.subscriptions[{all_types}]")
    loose = [p for p in unpublished if guards.any_path_implies([p], in_guard) and guards.any_path_implies([p], nobody)]
    G.decide(not loose, fkey(sf, "published-unless-guarded"), where(sf), f"{len(unpublished)} way(s) out without publishing, each for a guarded type (or with no possible recipient)",
             "send_failed_message can return without publishing the notice for a type outside the recursion guard; guards on that path: "
             + (", ".join(("" if pol else "not ") + norm(x) for x, pol in loose[0]) if loose else ""))

    # ---- N notice contents -------------------------------------------------------------------------------------------------
    N = chk.rule("C14-N", "the notice names the failed subscriber, copies every header field, and is published as MT_FAILED_MESSAGE to everyone", 4,
                 "subscribers to FAILED_MESSAGE rely on dest_mod_id and the original type/source/destination")
    env = ty.locals_of(sf)
    dvars = [k for k, t in env.items() if t.kind == "cls" and t.cls.name == "MDF_FAILED_MESSAGE"]
    mparam = next((p for p in sf.params() if env.get(p) is not None and env[p].is_cls("Module")), None)
    if not dvars and mparam is not None:
        shared_ = [c_ for c_ in calls_in(sf.node) if self_call("forward_message")(c_) and len(c_.args) == 3 and (path_of(c_.args[2]) or "").startswith("self.")]
        if shared_:
            # the notice is assembled in an object owned by the manager: delivering it can fail too, and the nested report then
            # rewrites the very object that is being sent to the remaining recipients
            N.bad(fkey(sf, "notice-is-per-failure"), where(sf, shared_[0]), f"send_failed_message publishes the shared object `{path_of(shared_[0].args[2])}` (and header `{path_of(shared_[0].args[1])}`) "
                  "instead of a notice built for this failure: a failure met while the notice is delivered refills it mid fan-out")
            chk.units.update({"recipient_send_sites": len(sends), "required_guard_types": sorted(required)})
            return
    if not dvars or mparam is None:
        raise AnalysisError("anchor vanished: MDF_FAILED_MESSAGE local / Module parameter in send_failed_message")
    dv = dvars[0]
    st = [n for n in walk_local(sf.node) if isinstance(n, ast.Assign) and any(isinstance(t, ast.Attribute) and t.attr == "dest_mod_id" and path_of(t.value) == dv for t in n.targets)]
    N.decide(len(st) == 1 and norm(st[0].value) == f"{mparam}.mod_id", fkey(sf, "data.dest_mod_id"), where(sf),
             "notice names the failed subscriber", f"{dv}.dest_mod_id is " + ("; ".join(norm(x) for x in st) or "never set"))
    # header copy: loop over all _fields_ with setattr(getattr) or explicit stores of the key fields
    copied_all = False
    for lp in walk_local(sf.node):
        if isinstance(lp, ast.For) and norm(lp.iter) == f"{dv}.msg_header._fields_":
            tgt = lp.target.elts[0] if isinstance(lp.target, (ast.Tuple, ast.List)) else lp.target
            tn = tgt.id if isinstance(tgt, ast.Name) else None
            if len(lp.body) >= 1 and not lp.orelse:
                filt = [s for s in lp.body if isinstance(s, (ast.If, ast.Continue, ast.Break, ast.Return))]
                for c in calls_in(lp):
                    if isinstance(c.func, ast.Name) and c.func.id == "setattr" and len(c.args) == 3 and path_of(c.args[0]) == f"{dv}.msg_header" \
                            and path_of(c.args[1]) == tn and norm(c.args[2]) == f"getattr({shdr}, {tn})" and not filt:
                        copied_all = True
    explicit = {t.attr for n in walk_local(sf.node) if isinstance(n, ast.Assign) for t in n.targets
                if isinstance(t, ast.Attribute) and path_of(t.value) == f"{dv}.msg_header" and norm(n.value) == f"{shdr}.{t.attr}"}
    need = {"msg_type", "src_mod_id", "dest_mod_id"}
    N.decide(copied_all or need <= explicit, fkey(sf, "header-copy"), where(sf), "embedded header copies every field of the failed header",
             "embedded msg_header is not filled from the failed header (unfiltered loop over _fields_ with setattr/getattr, or explicit stores of msg_type/src_mod_id/dest_mod_id)")
    fw = [c for c in calls_in(sf.node) if self_call("forward_message")(c)]
    okpub = False
    if len(fw) == 1 and len(fw[0].args) == 3:
        oh, pd = path_of(fw[0].args[1]), path_of(fw[0].args[2])
        tstores = [n for n in walk_local(sf.node) if isinstance(n, ast.Assign) for t in n.targets if isinstance(t, ast.Attribute) and t.attr == "msg_type" and path_of(t.value) == oh]
        dstores = [n for n in walk_local(sf.node) if isinstance(n, ast.Assign) for t in n.targets if isinstance(t, ast.Attribute) and t.attr == "dest_mod_id" and path_of(t.value) == oh]
        okpub = pd == dv and len(tstores) == 1 and sres(tstores[0].value) == consts.get("MT_FAILED_MESSAGE") and \
            all(isinstance(n.value, ast.Constant) and n.value.value == 0 for n in dstores) and oh != shdr
        # "to everyone": the notice's own header is a fresh one (destination fields 0) - a header started as a copy of the failed
        # one inherits its dest_mod_id / dest_host_id unless both are reset, and the notice about a directed message then goes
        # to that destination only
        odefs = [n.value for n in walk_local(sf.node) if isinstance(n, ast.Assign) and any(path_of(t) == oh for t in n.targets)]
        fresh = len(odefs) == 1 and isinstance(odefs[0], ast.Call) and not odefs[0].args and not odefs[0].keywords
        # ... built with the manager's configured header class: the notice travels on connections framed with that layout
        N.decide(len(odefs) == 1 and isinstance(odefs[0], ast.Call) and norm(odefs[0].func) in ("self.header_cls", "self._header_cls"), fkey(sf, "notice-header-layout"), where(sf),
                 "the notice header is an instance of self.header_cls", "the FAILED_MESSAGE header is not built from the manager's configured header class: "
                 + ("; ".join(norm(o)[:60] for o in odefs) or "no construction found") + " (with the timecode layout every receiver of the notice loses frame sync)")
        if okpub and not fresh:
            zeroed = {t.attr for n in walk_local(sf.node) if isinstance(n, ast.Assign) and isinstance(n.value, ast.Constant) and n.value.value == 0
                      for t in n.targets if isinstance(t, ast.Attribute) and path_of(t.value) == oh}
            okpub = {"dest_mod_id", "dest_host_id"} <= zeroed
    N.decide(okpub, fkey(sf, "published-as-failed-message"), where(sf), "published through forward_message as MT_FAILED_MESSAGE, destination 0, with the notice payload",
             "the notice is not published as MT_FAILED_MESSAGE/broadcast with the MDF_FAILED_MESSAGE payload on a fresh header")
    ts = [n for n in walk_local(sf.node) if isinstance(n, ast.Assign) for t in n.targets if isinstance(t, ast.Attribute) and t.attr == "num_data_bytes"]
    N.decide(len(ts) == 1 and norm(ts[0].value) in (f"ctypes.sizeof({dv})", f"{dv}.type_size"), fkey(sf, "notice-length"), where(sf),
             "declared length is the notice size", "notice header length not taken from the notice payload")
    chk.units.update({"recipient_send_sites": len(sends), "required_guard_types": sorted(required)})
