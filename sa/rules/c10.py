"""C10 - serialisation round trips (DESIGN §2 C10): the three clauses with a code-shape core.

The headline clause (bytes -> dict/JSON -> bytes is the identity for every value) is a statement about
values and is NOT decided here."""
from __future__ import annotations

import ast

from .. import cfg as C, flow, guards
from ..program import AnalysisError, Program, norm, walk_local
from ..report import Check
from ..util import calls_in, fkey, is_method_call, node_calls, path_of, recv_of, where
from .c09 import is_stub

MB = "pyrtma.message_base"
MS = "pyrtma.message"
SHARING = {"from_buffer", "cast", "pointer", "byref", "addressof", "memoryview", "POINTER"}


def chain_cases(stmts, var_hint=None):
    """Flatten an if/elif/else chain into [(test text | 'else', body)]."""
    out = []
    ifs = [s for s in stmts if isinstance(s, ast.If)]
    if not ifs:
        return out
    cur = ifs[0]
    while True:
        out.append((norm(cur.test), cur.body))
        if len(cur.orelse) == 1 and isinstance(cur.orelse[0], ast.If):
            cur = cur.orelse[0]
        else:
            if cur.orelse:
                out.append(("else", cur.orelse))
            break
    return out


class _Canon(ast.NodeTransformer):
    def __init__(self, mapping):
        self.mapping = mapping

    def visit_Name(self, n):
        return ast.copy_location(ast.Name(id=self.mapping.get(n.id, n.id), ctx=n.ctx), n)


def canon_loop(lp: ast.For):
    """Alpha-normalised view of a field loop: loop targets become $f0, $f1, ...; the local derived from the field's
    name (first top-level assignment of the body that reads $f0) becomes $name.  Returns (mapping, name-derivation text)."""
    import copy
    tg = lp.target.elts if isinstance(lp.target, (ast.Tuple, ast.List)) else [lp.target]
    mapping = {}
    for i, t in enumerate(tg):
        t = t.value if isinstance(t, ast.Starred) else t
        if isinstance(t, ast.Name):
            mapping[t.id] = f"$f{i}"
    deriv = None
    first = next((t.id for t in tg if isinstance(t, ast.Name)), None)
    for st in lp.body:
        if isinstance(st, ast.Assign) and len(st.targets) == 1 and isinstance(st.targets[0], ast.Name) and first and any(isinstance(x, ast.Name) and x.id == first for x in ast.walk(st.value)):
            deriv = norm(_Canon(mapping).visit(copy.deepcopy(st.value)))
            mapping[st.targets[0].id] = "$name"
            break
    return mapping, deriv


def canon_cases(stmts, mapping):
    import copy
    return [((norm(_Canon(mapping).visit(copy.deepcopy(ast.parse(t, mode="eval").body))) if t != "else" else t), b) for t, b in chain_cases(stmts)]


def field_loop(f):
    for n in walk_local(f.node):
        if isinstance(n, ast.For) and norm(n.iter).endswith("._fields_"):
            return n
    raise AnalysisError(f"anchor vanished: loop over _fields_ in {f.key}")


def run(prog: Program, chk: Check):
    chk.explanation = (
        "C10: decided clauses only - (C) every copy() builds its result exclusively with from_buffer_copy / constructors over copies, "
        "never a storage-sharing primitive; (V) in Message.from_json the data decode is dominated by version == 0 or version == local "
        "type_hash, with the class looked up from the decoded header's msg_type; (S) the per-field case analysis of the dict encoder and "
        "decoder agree (same ordered tests, encoder-only cases limited to the int-list producing byte cases, JSON encoder covers bytes / "
        "ctypes arrays / nested messages). NOT decided: byte-for-byte identity of the round trip for every value (a statement about values)."
    )
    chk.assumptions += ["ctypes from_buffer_copy copies (platform)", "round-trip identity over values is not claimed by this check"]

    # ---- C copy shares no storage ------------------------------------------------------------------------
    Cc = chk.rule("C10-C", "copy() builds its result only from from_buffer_copy(...) (and constructors over such copies)", 2,
                  "from_buffer / cast / returning the argument would alias the source's storage")
    ncopy = 0
    from ..types import Types
    tyc = Types(prog)
    for modname in (MB, MS, "pyrtma.header", "pyrtma.message_data"):
        m = prog.modules.get(modname)
        if m is None:
            continue
        for f in m.functions.values():
            if f.name != "copy" or f.cls is None:
                continue
            ncopy += 1
            params = [p for p in f.params() if p not in ("self", "cls")]
            rets = [n for n in walk_local(f.node) if isinstance(n, ast.Return) and n.value is not None]
            good = bool(rets)
            why = []

            def ok_expr(e):
                if isinstance(e, ast.Call):
                    if isinstance(e.func, ast.Attribute) and e.func.attr == "from_buffer_copy":
                        return True
                    if isinstance(e.func, ast.Name) and e.func.id[:1].isupper() or (isinstance(e.func, ast.Name) and e.func.id == "cls"):
                        return all(ok_expr(a) for a in e.args) and all(ok_expr(k.value) for k in e.keywords)
                return False

            for r in rets:
                if not ok_expr(r.value):
                    good = False
                    why.append(norm(r.value))
            shared = [norm(c) for c in calls_in(f.node) if (isinstance(c.func, ast.Attribute) and c.func.attr in SHARING) or (isinstance(c.func, ast.Name) and c.func.id in SHARING)]
            # from_buffer_copy lives on the ctypes metatype: it exists on the structure CLASS, not on its instances
            # (`m.data.from_buffer_copy(...)` raises AttributeError - no copy at all)
            for c in calls_in(f.node):
                if isinstance(c.func, ast.Attribute) and c.func.attr == "from_buffer_copy":
                    rv = c.func.value
                    rt = tyc.expr(f, rv)
                    on_class = rt.kind == "type" or (isinstance(rv, ast.Name) and rv.id == "cls") or (isinstance(rv, ast.Call) and norm(rv.func) == "type") \
                        or (isinstance(rv, ast.Attribute) and rv.attr == "__class__") or (isinstance(rv, ast.Name) and rv.id[:1].isupper())
                    on_instance = rt.kind == "cls" and not on_class
                    Cc.decide(not on_instance, fkey(f, f"receiver:{norm(rv)}"), where(f, c), "from_buffer_copy is called on a structure class",
                              f"{f.qual}: `{norm(c)[:70]}` calls from_buffer_copy on an instance (`{norm(rv)}` is a {rt.cls.name if rt.kind == 'cls' else 'value'}); ctypes provides it on the class only - "
                              f"the call raises AttributeError and no copy is produced; use type({norm(rv)}).from_buffer_copy(...)")
            Cc.decide(good and not shared, fkey(f, "result"), where(f), "result built from from_buffer_copy only",
                      f"{f.qual} returns {why or shared}: may share storage with its argument")
    if ncopy < 2:
        raise AnalysisError("anchor vanished: MessageBase.copy / Message.copy")

    # ---- V refusal of a foreign version ----------------------------------------------------------------------
    V = chk.rule("C10-V", "Message.from_json decodes data only under version == 0 or version == local type_hash", 3,
                 "otherwise JSON from an out-of-sync definition is silently decoded")
    fj = prog.func(MS, "Message.from_json")
    g = C.build(fj.node)
    gs = flow.guard_states(g)
    dec = [n for n in g.nodes for c in node_calls(n) if is_method_call(c, ("from_dict", "from_json")) and c.args and "'data'" in norm(c.args[0]).replace('"', "'")]
    if len(dec) != 1:
        raise AnalysisError("anchor vanished: data decode in Message.from_json")
    dcall = [c for c in node_calls(dec[0]) if is_method_call(c, ("from_dict", "from_json"))][0]
    mcls = path_of(recv_of(dcall))
    # class comes from get_msg_cls(<hdr>.msg_type)
    cdef = [n for n in walk_local(fj.node) if isinstance(n, ast.Assign) and path_of(n.targets[0]) == mcls]
    okc = len(cdef) == 1 and isinstance(cdef[0].value, ast.Call) and norm(cdef[0].value.func) == "get_msg_cls" and len(cdef[0].value.args) == 1 \
        and norm(cdef[0].value.args[0]).endswith(".msg_type")
    hv = norm(cdef[0].value.args[0])[: -len(".msg_type")] if okc else "hdr"
    V.decide(okc, fkey(fj, "class-from-header-type"), where(fj), f"data class looked up from {hv}.msg_type", "data class is not looked up from the decoded header's msg_type")
    hdef = [n for n in walk_local(fj.node) if isinstance(n, ast.Assign) and path_of(n.targets[0]) == hv]
    okh = len(hdef) == 1 and isinstance(hdef[0].value, ast.Call) and is_method_call(hdef[0].value, "from_dict") and "'header'" in norm(hdef[0].value.args[0]).replace('"', "'")
    V.decide(okh, fkey(fj, "header-decoded-first"), where(fj), "header decoded from d['header']", "header is not decoded from d['header']")
    goal = guards.parse(f"{hv}.version == 0 or {hv}.version == {mcls}.type_hash")
    cmj = {k: v for k, v in guards.copy_map(fj.node).items() if k not in (hv, mcls)}
    at = lambda n_: [[(guards.subst(e, cmj), pol) for e, pol in p_] for p_ in gs.at(n_)]
    bad = guards.any_path_implies(at(dec[0]), goal)
    V.decide(not bad, fkey(fj, "decode-under-version-guard"), where(fj, dcall), "decode dominated by the version guard",
             "the data segment can be decoded although the header carries a different non-zero version")
    # ... and nothing is returned at all without that guard (a branch that builds the data object some other way,
    # e.g. a signal fast path, must not bypass the refusal)
    rets = [n for n in g.nodes if n.kind == "stmt" and isinstance(n.ast, ast.Return) and n.ast.value is not None]
    badr = [n for n in rets if guards.any_path_implies(at(n), goal)]
    V.decide(bool(rets) and not badr, fkey(fj, "every-return-under-version-guard"), where(fj), "every return of from_json is dominated by the version guard",
             "Message.from_json can return a message although the header carries a different non-zero version (a path bypasses the refusal): " + "; ".join(norm(n.ast) for n in badr))
    # and the refusal is not stronger than stated: version 0 and equal versions reach the decode
    rz = [n for n in g.nodes if n.kind == "stmt" and isinstance(n.ast, ast.Raise) and "InvalidMessageDefinition" in norm(n.ast)]
    okr = bool(rz)
    for n in rz:
        if guards.any_path_implies(at(n), guards.parse(f"{hv}.version != 0 and {hv}.version != {mcls}.type_hash")):
            okr = False
    V.decide(okr, fkey(fj, "refusal-exact"), where(fj), "refusal only for a non-zero version different from the local hash",
             "from_json refuses (or never refuses) under a condition other than version != 0 and version != type_hash")

    # ---- S encoder / decoder case agreement ---------------------------------------------------------------------
    S = chk.rule("C10-S", "_to_dict and _from_dict classify field types by the same ordered tests; extra encoder cases are int-list producers", 6,
                 "a case present on one side only encodes a shape the other side cannot consume")
    enc, decf = prog.func(MB, "_to_dict"), prog.func(MB, "_from_dict")
    le, ld = field_loop(enc), field_loop(decf)
    me, name_e = canon_loop(le)
    md, name_d = canon_loop(ld)
    shape = lambda lp: [("*" if isinstance(t, ast.Starred) else "n") for t in (lp.target.elts if isinstance(lp.target, (ast.Tuple, ast.List)) else [lp.target])]
    S.decide(shape(le) == shape(ld) and norm(le.iter).endswith("._fields_") and norm(ld.iter).endswith("._fields_"), f"{MB}|field-walk", where(enc, le), "both walk obj._fields_ with the same target shape",
             "encoder and decoder do not iterate _fields_ the same way")
    S.decide(name_e is not None and name_e == name_d, f"{MB}|field-name", where(enc, le), "both derive the public field name the same way", f"field name derivation differs: {name_e} vs {name_d}")
    # the per-field case analysis as a *classification*: for every statement of the loop body, the conjunction of the
    # type tests (tests that read nothing but the field's ctype) under which it runs.  Independent of how the chain is
    # spelt (if/elif order of independent tests, inverted branches, early continue).
    import copy as _copy

    def leaves(f, lp, mapping):
        g_ = C.build(f.node)
        gs_ = flow.guard_states(g_)
        lcm_ = guards.copy_map(f.node)  # `etype = ftype._type_` is looked through
        tvar = "$f1"
        out = {}
        canon_cache = {}
        for n in g_.nodes:
            if n.kind != "stmt" or n.ast is None or isinstance(n.ast, (ast.Continue, ast.Pass)) or not any(a is lp for a in _anc(n.ast)):
                continue
            for p_ in gs_.at(n):
                facts = set()
                for e, pol in p_:
                    # (re-parsed from its text: the fact's AST carries parent links, a deepcopy would drag the module along)
                    key_ = norm(e)
                    if key_ not in canon_cache:
                        canon_cache[key_] = _Canon(mapping).visit(ast.parse(norm(guards.subst(e, lcm_)), mode="eval").body)
                    ce_ = canon_cache[key_]
                    # symmetric comparisons are written operand-sorted (`ctypes.c_byte is t._type_` == `t._type_ is ctypes.c_byte`)
                    core_ = ce_.operand if isinstance(ce_, ast.UnaryOp) and isinstance(ce_.op, ast.Not) else ce_
                    if isinstance(core_, ast.Compare) and len(core_.ops) == 1 and isinstance(core_.ops[0], (ast.Is, ast.IsNot, ast.Eq, ast.NotEq)) \
                            and norm(core_.left) > norm(core_.comparators[0]):
                        core_.left, core_.comparators[0] = core_.comparators[0], core_.left
                    while isinstance(ce_, ast.UnaryOp) and isinstance(ce_.op, ast.Not):
                        ce_, pol = ce_.operand, not pol
                    names = {x.id for x in ast.walk(ce_) if isinstance(x, ast.Name)}
                    if tvar in names and names <= {tvar, "MessageBase", "ctypes", "issubclass", "isinstance"}:
                        facts.add((norm(ce_), pol))
                out.setdefault(frozenset(facts), []).append(n)
        return out

    from ..program import ancestors as _anc

    LE, LD = leaves(enc, le, me), leaves(decf, ld, md)
    LE.pop(frozenset(), None)
    LD.pop(frozenset(), None)

    def maximal(L):
        # a statement that runs under a *prefix* of another statement's tests (`elem = ftype._type_` between two tests of a
        # guard-clause chain) is not a case of its own
        return {k: v for k, v in L.items() if not any(k < o for o in L)}

    LE, LD = maximal(LE), maximal(LD)
    as_expr = lambda fs: guards.parse(" and ".join((("" if pol else "not ") + "(" + t.replace("$", "_S_") + ")") for t, pol in sorted(fs)) or "True")
    as_facts = lambda fs: [(guards.parse(t.replace("$", "_S_")), pol) for t, pol in sorted(fs)]
    te, td = sorted(" & ".join(("" if pol else "!") + t for t, pol in sorted(fs)) for fs in LE), sorted(" & ".join(("" if pol else "!") + t for t, pol in sorted(fs)) for fs in LD)
    ALLOWED_ENCODER_ONLY = {"$f1._type_ is ctypes.c_byte", "$f1._type_ is ctypes.c_ubyte"}
    okmap, why = len(LD) >= 5, []
    if not okmap:
        why.append(f"decoder distinguishes only {len(LD)} classes of field type")
    image = {}
    for e in LE:
        ms = [d for d in LD if guards.implies(as_facts(e), as_expr(d))]
        if len(ms) != 1:
            okmap = False
            why.append(f"encoder case [{' & '.join(('' if pol else '!') + t for t, pol in sorted(e))}] corresponds to {len(ms)} decoder case(s)")
        else:
            image.setdefault(ms[0], []).append(e)
    for d in LD:
        if d not in image:
            okmap = False
            why.append(f"decoder case [{' & '.join(('' if pol else '!') + t for t, pol in sorted(d))}] has no encoder counterpart")
    S.decide(okmap, f"{MB}|outer-cases", where(enc, le), f"every encoder class of field type maps to exactly one decoder class ({len(LE)} -> {len(LD)})", "case analysis differs: " + "; ".join(why[:3]))
    oka, extra_atoms = True, set()
    for d, es in image.items():
        if len(es) > 1:
            for e in es:
                extra_atoms |= {t for t, _ in e} - {t for t, _ in d}
    S.decide(extra_atoms <= ALLOWED_ENCODER_ONLY, f"{MB}|array-cases", where(enc, le), f"distinctions only the encoder makes: {sorted(extra_atoms)} (byte arrays, encoded as int lists)",
             f"the encoder distinguishes {sorted(extra_atoms - ALLOWED_ENCODER_ONLY)} but the decoder does not: that shape cannot be consumed")
    # encoder-only byte cases must produce a list / bytes of ints (slice copy or bytes())
    for atom in sorted(ALLOWED_ENCODER_ONLY & extra_atoms):
        vals = sorted({norm(n.ast.value) for e, ns in LE.items() if (atom, True) in e for n in ns if isinstance(n.ast, ast.Assign)})
        vals = [v.replace(next((k for k, v_ in me.items() if v_ == "$name"), "name"), "$name") for v in vals]
        okp = bool(vals) and all(v.endswith("[:].copy()") or v.startswith("bytes(") for v in vals)
        S.decide(okp, f"{MB}|encoder-only:{atom.replace('$f1', 'ftype')}", where(enc, le), f"{atom}: encoded as list/bytes of ints {vals}", f"{atom}: encoder-only case produces {vals}, not an int list / bytes")
    # what the decoder stores into the object is the dictionary's value itself: any "defaulting" (`data[name] or 0`,
    # `[x or 0 for x in ...]`) turns a legitimate falsy value (-0.0) into something else
    dparams = decf.params()
    dpar = dparams[1] if len(dparams) > 1 else "data"
    dname = next((k_ for k_, v_ in md.items() if v_ == "$name"), None)
    nst, badst = 0, []
    for n in walk_local(ld):
        vals = []
        if isinstance(n, ast.Call) and isinstance(n.func, ast.Name) and n.func.id == "setattr" and len(n.args) == 3:
            vals.append(n.args[2])
        elif isinstance(n, ast.Assign) and any(isinstance(t, ast.Subscript) and isinstance(t.slice, ast.Slice) and isinstance(t.value, ast.Call) and norm(t.value.func) == "getattr" for t in n.targets):
            vals.append(n.value)
        for v in vals:
            nst += 1
            vv = guards.subst(v, guards.copy_map(decf.node))
            if isinstance(vv, ast.Name):  # `value = data[name]; setattr(obj, name, value)`
                from ..dataflow import definitions as _d10
                ds_ = [r_ for k_, r_ in _d10(decf.node, vv.id) if k_ == "assign"]
                if len(ds_) == 1 and len(_d10(decf.node, vv.id)) == 1:
                    vv = ds_[0]
            if not (isinstance(vv, ast.Subscript) and path_of(vv.value) == dpar and dname is not None and norm(vv.slice) == dname):
                badst.append(norm(v)[:60])
    S.decide(nst >= 2 and not badst, f"{MB}|decoder-stores-verbatim", where(decf, ld), f"{nst} store(s) of `{dpar}[{dname}]` itself into the object",
             f"_from_dict stores a transformed value instead of `{dpar}[{dname}]`: {badst} (a falsy value such as -0.0 would be replaced)")

    # ... and every field is stored whatever its value: no way round one iteration of the decoder avoids all of its stores
    # (a "skip zeros, the object is zero-initialised anyway" fast path loses -0.0; a falsy string, an empty list)
    dg_ = C.build(decf.node)
    dhead = [n for n in dg_.nodes if n.kind == "for" and n.ast is ld]
    store_ids = set()
    for n in dg_.nodes:
        if n.ast is None or not any(a is ld for a in _anc(n.ast)):
            continue
        for c in node_calls(n):
            if isinstance(c.func, ast.Name) and c.func.id in ("setattr", decf.name):
                store_ids.add(n.id)
        if n.kind == "stmt" and isinstance(n.ast, ast.Assign) and any(isinstance(t, ast.Subscript) and isinstance(t.value, ast.Call) and norm(t.value.func) == "getattr" for t in n.ast.targets):
            store_ids.add(n.id)
    okst = bool(dhead) and bool(store_ids)
    if okst:
        starts = [e.dst for e in dg_.succ[dhead[0].id] if e.kind == "iter"]
        r_ = flow.reach(dg_, starts, blocked=store_ids, follow=lambda e: e.kind not in ("exc", "except"), blocked_pass_exc=False)
        # a for loop nested in the body (struct arrays: one recursive call per element) may run zero times: its header is not a bypass
        if dhead[0].id in r_ and not all(s_ in store_ids for s_ in starts):
            # tolerate only the inner element loop of the struct-array case finishing (it stores per element)
            inner_heads = {n.id for n in dg_.nodes if n.kind == "for" and n.ast is not ld and any(a is ld for a in _anc(n.ast)) and any(x.id in store_ids for x in dg_.nodes if x.ast is not None and any(a is n.ast for a in _anc(x.ast)))}
            r2_ = flow.reach(dg_, starts, blocked=store_ids | inner_heads, follow=lambda e: e.kind not in ("exc", "except"), blocked_pass_exc=False)
            okst = dhead[0].id not in r2_
    S.decide(okst, f"{MB}|decoder-stores-every-field", where(decf, ld), "every iteration of the decoder stores the field, whatever its value",
             "_from_dict can skip the store of a field depending on its value (zero / empty / falsy): what is read back differs from what was encoded, e.g. -0.0")

    je = prog.func(MB, "RTMAJSONEncoder.default")
    tests = [norm(n.test) for n in walk_local(je.node) if isinstance(n, ast.If)]
    need = {"bytes": any("bytes" in t for t in tests), "ctypes.Array": any("ctypes.Array" in t for t in tests), "MessageBase": any("MessageBase" in t or "to_dict" in t for t in tests)}
    S.decide(all(need.values()), fkey(je, "covers"), where(je), "JSON encoder handles bytes, ctypes arrays and nested messages", f"RTMAJSONEncoder.default misses {[k for k, v in need.items() if not v]}")
    bl = [n for n in walk_local(je.node) if isinstance(n, ast.If) and "bytes" in norm(n.test)]
    okb = bool(bl) and any(isinstance(r, ast.Return) and isinstance(r.value, ast.ListComp) and norm(r.value.elt).startswith("int(") for r in bl[0].body)
    S.decide(okb, fkey(je, "bytes-as-int-list"), where(je), "bytes are emitted as a list of ints", "bytes are not emitted as a list of ints")
    # message level keys
    td_ = prog.func(MS, "Message.to_dict")
    tj = prog.func(MS, "Message.to_json")
    def emitted_keys(f, depth=0):
        """keys of the mapping a Message method serialises: a dict(...) call / display, reached through locals, or self.to_dict()"""
        cm_ = guards.copy_map(f.node)
        outs = []
        for n in walk_local(f.node):
            if isinstance(n, ast.Return) and n.value is not None:
                v = n.value
                if isinstance(v, ast.Call) and norm(v.func) in ("json.dumps", "dumps") and v.args:
                    v = v.args[0]
                v = guards.subst(v, cm_)
                if isinstance(v, ast.Name):  # a local assigned exactly once (`d = dict(...)`)
                    defs = [a.value for a in walk_local(f.node) if isinstance(a, ast.Assign) and any(isinstance(t, ast.Name) and t.id == v.id for t in a.targets)]
                    if len(defs) == 1:
                        v = defs[0]
                outs.append(v)
        ks = set()
        for v in outs:
            if isinstance(v, ast.Call) and isinstance(v.func, ast.Name) and v.func.id == "dict" and not v.args:
                ks.add(tuple(sorted(k.arg or "**" for k in v.keywords)))
            elif isinstance(v, ast.Dict):
                ks.add(tuple(sorted(k.value if isinstance(k, ast.Constant) else "**" for k in v.keys)))
            elif isinstance(v, ast.Call) and norm(v.func) == "self.to_dict" and depth == 0:
                ks |= emitted_keys(td_, 1)
            else:
                ks.add(("?" + norm(v)[:40],))
        return ks

    fjm = prog.func(MS, "Message.from_json")
    loaded = {t.id for n in walk_local(fjm.node) if isinstance(n, ast.Assign) and isinstance(n.value, ast.Call) and norm(n.value.func) in ("json.loads", "loads")
              for t in n.targets if isinstance(t, ast.Name)}
    read_keys = tuple(sorted({n.slice.value for n in walk_local(fjm.node) if isinstance(n, ast.Subscript) and isinstance(n.value, ast.Name) and n.value.id in loaded
                              and isinstance(n.slice, ast.Constant) and isinstance(n.slice.value, str)}))
    if not read_keys:
        raise AnalysisError("anchor vanished: keys read by Message.from_json")
    ek = {f.qual: emitted_keys(f) for f in (td_, tj)}
    keys_ok = all(v == {read_keys} for v in ek.values())
    S.decide(keys_ok, f"{MS}|keys", where(td_), f"to_dict/to_json emit exactly the keys from_json reads {read_keys}",
             f"to_dict/to_json keys differ from the keys from_json reads {read_keys}: " + "; ".join(f"{k} emits {sorted(v)}" for k, v in ek.items()))
    chk.units.update({"copy_methods": ncopy, "encoder_cases": te, "decoder_cases": td})

    # the version test is only as good as the decoded value: with validation off the Uint32 `reserved` field wraps modulo 2**32
    # (2**32 -> 0 = "unchecked", hash + 2**32 -> the local hash), so the header must be decoded with validation in force
    wv = [w for w in walk_local(fj.node) if isinstance(w, ast.With) and any(isinstance(it.context_expr, ast.Call) and norm(it.context_expr.func).split(".")[-1] == "disable_message_validation"
                                                                         and not any(k.arg == "ignore" and isinstance(k.value, ast.Constant) and k.value.value is True for k in it.context_expr.keywords)
                                                                         for it in w.items)]
    hdec = [c for c in calls_in(fj.node) if is_method_call(c, ("from_dict", "from_json")) and c.args and "'header'" in norm(c.args[0]).replace('"', "'")]
    inside = [c for c in hdec if any(any(x is c for x in ast.walk(w)) for w in wv)]
    V.decide(bool(hdec) and not inside, fkey(fj, "header-decoded-with-validation"), where(fj), "the header (its version field) is decoded with field validation in force",
             "Message.from_json decodes the header inside disable_message_validation(): an out-of-range version wraps modulo 2**32 on assignment, so a foreign version "
             "congruent to 0 or to the local hash passes the version test")

    # ---- D the whole-array validator accepts exactly the values the element validator accepts ---------------------
    # _from_dict assigns arrays whole; what a message can hold was put there through the element / scalar validator.  If
    # validate_many refuses a value validate_one accepts (NaN under `not all(isfinite)`), such a message no longer decodes.
    D = chk.rule("C10-D", "validate_many's per-element refusal predicate is equivalent to validate_one's (same value domain for scalar and whole-array assignment)", 3,
                 "a value storable element-wise but refused as a whole array breaks from_dict/from_json of a message that holds it")
    VALM = "pyrtma.validators"
    vm = prog.modules.get(VALM)
    if vm is None:
        raise AnalysisError("anchor vanished: pyrtma.validators")

    def refusal_tests(f, exc="ValueError"):
        out_ = []
        for n in walk_local(f.node):
            if isinstance(n, ast.If) and not n.orelse and n.body and isinstance(n.body[-1], ast.Raise) and n.body[-1].exc is not None \
                    and norm(n.body[-1].exc.func if isinstance(n.body[-1].exc, ast.Call) else n.body[-1].exc) == exc:
                out_.append(n.test)
        return out_

    def element_pred(test, seq):
        """`any(P(v) for v in seq)` -> (v, P);  `not all(Q(v) for v in seq)` -> (v, not Q)"""
        neg = False
        t = test
        while isinstance(t, ast.UnaryOp) and isinstance(t.op, ast.Not):
            neg = not neg
            t = t.operand
        if isinstance(t, ast.Call) and isinstance(t.func, ast.Name) and t.func.id in ("any", "all") and len(t.args) == 1 and isinstance(t.args[0], (ast.GeneratorExp, ast.ListComp)):
            ge = t.args[0]
            if len(ge.generators) == 1 and not ge.generators[0].ifs and path_of(ge.generators[0].iter) == seq and isinstance(ge.generators[0].target, ast.Name):
                if (t.func.id == "any") != neg:
                    # any(P) [not negated]  or  not all(Q) == any(not Q)
                    elt = ge.elt if t.func.id == "any" else ast.UnaryOp(op=ast.Not(), operand=ge.elt)
                    return ge.generators[0].target.id, elt
        return None

    ncmp = 0
    for cls in vm.classes.values():
        one, many = cls.methods.get("validate_one"), cls.methods.get("validate_many")
        if one is None or many is None or is_stub(one.node) or is_stub(many.node):
            continue
        t1, tm = refusal_tests(one), refusal_tests(many)
        for test_ in tm:
            if any(isinstance(x, ast.Call) and isinstance(x.func, ast.Name) and x.func.id in ("min", "max") for x in ast.walk(test_)) or \
                    any(isinstance(x, ast.Name) and x.id not in (many.params()[-1], "self") for x in ast.walk(test_)):
                # an order-statistic form (ints): the extremes are compared with the bounds.  That it refuses every out-of-range
                # element is C09-Q's; here: it refuses nothing else.  The test touches min(value), max(value), self._min, self._max only
                # through comparisons, so evaluating it on every ordering of the four over a small grid decides equivalence with
                # `max > _max or min < _min` (given min <= max).
                seq = many.params()[-1]
                loc = {}
                for a_ in walk_local(many.node):
                    if isinstance(a_, ast.Assign) and len(a_.targets) == 1:
                        if isinstance(a_.targets[0], ast.Name):
                            loc.setdefault(a_.targets[0].id, []).append(a_.value)
                        elif isinstance(a_.targets[0], ast.Tuple) and isinstance(a_.value, ast.Tuple) and len(a_.targets[0].elts) == len(a_.value.elts):
                            for t_, v_ in zip(a_.targets[0].elts, a_.value.elts):
                                if isinstance(t_, ast.Name):
                                    loc.setdefault(t_.id, []).append(v_)

                class _NA(Exception):
                    pass

                def ev(e, env):
                    if isinstance(e, ast.Constant) and isinstance(e.value, (int, bool)):
                        return e.value
                    if isinstance(e, ast.Name):
                        if e.id in loc and len(loc[e.id]) == 1:
                            return ev(loc[e.id][0], env)
                        raise _NA
                    if isinstance(e, ast.Attribute):
                        if norm(e) in ("self._min", "self._max"):
                            return env[norm(e)]
                        raise _NA
                    if isinstance(e, ast.Call) and isinstance(e.func, ast.Name) and len(e.args) == 1 and not e.keywords:
                        if e.func.id in ("min", "max") and path_of(e.args[0]) == seq:
                            return env[e.func.id]
                        if e.func.id == "int":
                            return ev(e.args[0], env)
                        raise _NA
                    if isinstance(e, ast.UnaryOp) and isinstance(e.op, ast.Not):
                        return not ev(e.operand, env)
                    if isinstance(e, ast.BoolOp):
                        vals = [ev(v, env) for v in e.values]
                        return all(vals) if isinstance(e.op, ast.And) else any(vals)
                    if isinstance(e, ast.Compare):
                        left = ev(e.left, env)
                        for op, c in zip(e.ops, e.comparators):
                            r = ev(c, env)
                            ok_ = {ast.Lt: left < r, ast.LtE: left <= r, ast.Gt: left > r, ast.GtE: left >= r, ast.Eq: left == r, ast.NotEq: left != r}.get(type(op))
                            if ok_ is None:
                                raise _NA
                            if not ok_:
                                return False
                            left = r
                        return True
                    raise _NA

                try:
                    witness = None
                    for lo_ in range(0, 8):
                        for hi_ in range(lo_, 8):
                            env = {"self._min": 2, "self._max": 5, "min": lo_, "max": hi_}
                            got = bool(ev(test_, env))
                            want = hi_ > 5 or lo_ < 2
                            if got != want and witness is None:
                                witness = (lo_, hi_, got)
                    ncmp += 1
                    D.decide(witness is None, f"{VALM}::{cls.name}|extremes-vs-bounds", where(many), "the extremes test refuses exactly the sequences with an element outside [_min, _max]",
                             f"{cls.name}.validate_many: `{norm(test_)}` " + (f"{'refuses' if witness[2] else 'accepts'} a sequence with min={witness[0]}, max={witness[1]} for bounds [2, 5]" if witness else "")
                             + " - it disagrees with validate_one's range, so a storable array (e.g. all elements equal) cannot be assigned whole / decoded from JSON")
                except _NA:
                    pass  # another form: C09-Q decides what it must refuse

        if len(t1) != 1 or len(tm) != 1:
            continue
        ep = element_pred(tm[0], many.params()[-1])
        if ep is None:
            # the explicit scan: `for v in value: if P(v): raise ValueError`
            lp_ = next((a for a in _anc(tm[0]) if isinstance(a, ast.For)), None)
            if lp_ is not None and path_of(lp_.iter) == many.params()[-1] and isinstance(lp_.target, ast.Name) and not lp_.orelse \
                    and not any(isinstance(x, (ast.Break, ast.Continue, ast.Return)) for x in walk_local(lp_)):
                ep = (lp_.target.id, tm[0])
        if ep is None:
            continue  # an order-statistic form: decided above / by C09-Q
        ncmp += 1
        var, pm = ep
        p1 = guards.subst(t1[0], {one.params()[-1]: ast.Name(id="_v", ctx=ast.Load())})
        pm = guards.subst(pm, {var: ast.Name(id="_v", ctx=ast.Load())})
        same = guards.implies([(p1, True)], pm) and guards.implies([(pm, True)], p1)
        D.decide(same, f"{VALM}::{cls.name}|one-vs-many", where(many), f"both refuse exactly `{norm(p1)}`",
                 f"{cls.name}.validate_many refuses an element when `{norm(pm)}` but validate_one refuses when `{norm(p1)}`: a value accepted element-wise "
                 f"(e.g. NaN) is refused as part of a whole array, so a message holding it cannot be decoded from a dict / JSON")
    if ncmp < 1:
        raise AnalysisError("anchor vanished: comparable validate_one / validate_many pair (float validators)")
