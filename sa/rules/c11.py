"""C11 - accepted layouts are naturally aligned with only explicit padding (DESIGN §2 C11).

Decided: padding only inserts char fields (P), auto-pad off never pads (A), size limit and gating (S).
NOT decided: that every offset is a multiple of its alignment for every field sequence (numerical
behaviour of check_alignment's loop).  Thorough tier adds a supplementary artefact check (L)."""
from __future__ import annotations

import ast

from .. import callgraph, cfg as C, flow, guards
from ..program import AnalysisError, Program, norm, walk_local, ancestors
from ..report import Check
from ..util import calls_in, fkey, is_method_call, node_calls, path_of, recv_of, where, stores_to_attr

PAR = "pyrtma.parser"
LIST_MUTATORS = {"remove", "pop", "sort", "reverse", "clear", "extend", "__delitem__", "__setitem__"}


def run(prog: Program, chk: Check):
    chk.explanation = (
        "C11: (N) the core clause is decided by abstract interpretation of check_alignment's current source over a finite family of "
        "field sequences that is complete for its control decisions (they read the running offset only modulo the alignment, a divisor "
        "of 8): every user field lands on its natural C offset, only char padding is inserted, the size equals the natural C size and "
        "is a multiple of the strictest alignment; with auto_pad off a layout is accepted exactly when it needs no padding. Structural clauses: (P) check_alignment mutates the field list only by insert/append of Field objects it constructs itself "
        "with the `char` padding type, never removes/reorders/rebinds/retypes user fields (only `offset` is stored); (A) every padding "
        "construction is dominated by self.auto_pad (the `not auto_pad -> raise AlignmentError` exits precede them); (S) every "
        "definition stored with fields passed validate_msg_def, which rejects size > 65535 on every normal exit and calls "
        "check_alignment exactly under validate_alignment. Not decided: what an actual C compiler lays out (trusted to be the natural "
        "layout). Thorough tier: deeper sequences for (N) and an independent natural-layout recomputation of every shipped definition."
    )
    ca = prog.func(PAR, "Parser.check_alignment")
    g = C.build(ca.node)
    gs = flow.guard_states(g)
    sp = [p for p in ca.params() if p != "self"][0]

    # ---- P padding only inserts ------------------------------------------------------------------------
    P = chk.rule("C11-P", "check_alignment only inserts/appends self-constructed `char` padding Fields; user fields keep name/type/length/order", 5,
                 "reordering, resizing or dropping a user field changes the wire format the user declared")
    ctor = [n for n in walk_local(ca.node) if isinstance(n, ast.Assign) and isinstance(n.value, ast.Call) and norm(n.value.func) == "Field"]
    if len(ctor) < 2:
        raise AnalysisError("anchor vanished: padding Field constructions in check_alignment")
    pad_vars = set()
    # the padding type constant
    consts = {path_of(n.targets[0]): n.value for n in walk_local(ca.node) if isinstance(n, ast.Assign) and isinstance(n.value, ast.Constant) and len(n.targets) == 1}
    for n in ctor:
        kw = {k.arg: k.value for k in n.value.keywords}
        tn = kw.get("type_name")
        to = kw.get("type_obj")
        tnv = consts.get(path_of(tn)).value if tn is not None and path_of(tn) in consts else (tn.value if isinstance(tn, ast.Constant) else None)
        to_ok = to is not None and isinstance(to, ast.Subscript) and norm(to.value) == "supported_types" and (
            (path_of(to.slice) in consts and consts[path_of(to.slice)].value == "char") or (isinstance(to.slice, ast.Constant) and to.slice.value == "char"))
        P.decide(tnv == "char" and to_ok, fkey(ca, f"padding-type#{len(pad_vars)}"), where(ca, n), "padding field is `char` resolved through supported_types",
                 f"padding field constructed with type {norm(tn) if tn is not None else None}={tnv!r} / {norm(to) if to is not None else None}")
        pad_vars.add(path_of(n.targets[0]))
    inserted = 0
    # rebuild idiom: a fresh local list receives, per iteration over the field list, the padding built here and then the field
    # itself (exactly once, in order), and is stored back whole (`s.fields[:] = laid_out`)
    rebuilt = None
    rebuild_store = None
    for n in walk_local(ca.node):
        if isinstance(n, ast.Assign) and len(n.targets) == 1 and isinstance(n.value, ast.Name):
            t = n.targets[0]
            whole = path_of(t) == f"{sp}.fields" or (isinstance(t, ast.Subscript) and path_of(t.value) == f"{sp}.fields" and isinstance(t.slice, ast.Slice)
                                                     and t.slice.lower is None and t.slice.upper is None and t.slice.step is None)
            if whole:
                inits = [d for d in walk_local(ca.node) if isinstance(d, (ast.Assign, ast.AnnAssign)) and d.value is not None
                         and path_of(d.targets[0] if isinstance(d, ast.Assign) else d.target) == n.value.id]
                if len(inits) == 1 and isinstance(inits[0].value, ast.List) and not inits[0].value.elts:
                    rebuilt, rebuild_store = n.value.id, n
    if rebuilt is not None:
        loops = [l for l in walk_local(ca.node) if isinstance(l, ast.For) and isinstance(l.target, ast.Name) and (
            path_of(l.iter) == f"{sp}.fields" or (isinstance(l.iter, ast.Call) and isinstance(l.iter.func, ast.Name) and l.iter.func.id in ("list", "tuple") and len(l.iter.args) == 1
                                                 and path_of(l.iter.args[0]) == f"{sp}.fields"))]
        user_appends = []
        for c in calls_in(ca.node):
            if isinstance(c.func, ast.Attribute) and path_of(c.func.value) == rebuilt:
                if c.func.attr == "append" and len(c.args) == 1 and path_of(c.args[0]) in pad_vars:
                    inserted += 1
                    P.ok(fkey(ca, c), where(ca, c), "appends a self-constructed padding field to the rebuilt list")
                elif c.func.attr == "append" and len(c.args) == 1 and len(loops) == 1 and path_of(c.args[0]) == loops[0].target.id and any(a is loops[0] for a in ancestors(c)):
                    user_appends.append(c)
                else:
                    P.bad(fkey(ca, c), where(ca, c), f"the rebuilt field list receives something other than a padding Field built here or the current field: {norm(c)}")
        # every iteration appends the user field exactly once, whatever path it takes
        ok_once = False
        if len(loops) == 1 and user_appends:
            head = [x for x in g.nodes if x.kind == "for" and x.ast is loops[0]]
            ua_ids = {x.id for x in g.nodes if any(c_ in user_appends for c_ in node_calls(x))}
            if head:
                starts = [e.dst for e in g.succ[head[0].id] if e.kind == "iter"]
                lo, hi = flow.count_on_paths(g, ua_ids, starts, [head[0].id], follow=lambda e: e.src != head[0].id and e.kind not in ("exc", "except"))
                ok_once = (lo, hi) == (1, 1) and not any(isinstance(x, (ast.Break, ast.Continue)) for x in walk_local(loops[0]))
                # stored back after the loop, on the loop's normal completion
                ok_once = ok_once and rebuild_store.lineno > loops[0].end_lineno
        P.decide(ok_once, fkey(ca, "rebuild-keeps-every-field-once"), where(ca, rebuild_store), "every field is appended to the rebuilt list exactly once per iteration, in order; stored back whole after the loop",
                 "the rebuilt field list can miss, repeat or reorder a user field")
        # the leading-padding insertion and the trailing append together make the two sites the floor expects
    for c in calls_in(ca.node):
        if isinstance(c.func, ast.Attribute) and path_of(c.func.value) == f"{sp}.fields":
            if c.func.attr in ("insert", "append"):
                arg = c.args[-1]
                inserted += 1
                P.decide(path_of(arg) in pad_vars, fkey(ca, c), where(ca, c), "inserts a self-constructed padding field", f"{norm(c)} inserts something other than a padding Field built here")
            elif c.func.attr in LIST_MUTATORS:
                P.bad(fkey(ca, c), where(ca, c), f"check_alignment mutates the field list with {norm(c)}")
    if inserted < 2:
        raise AnalysisError("anchor vanished: padding insert/append in check_alignment")
    # no rebinding / deletion / slice assignment of s.fields, no store into user-field attributes other than offset
    for n in walk_local(ca.node):
        tg = n.targets if isinstance(n, (ast.Assign, ast.Delete)) else ([n.target] if isinstance(n, (ast.AugAssign, ast.AnnAssign)) else [])
        for t in tg:
            if n is rebuild_store:
                continue
            if path_of(t) == f"{sp}.fields" or (isinstance(t, ast.Subscript) and path_of(t.value) == f"{sp}.fields"):
                P.bad(fkey(ca, n), where(ca, n), f"field list rebound / item-assigned / deleted: {norm(n)}")
            if isinstance(t, ast.Attribute) and t.attr in ("name", "type_name", "type_obj", "length", "length_expression", "length_expanded") and path_of(t.value) not in pad_vars:
                P.bad(fkey(ca, n), where(ca, n), f"store into a user field's {t.attr}: {norm(n)}")
    offs = [n for n in walk_local(ca.node) if isinstance(n, ast.Assign) and any(isinstance(t, ast.Attribute) and t.attr == "offset" for t in n.targets)]
    P.ok(fkey(ca, "only-offset-stored"), where(ca), f"{len(offs)} store(s) to field.offset, none to other user-field attributes")
    # callees of check_alignment must not touch the list either
    cg = callgraph.get(prog)
    for fi in cg.callees(ca):
        if fi.cls is not None and fi.cls.name == "Parser":
            for c in calls_in(fi.node):
                if isinstance(c.func, ast.Attribute) and c.func.attr in (LIST_MUTATORS | {"insert", "append"}) and (path_of(c.func.value) or "").endswith(".fields") and fi.name in ("get_ctype_cls", "get_ctype_size"):
                    P.bad(fkey(fi, c), where(fi, c), f"{fi.qual} (called from check_alignment) mutates a field list")

    # ---- A auto-pad off => never pads ------------------------------------------------------------------------
    A = chk.rule("C11-A", "every padding construction / insertion is dominated by self.auto_pad", 4,
                 "with auto_pad off a definition must be accepted exactly when it needs no padding")
    for n in g.nodes:
        is_ctor = n.kind == "stmt" and isinstance(n.ast, ast.Assign) and isinstance(n.ast.value, ast.Call) and norm(n.ast.value.func) == "Field"
        is_ins = any(isinstance(c.func, ast.Attribute) and c.func.attr in ("insert", "append") and (path_of(c.func.value) == f"{sp}.fields" or (
            rebuilt is not None and path_of(c.func.value) == rebuilt and c.args and path_of(c.args[-1]) in pad_vars)) for c in node_calls(n))
        if is_ctor or is_ins:
            bad = guards.any_path_implies(gs.at(n), guards.parse("self.auto_pad"))
            A.decide(not bad, fkey(ca, n.ast), where(ca, n.ast), "dominated by `self.auto_pad`", f"`{norm(n.ast)[:70]}` reachable with auto_pad off")
    rz = [n for n in g.nodes if n.kind == "stmt" and isinstance(n.ast, ast.Raise) and "AlignmentError" in norm(n.ast)]
    for n in rz:
        A.decide(not guards.any_path_implies(gs.at(n), guards.parse("not self.auto_pad")), fkey(ca, f"raise:{norm(n.ast)[:50]}"), where(ca, n.ast),
                 "AlignmentError only with auto_pad off", "AlignmentError can be raised although auto_pad is on")

    # ---- S size limit and gating ------------------------------------------------------------------------------------
    S = chk.rule("C11-S", "stored definitions passed validate_msg_def: size <= 65535 on every normal exit; check_alignment exactly under validate_alignment", 6,
                 "an unvalidated or oversized definition reaches the back ends")
    vm = prog.func(PAR, "Parser.validate_msg_def")
    vg = C.build(vm.node)
    vgs = flow.guard_states(vg)
    vp = [p for p in vm.params() if p != "self"][0]
    exits_facts = []
    for e in vg.pred[vg.exit.id]:
        exits_facts += vgs.after_edge(e)
    lim = None
    vcm = guards.copy_map(vm.node)  # `size = mdf.size; if size > LIMIT:` counts
    size_reads = []
    for n in walk_local(vm.node):
        if isinstance(n, ast.Compare) and norm(guards.subst(n.left, vcm)) == f"{vp}.size" and isinstance(n.ops[0], ast.Gt) and isinstance(guards.subst(n.comparators[0], vcm), ast.Constant):
            lim = guards.subst(n.comparators[0], vcm).value
            # where the size is actually read: the local's definition, or the comparison itself
            if isinstance(n.left, ast.Name) and n.left.id in vcm:
                size_reads += [x for x in vg.nodes if x.kind == "stmt" and isinstance(x.ast, ast.Assign) and len(x.ast.targets) == 1 and norm(x.ast.targets[0]) == n.left.id]
            else:
                size_reads += [x for x in vg.nodes if x.kind == "test" and any(y is n for y in ast.walk(x.ast))]
    exits_facts = [[(guards.subst(e_, vcm), pol_) for e_, pol_ in p_] for p_ in exits_facts]
    core_max = prog.module_constants("pyrtma.core_defs").get("MAX_MESSAGE_SIZE")
    S.decide(lim == 65535 and core_max == lim, fkey(vm, "limit-literal"), where(vm), "limit literal is 65535 == core_defs.MAX_MESSAGE_SIZE",
             f"size limit literal is {lim}, core_defs.MAX_MESSAGE_SIZE is {core_max}")
    S.decide(lim is not None and not guards.any_path_implies(exits_facts, guards.parse(f"not ({vp}.size > {lim})")), fkey(vm, "normal-exit-implies-size-ok"), where(vm),
             "every normal exit is dominated by not (size > limit)", "validate_msg_def can return normally for an oversized definition")
    cal = [n for n in vg.nodes if any(is_method_call(c, "check_alignment") and path_of(recv_of(c)) == "self" for c in node_calls(n))]
    okc = len(cal) == 1 and not guards.any_path_implies(vgs.at(cal[0]), guards.parse("self.validate_alignment"))
    if okc:
        tests = [n for n in vg.nodes if n.kind == "test" and norm(n.ast) == "self.validate_alignment"]
        okc = len(tests) == 1 and all(e.dst == cal[0].id for e in vg.succ[tests[0].id] if e.kind == "true") and not flow.must_precede(vg, tests, [vg.exit])
    S.decide(okc, fkey(vm, "alignment-iff-validate_alignment"), where(vm), "check_alignment(mdf) runs exactly when self.validate_alignment",
             "check_alignment is not called exactly under self.validate_alignment")
    # size check happens after padding (so inserted padding counts)
    szt = size_reads or [n for n in vg.nodes if n.kind == "test" and f"{vp}.size" in norm(n.ast)]
    S.decide(bool(szt) and bool(cal) and all(cal[0].id not in flow.reach(vg, [z.id]) for z in szt), fkey(vm, "size-after-alignment"), where(vm), "size is read and checked after padding was inserted",
             "size limit is checked before check_alignment may add padding")
    af = prog.func(PAR, "Parser.add_fields")
    ag = C.build(af.node)
    vcalls = [n for n in ag.nodes if any(is_method_call(c, "validate_msg_def") and path_of(recv_of(c)) == "self" for c in node_calls(n))]
    S.decide(bool(vcalls) and not flow.must_follow(ag, [ag.entry], vcalls, exits=("exit",)), fkey(af, "validates-on-every-path"), where(af),
             "add_fields calls validate_msg_def on every normal path", "add_fields can return without validate_msg_def")
    for fname, table in (("Parser.handle_message_def", "message_defs"), ("Parser.handle_struct", "struct_defs"), ("Parser.handle_signal", "message_defs")):
        f = prog.func(PAR, fname)
        fg = C.build(f.node)
        stores = [n for n in fg.nodes if n.kind == "stmt" and isinstance(n.ast, ast.Assign) and any(isinstance(t, ast.Subscript) and path_of(t.value) == f"self.{table}" for t in n.ast.targets)]
        for n in stores:
            obj = path_of(n.ast.value)
            adds = [m for m in fg.nodes if any(is_method_call(c, "add_fields") and c.args and path_of(c.args[0]) == obj for c in node_calls(m))]
            if adds:
                S.decide(not flow.must_precede(fg, adds, [n]), fkey(f, n.ast), where(f, n.ast), "stored after add_fields(obj, ...) on every path",
                         f"{fname} stores `{obj}` into {table} without add_fields/validate_msg_def on some path")
            else:
                # signal: constructed here without fields
                cdef = [d for d in walk_local(f.node) if isinstance(d, ast.Assign) and path_of(d.targets[0]) == obj and isinstance(d.value, ast.Call) and norm(d.value.func) in ("MDF", "SDF")]
                nofields = bool(cdef) and all(not any(k.arg == "fields" for k in d.value.keywords) and len(d.value.args) <= 5 for d in cdef) and \
                    not any(isinstance(c.func, ast.Attribute) and (path_of(c.func.value) or "") == f"{obj}.fields" for c in calls_in(f.node))
                S.decide(nofields, fkey(f, n.ast), where(f, n.ast), "field-less definition (signal): nothing to lay out",
                         f"{fname} stores `{obj}` with fields but without add_fields/validate_msg_def")
    # other writers of the two tables
    for f in prog.module(PAR).functions.values():
        for n in walk_local(f.node):
            if isinstance(n, ast.Assign) and any(isinstance(t, ast.Subscript) and path_of(t.value) in ("self.message_defs", "self.struct_defs") for t in n.targets):
                if f.qual not in ("Parser.handle_message_def", "Parser.handle_struct", "Parser.handle_signal"):
                    S.bad(fkey(f, n), where(f, n), f"{f.qual} registers a definition outside the validated handlers")

    try:
        alignment_induction(prog, chk)
    except AnalysisError as e:
        chk.defer_error(f"C11-N could not interpret check_alignment: {e}")

    # ---- L (thorough, supplementary): natural layout of every shipped definition -----------------------------------------
    if chk.tier == "thorough":
        from ..artefacts import shipped_layout_report

        L = chk.rule("C11-L", "supplementary: every struct/message in every shipped YAML has naturally aligned offsets and size == sum of fields (independent calculator)", 50,
                     "artefact evidence only - validates shipped definitions, not the algorithm")
        for key, loc, okk, detail in shipped_layout_report(prog):
            L.decide(okk, key, loc, detail, detail)
    chk.units.update({"padding_constructions": len(ctor), "padding_insertions": inserted})


# ---------------------------------------------------------------------------------------------------------------
TRIPLES = [[("native", a1, a1, None), ("native", a2, a2, None), ("native", a3, a3, None)] for a1 in (1, 2, 4) for a2 in (2, 4, 8) if a2 > a1 for a3 in (1, 2, 4) if a3 < a2]


def padded_member_names(prog: Program):
    """check_alignment interpreted (auto_pad on) over the (small, big, small) families that need padding in front of a member
    and at the end: for each, the names of the resulting members.  Used by C04-U (member names are identifiers in every
    generated language: they must be pairwise distinct)."""
    from ..setalg import Interp, ModelRaise, Obj
    from .. import artefacts

    pm = prog.module(PAR)
    ca = prog.func(PAR, "Parser.check_alignment")
    fcls, ncls, scls = pm.classes["Field"], pm.classes["NativeType"], pm.classes["SDF"]
    mcls = pm.classes.get("MDF")
    natives = artefacts.native_types(prog)
    nat_objs = {k: Obj(ncls, "NativeType", name=k, size=v[0], format=v[1]) for k, v in natives.items()}
    by_size = {1: "char", 2: "int16", 4: "int32", 8: "int64"}

    def construct(ci, args, kwargs):
        if ci is fcls:
            d = dict(name=None, type_name=None, type_obj=None, length_expression=None, length_expanded=None, length=None, offset=-1)
            for k_, v_ in zip(d, args):
                d[k_] = v_
            d.update(kwargs)
            return Obj(fcls, "Field", **d)
        raise AnalysisError(f"vocabulary exceeded: construction of {ci.name}")

    out = []
    for seq in TRIPLES:
        user = [Obj(fcls, "Field", name=f"u{i}", type_name=by_size[k[1]], type_obj=nat_objs[by_size[k[1]]], length_expression=None, length_expanded=None, length=k[3], offset=-1)
                for i, k in enumerate(seq)]
        s_obj = Obj(scls, "SDF", name="X", fields=list(user), alignment=8)
        parser = Obj(prog.cls(PAR, "Parser"), "Parser", auto_pad=True)

        def ctype_size(selfobj, args, kwargs):
            fl = args[0].get("fields")
            return natural([(f.get("type_obj").get("size"), f.get("type_obj").get("size") * (f.get("length") or 1)) for f in fl])[1]

        it = Interp(prog, {"warning": lambda s_, a_, k_: None, "get_ctype_size": ctype_size},
                    {"supported_types": nat_objs, "Field": ("class", fcls), "NativeType": ("class", ncls), "SDF": ("class", scls), **({"MDF": ("class", mcls)} if mcls is not None else {})}, construct=construct)
        raised = None
        try:
            it.call_method(ca, parser, [s_obj])
        except ModelRaise as r_:
            raised = r_.name
        out.append((seq, raised, [f.get("name") for f in s_obj.get("fields")]))
    return ca, out


def natural(fields):
    """Independent natural C layout of [(align, size)] -> (offsets, total size incl. tail padding, max align)."""
    ptr, offs, mx = 0, [], 1
    for a, sz in fields:
        ptr += (-ptr) % a
        offs.append(ptr)
        ptr += sz
        mx = max(mx, a)
    return offs, ptr + ((-ptr) % mx), mx


def alignment_induction(prog: Program, chk: Check):
    """C11-N: abstract interpretation of the *current source* of Parser.check_alignment over a finite family of field
    sequences that is complete for its control decisions: every decision reads the running offset only through
    `ptr % alignment` with alignment in {1,2,4,8}, so it depends on ptr mod 8 only.  A leading `char[r]` (r = 0..7)
    reaches every residue; the following one or two fields range over every (alignment, element size, array length)
    class.  Nothing from the repository is executed: the function is interpreted by sa.setalg over model objects, and
    its final ctypes size assertion is answered by the independent natural-layout calculator above."""
    from .. import artefacts
    from ..setalg import Interp, ModelRaise, Obj

    N = chk.rule("C11-N", "check_alignment, interpreted over every (offset mod 8, field class) transition: user fields land on their natural offsets, only char padding is inserted, size is a multiple of the strictest alignment; with auto_pad off it accepts exactly the layouts needing no padding", 200,
                 "the property's core clause; decided exhaustively over the finite abstraction (offset mod 8 x alignment x size class x length)")
    pm = prog.module(PAR)
    ca = prog.func(PAR, "Parser.check_alignment")
    fcls, ncls, scls = pm.classes["Field"], pm.classes["NativeType"], pm.classes["SDF"]
    natives = artefacts.native_types(prog)
    nat_objs = {k: Obj(ncls, "NativeType", name=k, size=v[0], format=v[1]) for k, v in natives.items()}
    by_size = {1: "char", 2: "int16", 4: "int32", 8: "int64"}
    kinds = []
    for a in (1, 2, 4, 8):
        for ln in (None, 1, 2, 3):
            kinds.append(("native", a, a, ln))
        for mult in (1, 3):
            for ln in (None, 2):
                kinds.append(("struct", a, a * mult, ln))
    thorough = chk.tier == "thorough"
    seqs = []
    for r in range(8):
        for k1 in kinds:
            seqs.append(([("native", 1, 1, r)] if r else []) + [k1])
            if thorough:
                for k2 in kinds:
                    seqs.append(([("native", 1, 1, r)] if r else []) + [k1, k2])
    if not thorough:
        for k1 in kinds:
            for k2 in kinds[::3]:
                seqs.append([k1, k2])
    # a definition that needs padding both in front of a member and at its end takes three members (small, big, small)
    seqs += TRIPLES
    steps = 0
    nrun = 0
    failures = {}

    def mkfield(i, k):
        kind, a, sz, ln = k
        tobj = nat_objs[by_size[a]] if kind == "native" else Obj(None, "SDFstub", size=sz, alignment=a, name=f"S{a}_{sz}")
        return Obj(fcls, "Field", name=f"u{i}", type_name=(by_size[a] if kind == "native" else f"S{a}_{sz}"), type_obj=tobj,
                   length_expression=None, length_expanded=None, length=ln, offset=-1)

    def construct(ci, args, kwargs):
        if ci is fcls:
            d = dict(name=None, type_name=None, type_obj=None, length_expression=None, length_expanded=None, length=None, offset=-1)
            for k_, v_ in zip(d, args):
                d[k_] = v_
            d.update(kwargs)
            return Obj(fcls, "Field", **d)
        raise AnalysisError(f"C11-N vocabulary exceeded: construction of {ci.name}")

    mcls = pm.classes.get("MDF")
    # message definitions are laid out by the same routine and can themselves be field types: the single-field family is
    # repeated with a message definition as the container (its recorded alignment must be the strictest member's too)
    runs = [(ap, sq, scls, "SDF") for ap in (True, False) for sq in seqs]
    if mcls is not None:
        runs += [(True, sq, mcls, "MDF") for sq in seqs if len(sq) == 1]
    for auto_pad, seq, ccls, cname in runs:
        if True:
            nrun += 1
            user = [mkfield(i, k) for i, k in enumerate(seq)]
            spec = [(k[1], k[2] * (k[3] or 1)) for k in seq]
            s_obj = Obj(ccls, cname, name="X", fields=list(user), alignment=8)
            parser = Obj(prog.cls(PAR, "Parser"), "Parser", auto_pad=auto_pad)

            def ctype_size(selfobj, args, kwargs):
                fl = args[0].get("fields")
                lay = [((f.get("type_obj").get("size") if f.get("type_obj")._clsname == "NativeType" else f.get("type_obj").get("alignment")),
                        f.get("type_obj").get("size") * (f.get("length") or 1)) for f in fl]
                return natural(lay)[1]

            it = Interp(prog, {"warning": lambda s_, a_, k_: None, "get_ctype_size": ctype_size}, {"supported_types": nat_objs, "Field": ("class", fcls), "NativeType": ("class", ncls), "SDF": ("class", scls), **({"MDF": ("class", mcls)} if mcls is not None else {})}, construct=construct)
            raised = None
            try:
                it.call_method(ca, parser, [s_obj])
            except ModelRaise as r_:
                raised = r_.name
            steps += it.steps
            offs, nsize, mx = natural(spec)
            needs_pad = offs != [sum(x[1] for x in spec[:i]) for i in range(len(spec))] or nsize != sum(x[1] for x in spec)
            label = ("auto_pad" if auto_pad else "no_auto_pad") + ("" if cname == "SDF" else ":message-definition")
            why = None
            fl = s_obj.get("fields")
            if auto_pad:
                if raised:
                    why = f"raises {raised}"
                else:
                    kept = [f for f in fl if f in user]
                    extra = [f for f in fl if f not in user]
                    if kept != user:
                        why = "user fields reordered or dropped"
                    elif any(u.get("name") != f"u{i}" or u.get("length") != seq[i][3] for i, u in enumerate(user)):
                        why = "a user field was renamed or resized"
                    elif any(x.get("type_name") != "char" or x.get("type_obj") is not nat_objs["char"] for x in extra):
                        why = "a non-char padding field was inserted"
                    elif len({f.get("name") for f in fl}) != len(fl):
                        why = "two members share one name: " + ", ".join(sorted({str(f.get("name")) for f in fl if sum(1 for g_ in fl if g_.get("name") == f.get("name")) > 1}))
                    else:
                        # explicit layout: offsets are the running sum; user fields must sit on their natural offsets
                        ptr, ok_off = 0, True
                        pos = {}
                        for f in fl:
                            pos[id(f)] = ptr
                            ptr += f.get("type_obj").get("size") * (f.get("length") or 1)
                        got = [pos[id(u)] for u in user]
                        if got != offs:
                            why = f"user fields at offsets {got}, natural C offsets are {offs}"
                        elif any(u.get("offset") != o for u, o in zip(user, offs)):
                            why = f"recorded field.offset {[u.get('offset') for u in user]} differs from the real offsets {offs}"
                        elif ptr != nsize:
                            why = f"explicit size {ptr} differs from the natural C size {nsize}"
                        elif s_obj.get("alignment") != mx:
                            why = f"struct alignment recorded as {s_obj.get('alignment')}, strictest member alignment is {mx}"
            else:
                if needs_pad and raised != "AlignmentError":
                    why = f"needs padding but is {'accepted' if raised is None else 'rejected with ' + raised} with auto_pad off"
                elif not needs_pad and raised is not None:
                    why = f"needs no padding but raises {raised} with auto_pad off"
                elif not needs_pad and fl != user:
                    why = "field list changed although no padding is needed"
            key = f"{label}:{'+'.join(f'{k[0][0]}{k[1]}x{k[2]}[{k[3]}]' for k in seq)}"
            if why:
                cls_key = f"{label}:{why.split(' ')[0]}:{'+'.join(f'a{k[1]}' for k in seq[-2:])}"
                failures.setdefault(cls_key, f"{why}; field sequence (kind, alignment, element size, length) = {seq}")
            else:
                N.ok(fkey(ca, key), where(ca), "natural layout, char padding only" if auto_pad else ("accepted iff no padding needed"))
    for k, v in sorted(failures.items())[:12]:
        N.bad(fkey(ca, k), where(ca), v)
    chk.extra_coverage.update({"alignment_sequences_interpreted": nrun, "alignment_interpreter_steps": steps, "exhaustive": True,
                               "alignment_abstraction": "offset mod 8 (leading char[r]) x {native a in 1,2,4,8 with len None/1/2/3; struct a x size a,3a with len None/2}"})

    # ---- D what check_alignment reads as a field's alignment ---------------------------------------------------------------------------
    # The interpretation above takes `field.alignment` as given.  Field and TypeAlias delegate it to the type they stand for: a native
    # type is aligned to its size, anything else (struct, message, alias) reports its own alignment.  `size` of a struct is not its
    # alignment ({int32, int32}: 8 vs 4), so a delegate answering with a size over-aligns fields declared through it.
    Dg = chk.rule("C11-D", "Field.alignment / TypeAlias.alignment answer with the alignment of the type they stand for (size only for a native type)", 2,
                  "an alias answering with its size rejects (auto_pad off) or pads (auto_pad on) a layout that needs no padding")
    pm_ = prog.module(PAR)
    native = pm_.classes.get("NativeType")
    nat_al = native.methods.get("alignment") if native is not None else None
    nat_ok = None
    if nat_al is not None:
        rets_ = [r for r in walk_local(nat_al.node) if isinstance(r, ast.Return)]
        nat_ok = bool(rets_) and all(r.value is not None and norm(r.value) == "self.size" for r in rets_)
        Dg.decide(nat_ok, fkey(nat_al, "native-alignment"), where(nat_al), "a native type is aligned to its size", "NativeType.alignment is not its size")
    ndel = 0
    for cname in ("Field", "TypeAlias"):
        ci_ = pm_.classes.get(cname)
        fa = ci_.methods.get("alignment") if ci_ is not None else None
        if fa is None:
            raise AnalysisError(f"anchor vanished: {cname}.alignment")
        g_ = C.build(fa.node)
        gs_ = flow.guard_states(g_)
        rets_ = [n for n in g_.nodes if n.kind == "stmt" and isinstance(n.ast, ast.Return)]
        if not rets_:
            raise AnalysisError(f"anchor vanished: {cname}.alignment returns nothing")
        for n in rets_:
            ndel += 1
            v = norm(n.ast.value) if n.ast.value is not None else "None"
            if v == "self.type_obj.alignment":
                # reached for a native type only if NativeType answers with its size
                reach_native = guards.any_path_implies(gs_.at(n), guards.parse("not isinstance(self.type_obj, NativeType)"))
                okd = (not reach_native) or bool(nat_ok)
                why_ = "native type objects reach `.alignment` but NativeType does not define it as its size"
            elif v == "self.type_obj.size":
                okd = not guards.any_path_implies(gs_.at(n), guards.parse("isinstance(self.type_obj, NativeType)"))
                why_ = "the size of the type object is returned for a type that is not native"
            else:
                okd = False
                why_ = f"returns `{v}`"
            Dg.decide(okd, fkey(fa, n.ast), where(fa, n.ast), f"{cname}.alignment -> {v}", f"{cname}.alignment: {why_} (a struct's size is not its alignment)")

    # ---- T the size assertion compares with fixed-width types ---------------------------------------------------------------------------
    # check_alignment ends with `assert s.size == get_ctype_size(s)`.  The mirror must use fixed-width ctypes types: c_long /
    # c_ulong are 8 bytes on LP64 platforms while RTMA's long is 4, so a definition that needs no padding at all would be refused.
    from .c04 import ctypes_table_entries
    from .c15 import PLATFORM_SIZED_CTYPES

    T = chk.rule("C11-T", "the ctypes mirror used by the final size assertion maps every native name to a fixed-width ctypes type", 20,
                 "a platform-sized mirror type makes the assertion reject definitions that are perfectly aligned ('accepted exactly when it needs none')")
    # ... and it has an entry for every native type the parser accepts, under the name the lookup uses (NativeType.name):
    # a supported type without one is accepted by the grammar and then dies with KeyError inside the size assertion
    mirror_keys = {key for key, _t, _l in ctypes_table_entries(prog)}
    sup = prog.module(PAR).assigns.get("supported_types")
    if isinstance(sup, ast.Dict):
        for k_, v_ in zip(sup.keys, sup.values):
            if isinstance(k_, ast.Constant) and isinstance(v_, ast.Call):
                nm_ = next((x.value.value for x in v_.keywords if x.arg == "name" and isinstance(x.value, ast.Constant)), None)
                T.decide(nm_ in mirror_keys, f"{PAR}|mirror-entry:{k_.value}", f"{prog.module(PAR).rel}:{k_.lineno}", f"`{k_.value}` is mirrored under `{nm_}`",
                         f"native type `{k_.value}` (NativeType.name `{nm_}`) has no entry in the ctypes mirror: a definition with such a field is accepted by the parser's "
                         f"type table and then raises KeyError in get_ctype_cls (findings/c11_signed_char.py)")
    for key, tname, loc in ctypes_table_entries(prog):
        T.decide(tname not in PLATFORM_SIZED_CTYPES, f"{PAR}|ctype:{key}", loc, f"{key} -> {tname}",
                 f"native type `{key}` is mirrored by ctypes.{tname} (8 bytes on 64-bit Linux / macOS, RTMA's is 4): a definition with such a field fails the size assertion although it needs no padding")
