"""C15 - accepted definitions always yield outputs that load in their language (DESIGN §2 C15): generator discipline."""
from __future__ import annotations

import ast
import re
from typing import Dict, List, Set, Tuple

from .. import callgraph
from ..program import AnalysisError, Program, norm, walk_local, ancestors
from ..report import Check
from ..types import Types
from ..util import calls_in, fkey, is_method_call, path_of, recv_of, where
from .c04 import BACKENDS

PAR = "pyrtma.parser"
PLATFORM_SIZED_CTYPES = {"c_long", "c_ulong", "c_size_t", "c_ssize_t", "c_void_p", "c_longdouble", "c_wchar", "c_time_t"}
KIND_OF_TABLE = {"aliases": "alias", "struct_defs": "struct", "message_defs": "message", "constants": "constant"}


def tables_referenced(f, skip_self_table=None) -> Set[str]:
    """Parser tables consulted in f: `x in self.T.keys()`, `for _ in self.T.values()`, self.T[...], self.T.get(...)"""
    out = set()
    for n in walk_local(f.node):
        if isinstance(n, ast.Attribute) and path_of(n.value) == "self" and n.attr in ("aliases", "struct_defs", "message_defs"):
            if isinstance(n.ctx, ast.Load):
                par = getattr(n, "_parent", None)
                # stores self.T[name] = obj are registrations, not references
                if isinstance(par, ast.Subscript) and isinstance(par.ctx, ast.Store):
                    continue
                out.add(n.attr)
    return out


def emission_order(gen_f) -> List[str]:
    """Sequence of parser tables iterated by generate(), in source order."""
    from .. import guards
    from ..util import iterations

    # in execution (= pre-order) sequence, not by line number: expanded helper bodies keep the helper's own line numbers;
    # `p = self.parser` is looked through; loops and comprehensions count alike
    cm = guards.copy_map(gen_f.node)
    order = []
    for it in iterations(gen_f.node):
        m = re.match(r"self\.parser\.(\w+)\.(values|items)\(\)", norm(guards.subst(it.iter, cm)))
        if m:
            order.append(m.group(1))
    return order


def fstrings(f) -> List[str]:
    """Template texts of all f-strings / string constants returned or accumulated in f, with {expr} kept."""
    from .. import guards as _g

    cm = _g.copy_map(f.node)  # `name = field.type_name; f"RTMA.aliases.{name}"` reads as {field.type_name}
    out = []
    for n in walk_local(f.node):
        if isinstance(n, ast.JoinedStr):
            s = ""
            for v in n.values:
                s += v.value if isinstance(v, ast.Constant) else "{" + norm(_g.subst(v.value, cm)) + "}"
            out.append(s)
    return out


def reserved_name_verdict(prog: Program):
    """Are the names of all generated message class attributes rejected as field names for EVERY definition kind?"""
    py_mod, py_cls = BACKENDS["python"]
    gm = prog.func(py_mod, f"{py_cls}.generate_msg_def")
    emitted = set()
    for t in fstrings(gm):
        emitted |= set(re.findall(r"\b(type_\w+): ClassVar", t))
    for n in walk_local(gm.node):
        if isinstance(n, ast.Constant) and isinstance(n.value, str):
            emitted |= set(re.findall(r"\b(type_\w+): ClassVar", n.value))
    if len(emitted) < 4:
        raise AnalysisError(f"anchor vanished: ClassVar attributes emitted by generate_msg_def ({emitted})")
    afn = prog.func(PAR, "Parser.add_fields")
    tests = [n for n in walk_local(afn.node) if isinstance(n, ast.Compare) and len(n.ops) == 1 and isinstance(n.ops[0], ast.In) and isinstance(n.comparators[0], ast.Name)
             and any(isinstance(a, ast.If) and any(isinstance(x, ast.Raise) for x in walk_local(a)) and a.test is n for a in ancestors(n))]
    okr, why = False, "no reserved-name test found in add_fields"
    if tests:
        tname = tests[0].comparators[0].id
        from ..dataflow import definitions as _defs
        base = None
        for kind, rhs in _defs(afn.node, tname):
            if kind == "assign" and isinstance(rhs, (ast.Tuple, ast.List, ast.Set)):
                names = {x.value for x in rhs.elts if isinstance(x, ast.Constant)}
                base = names if base is None else (base & names)
        # additions under a condition (kind dependent) are not guaranteed: only the unconditional literal counts
        okr = base is not None and emitted <= base
        why = f"names always rejected: {sorted(base or [])}; generated class attributes: {sorted(emitted)}"
        # the test itself must not be narrowed by the definition kind
        iff = next(a for a in ancestors(tests[0]) if isinstance(a, ast.If) and a.test is tests[0] or (isinstance(a, ast.If) and tests[0] in list(ast.walk(a.test))))
        if norm(iff.test) != norm(tests[0]):
            okr, why = False, f"reserved-name rejection is conditional: `{norm(iff.test)}`"
    return okr, why, afn


def fstrings_of(node) -> List[str]:
    out = []
    for n in walk_local(node):
        if isinstance(n, ast.JoinedStr):
            s = ""
            for v in n.values:
                s += v.value if isinstance(v, ast.Constant) else "{" + norm(v.value) + "}"
            out.append(s)
    return out


def run(prog: Program, chk: Check):
    ty = Types(prog)
    chk.explanation = (
        "C15 decided as generator discipline: (O) definition-before-use across emitted sections - the reference relation between "
        "definition kinds is extracted from the front end (add_fields / handle_alias lookups), the emission order from each back "
        "end's generate(), eagerness of the target construct is a frozen per-language fact; every eager cross-section reference must "
        "point to an earlier section; (J) JavaScript template consistency (alias namespace, value-vs-callable, per-element array "
        "construction); (T) branch type agreement in Parser.get_ctype_cls; (X) totality of every per-type dispatch over the four "
        "kinds the front end produces. Not decided: that generated text is accepted by CPython / gcc / node / MATLAB."
    )
    par = prog.cls(PAR, "Parser")
    # ---- reference relation from the front end ---------------------------------------------------------
    af = prog.func(PAR, "Parser.add_fields")
    ha = prog.func(PAR, "Parser.handle_alias")
    field_refs = tables_referenced(af)  # kinds a struct / message field may name
    alias_refs = tables_referenced(ha) - set()  # kinds an alias may name
    if not {"aliases", "struct_defs", "message_defs"} <= field_refs:
        raise AnalysisError(f"anchor vanished: add_fields no longer consults aliases/struct_defs/message_defs ({field_refs})")
    edges: List[Tuple[str, str]] = []
    for src in ("struct_defs", "message_defs"):
        for dst in sorted(field_refs):
            edges.append((src, dst))
    for dst in sorted(alias_refs):
        edges.append(("aliases", dst))

    # ---- O definition before use ---------------------------------------------------------------------------
    O = chk.rule("C15-O", "every eager cross-section reference points to a section emitted earlier", 12,
                 "Python class bodies, C typedefs, MATLAB and top-level JS assignments evaluate their right-hand side at definition time: a later section is a NameError / unknown type")
    LAZY = {("javascript", "struct_defs"), ("javascript", "message_defs")}  # field references sit inside arrow-function bodies
    js_alias = prog.func(BACKENDS["javascript"][0], f"{BACKENDS['javascript'][1]}.generate_type_alias")
    for st in [n for n in walk_local(js_alias.node) if isinstance(n, ast.If)]:
        if "struct_defs" in norm(st.test):
            for t in fstrings_of(st):
                if re.search(r"=\s*\(\)\s*=>", t):
                    LAZY.add(("javascript", "aliases->struct_defs"))
    for b, (modname, clsname) in BACKENDS.items():
        gen = prog.func(modname, f"{clsname}.generate")
        order = emission_order(gen)
        pos = {}
        for i, t in enumerate(order):
            pos.setdefault(t, i)
        for t in ("aliases", "struct_defs", "message_defs"):
            if t not in pos:
                raise AnalysisError(f"anchor vanished: {clsname}.generate does not iterate parser.{t}")
        for src, dst in edges:
            if src == dst:
                O.ok(f"{modname}|{src}->{dst}", where(gen), "same section, emitted in parse order (the parser rejects unknown types)")
                continue
            if (b, src) in LAZY or (b, f"{src}->{dst}") in LAZY:
                O.ok(f"{modname}|{src}->{dst}", where(gen), "reference is inside an arrow-function body (evaluated at call time)")
                continue
            O.decide(pos[dst] < pos[src], f"{modname}|{src}->{dst}", where(gen), f"{dst} section precedes {src} section",
                     f"{b}: a definition in `{src}` may refer to one in `{dst}` (accepted by the front end), but the {dst} section is emitted after the {src} section: "
                     + {"python": "NameError at import", "c99": "unknown type name in the header", "matlab": "reference to a non-existent field", "javascript": "undefined at module load"}[b])

    # ---- J JS template consistency --------------------------------------------------------------------------------
    J = chk.rule("C15-J", "JavaScript templates: aliases live in RTMA.aliases as callables; namespaces exist before use; arrays are built per element", 4,
                 "otherwise the module throws at load or every array element is the same object")
    js_mod, js_cls = BACKENDS["javascript"]
    ga = prog.func(js_mod, f"{js_cls}.generate_type_alias")
    go = prog.func(js_mod, f"{js_cls}.generate_obj")
    gj = prog.func(js_mod, f"{js_cls}.generate")
    use_ns = None
    go_p = [q for q in go.params() if q != "self"][0]
    from ..util import iterations as _iters

    # the walk over the fields: a for loop or a comprehension; the templates may live in helpers generate_obj hands each field to
    def _tg(t_):
        t_ = t_.elts[-1] if isinstance(t_, ast.Tuple) else t_
        return t_.id if isinstance(t_, ast.Name) else None

    fld_vars = {_tg(i_.target) for i_ in _iters(go.node) if f"{go_p}.fields" in norm(i_.iter)} - {None}
    go_fns = [go]
    frontier = [(go, fld_vars)]
    while frontier:
        fcur, fvars = frontier.pop()
        for c_ in calls_in(fcur.node):
            if isinstance(c_.func, ast.Attribute) and path_of(c_.func.value) == "self" and fcur.cls is not None and c_.func.attr in fcur.cls.methods and prog.is_expanded_helper(fcur.cls.methods[c_.func.attr]):
                callee = fcur.cls.methods[c_.func.attr]
                if any(callee.key == x.key for x in go_fns):
                    continue
                b_ = callgraph.bind_args(callee, c_, bound_method=True)
                pv = {p_ for p_, a_ in b_.items() if path_of(a_) in fvars}
                if pv:
                    go_fns.append(callee)
                    fld_vars |= pv
                    frontier.append((callee, pv))
    _go_strings = [t_ for fn_ in go_fns for t_ in fstrings(fn_)]
    for t in _go_strings:
        m = re.match(r"RTMA\.(\w+)\.\{(\w+)\.type_name\}", t)
        if m and "aliases" in t and m.group(2) in fld_vars:
            use_ns = m.group(1)
    called = any(re.search(r"\{\w+\}\(\)", t) for t in _go_strings)
    if use_ns is None or not called:
        raise AnalysisError("anchor vanished: JS field templates (RTMA.aliases.{field.type_name} / {ftype}())")
    # each `if td.type_name in <table>` branch of generate_type_alias
    for st in [n for n in walk_local(ga.node) if isinstance(n, ast.If)]:
        test = norm(st.test)
        rets = [n for n in walk_local(st) if isinstance(n, ast.Return) and isinstance(n.value, ast.JoinedStr)]
        if not rets:
            continue
        tmpl = ""
        for v in rets[0].value.values:
            tmpl += v.value if isinstance(v, ast.Constant) else "{" + norm(v.value) + "}"
        lhs, _, rhs = tmpl.partition("=")
        m = re.match(r"\s*RTMA\.(\w+)\.", lhs)
        def_ns = m.group(1) if m else None
        kind = "native" if "type_map" in test else ("alias" if "aliases" in test else ("struct" if "struct_defs" in test else ("message" if "message_defs" in test else "?")))
        if kind in ("native", "alias", "struct"):
            J.decide(def_ns == use_ns, fkey(ga, f"namespace:{kind}"), where(ga, st), f"alias of {kind} is written to RTMA.{use_ns}, where field templates look it up",
                     f"alias of a {kind} is written to RTMA.{def_ns} but fields typed by an alias are read from RTMA.{use_ns}: undefined at use")
        if kind == "native":
            is_value = bool(re.search(r"\(\)\s*;", rhs)) and "=>" not in rhs
            J.decide(not is_value, fkey(ga, "callable:native"), where(ga, st), "alias of a native type is a factory function",
                     f"alias of a native type is defined as the *result* of a call (`{rhs.strip()}`) but used as `RTMA.{use_ns}.X()`: TypeError (not a function)")
    # namespaces must be created before anything is written into them
    created: Dict[str, int] = {}
    written: Dict[str, int] = {}
    pos = {id(n_): i_ for i_, n_ in enumerate(walk_local(gj.node))}  # execution (pre-order) position, not line number
    from .. import guards as _G
    from ..util import iterations as _its

    gjcm = _G.copy_map(gj.node)
    for c in calls_in(gj.node):
        if is_method_call(c, "write") and c.args and isinstance(c.args[0], ast.Constant) and isinstance(c.args[0].value, str):
            m = re.match(r"RTMA\.(\w+)\s*=\s*\{\}", c.args[0].value)
            if m:
                created.setdefault(m.group(1), pos.get(id(c), 0))
    order = emission_order(gj)
    loops = {}
    for lp in _its(gj.node):
        m = re.match(r"self\.parser\.(\w+)\.values\(\)", norm(_G.subst(lp.iter, gjcm)))
        if m:
            loops.setdefault(m.group(1), pos.get(id(lp.node), 0))
    # which namespaces does the alias section write into (branches the front end can reach: native, alias, struct)?
    alias_ns = set()
    for st in [n for n in walk_local(ga.node) if isinstance(n, ast.If)]:
        if "message_defs" in norm(st.test):
            continue  # handle_alias never resolves an alias to a message: unreachable branch
        for t in fstrings_of(st):
            m = re.match(r"RTMA\.(\w+)\.\{(\w+)\.name\}\s*=", t)
            if m and m.group(2) == [q for q in ga.params() if q != "self"][0]:
                alias_ns.add(m.group(1))
    for ns in sorted(alias_ns):
        okn = ns in created and created[ns] < loops.get("aliases", 0)
        J.decide(okn, fkey(gj, f"namespace-created-before-aliases:{ns}"), where(gj), f"RTMA.{ns} exists before the alias section writes into it",
                 f"the alias section assigns RTMA.{ns}.<name> but `RTMA.{ns} = {{}}` is emitted " + ("later" if ns in created else "never") + ": TypeError at module load")
    fills = [t for t in _go_strings if ".fill(" in t]
    per_elem = [t for t in _go_strings if "Array.from(" in t]
    J.decide(not any(re.search(r"fill\(\{\w+\}\(\)\)", t) for t in fills) and (bool(per_elem) or not fills), fkey(go, "array-elements"), where(go),
             "array members are constructed per element", "array fields are emitted as `Array(n).fill(f())`: one object shared by all elements when f is a struct/message factory")

    # ---- T branch type agreement --------------------------------------------------------------------------------------
    T = chk.rule("C15-T", "in Parser.get_ctype_cls every branch assigns a ctypes *type* to the element variable (never a size)", 1,
                 "an int multiplied by the length / stored in _fields_ makes the parser's own size check crash on an accepted definition")
    gc = prog.func(PAR, "Parser.get_ctype_cls")
    # the variable used as element type: `X * (field.length)` / appended bare - in get_ctype_cls or in the function it delegates to
    def elem_vars_of(f_):
        out_ = set()
        for n in walk_local(f_.node):
            if isinstance(n, ast.BinOp) and isinstance(n.op, ast.Mult) and isinstance(n.left, ast.Name) and "length" in norm(n.right):
                out_.add(n.left.id)
        return out_

    elem_vars = elem_vars_of(gc)
    if not elem_vars:
        cand = [f_ for f_ in prog.module(PAR).functions.values() if len(elem_vars_of(f_)) == 1]
        if len(cand) == 1:
            gc, elem_vars = cand[0], elem_vars_of(cand[0])
    if len(elem_vars) != 1:
        raise AnalysisError("anchor vanished: element-type variable in get_ctype_cls")
    ev = next(iter(elem_vars))
    for n in walk_local(gc.node):
        if isinstance(n, ast.Assign) and any(path_of(t) == ev for t in n.targets):
            v = n.value
            kind = "type"
            if isinstance(v, ast.Call):
                st, fi, _ = ty.callee(gc, v)
                ret = norm(fi.node.returns) if fi is not None and fi.node.returns is not None else ""
                if ret in ("int", "float", "str", "bool"):
                    kind = ret
                elif fi is not None and not (ret.startswith("Type[") or ret.startswith("type")) and not prog.is_expanded_helper(fi) and ret not in ("", "Any", "typing.Any"):
                    kind = f"unknown({ret})"  # a function of the pinned vocabulary that is not declared to return a type
            T.decide(kind == "type", fkey(gc, n), where(gc, n), f"`{norm(v)}` denotes a ctypes type",
                     f"branch assigns `{norm(v)}` (returns {kind}) to `{ev}`, which is then used as a ctypes type: TypeError for an alias of a struct used as a field type")

    # ---- X totality of per-type dispatch ----------------------------------------------------------------------------------
    X = chk.rule("C15-X", "every back end's field-type and alias dispatch covers native, alias, struct and message and ends in an explicit error", 8,
                 "a kind the front end accepts but a back end does not know aborts compilation with an internal error")
    disp = [("python", "get_descriptor"), ("c99", "generate_struct"), ("javascript", "generate_obj"), ("matlab", "generate_struct"),
            ("c99", "generate_type_alias"), ("javascript", "generate_type_alias"), ("matlab", "generate_type_alias"), ("python", "generate_type_alias")]
    def unit(f, depth=0):
        """f and the methods of its class it delegates to on self (the dispatch may live in a helper)"""
        out = [f]
        if depth < 2:
            for c in calls_in(f.node):
                if isinstance(c.func, ast.Attribute) and path_of(c.func.value) == "self" and f.cls is not None and c.func.attr in f.cls.methods and c.func.attr != f.name:
                    for u in unit(f.cls.methods[c.func.attr], depth + 1):
                        if all(u.key != o.key for o in out):
                            out.append(u)
        return out

    for b, fn in disp:
        modname, clsname = BACKENDS[b]
        f0 = prog.func(modname, f"{clsname}.{fn}")
        us = unit(f0)
        f = f0
        from .. import guards as _gx

        tests = " || ".join(norm(_gx.subst(n.test, _gx.copy_map(u.node))) for u in us for n in walk_local(u.node) if isinstance(n, ast.If))
        covers = {"native": "type_map" in tests or any("type_map.get" in norm(u.node) for u in us), "alias": "parser.aliases" in tests, "struct": "parser.struct_defs" in tests, "message": "parser.message_defs" in tests}
        is_alias_fn = fn == "generate_type_alias"
        need = {"native", "alias", "struct"} if is_alias_fn else {"native", "alias", "struct", "message"}
        if b == "python" and is_alias_fn:
            # python aliases fall back to the referenced name itself: total by construction
            X.ok(fkey(f, "total"), where(f), "python alias emitter falls back to the referenced name")
            continue
        missing = sorted(k for k in need if not covers[k])
        has_else_raise = any(isinstance(n, ast.Raise) for u in us for n in walk_local(u.node))
        X.decide(not missing and has_else_raise, fkey(f, "total"), where(f), f"covers {sorted(need)} and raises otherwise",
                 f"{b}.{fn}: dispatch does not cover {missing}" if missing else f"{b}.{fn}: no explicit error for unknown kinds")
    gd = prog.func(BACKENDS["python"][0], "PyDefCompiler.get_descriptor")
    gus = unit(gd)
    rec = any(is_method_call(c, tuple(u.name for u in gus)) and path_of(recv_of(c)) == "self" and any(isinstance(a, ast.If) and "parser.aliases" in norm(a.test) for a in ancestors(c))
              for u in gus for c in calls_in(u.node))
    X.decide(rec, fkey(gd, "alias-recursion"), where(gd), "aliases are resolved recursively to a non-alias kind", "python get_descriptor no longer resolves aliases recursively")
    # ---- W working directory discipline ---------------------------------------------------------------------------------
    from .. import cfg as C, flow, guards as G_

    W = chk.rule("C15-W", "parse_file / parse_options restore the working directory on every normal exit (relative imports resolve against the importing file)", 2,
                 "after a skipped repeat import from another directory the importer's remaining relative imports resolve against the wrong directory: a well-formed closure fails with FileNotFoundError")
    for fn in ("Parser.parse_file", "Parser.parse_options"):
        f = prog.func(PAR, fn)
        g = C.build(f.node)
        chd = [n for n in g.nodes if n.kind == "stmt" and n.ast is not None and any(norm(c.func) == "os.chdir" for c in calls_in(n.ast))]
        cwdv = [path_of(n.targets[0]) for n in walk_local(f.node) if isinstance(n, ast.Assign) and isinstance(n.value, ast.Call) and norm(n.value.func) in ("pathlib.Path.cwd", "os.getcwd", "Path.cwd")]
        into = [n for n in chd if not any(v and v in norm(n.ast) for v in cwdv)]
        back = [n for n in chd if any(v and v in norm(n.ast) for v in cwdv)]
        esc = flow.must_follow(g, into, back, exits=("exit",)) if into else []
        W.decide(bool(into) and bool(back) and not esc, fkey(f, "cwd-restored"), where(f), "every normal exit after os.chdir(<file dir>) passes os.chdir(<saved cwd>)",
                 f"{fn} can return normally without changing back to the saved working directory")

    # ---- D a shared file of the closure is read once -------------------------------------------------------------------------
    from .c12 import file_read_once

    D = chk.rule("C15-D", "a file reached by two import paths (different spellings of the same path) is read once: parse_file keys the once-only test by the resolved path", 4,
                 "read twice, the shared file's definitions conflict with themselves: a conflict-free closure is rejected and produces no output at all")
    file_read_once(prog, callgraph.get(prog), D)

    # ---- R reserved names / P descriptor preconditions -----------------------------------------------------------------------
    R = chk.rule("C15-R", "field names that collide with generated class attributes are rejected for every definition kind; emitted descriptors satisfy their constructors' preconditions", 3,
                 "a field named like a generated ClassVar (or a String/ByteArray of length 1) makes the generated Python module fail at import")
    py_mod, py_cls = BACKENDS["python"]
    okr, why, afn = reserved_name_verdict(prog)
    R.decide(okr, fkey(afn, "reserved-names-all-kinds"), where(afn), why, "a struct may declare a field named like a generated message attribute and pass it on through field-list reuse: " + why)
    # an array length reaches the back ends as an int: expand_expression returns whatever eval() produced (a float for any
    # expression with `/`), so the length handed to Field(...) must be coerced - `char[N / 2]` would otherwise be emitted as
    # `[128.0]` (C does not compile, String(128.0) raises at import) or crash the layout check
    def raw_eval_names(fn):
        """locals holding the un-coerced result of expand_expression (directly or through copies)"""
        names = set()
        changed = True
        while changed:
            changed = False
            for n in walk_local(fn.node):
                if not isinstance(n, (ast.Assign, ast.AnnAssign)) or n.value is None:
                    continue
                tg = n.targets if isinstance(n, ast.Assign) else [n.target]
                v = n.value
                from_eval = isinstance(v, ast.Call) and is_method_call(v, "expand_expression")
                from_copy = isinstance(v, ast.Name) and v.id in names
                if from_eval or from_copy:
                    for t in tg:
                        for x in (t.elts if isinstance(t, (ast.Tuple, ast.List)) else [t]):
                            if isinstance(x, ast.Name) and x.id not in names:
                                names.add(x.id)
                                changed = True
        return names

    def uncoerced(e, names):
        """does e use one of `names` outside an int(...) call?"""
        if isinstance(e, ast.Call) and isinstance(e.func, ast.Name) and e.func.id in ("int", "len", "str", "repr"):
            return False
        if isinstance(e, ast.Name):
            return e.id in names
        return any(uncoerced(c_, names) for c_ in ast.iter_child_nodes(e))

    nlen = 0
    for fn in prog.module(PAR).functions.values():
        rn_ = raw_eval_names(fn)
        for c in calls_in(fn.node):
            if isinstance(c.func, ast.Name) and c.func.id == "Field":
                lv = next((k.value for k in c.keywords if k.arg == "length"), None)
                if lv is None:
                    continue
                nlen += 1
                R.decide(not uncoerced(lv, rn_), fkey(fn, f"Field.length:{norm(lv)[:40]}"), where(fn, c), f"Field(length={norm(lv)[:30]}) does not carry an un-coerced eval() result",
                         f"{fn.qual}: Field(length={norm(lv)[:40]}) is the raw result of expand_expression - `N / 2` evaluates to a float and is emitted as `[128.0]`")
        for n in walk_local(fn.node):
            if isinstance(n, ast.Assign) and isinstance(n.value, ast.Call) and is_method_call(n.value, "expand_expression"):
                for t in n.targets:
                    for x in (t.elts if isinstance(t, (ast.Tuple, ast.List)) else [t]):
                        if isinstance(x, ast.Attribute) and x.attr == "length":
                            nlen += 1
                            R.bad(fkey(fn, f"store .length:{norm(n)[:40]}"), where(fn, n), f"{fn.qual}: `{norm(n)[:70]}` stores the raw result of expand_expression as an array length (a float for any expression with `/`)")
    if nlen < 3:
        raise AnalysisError(f"anchor vanished: expected >= 3 array lengths handed to Field(...) in the parser, found {nlen}")
    # preconditions of descriptor constructors (assert <len> > K in validators) vs. emission sites in get_descriptor
    vm = prog.module("pyrtma.validators")
    pre = {}
    for cname, ci in vm.classes.items():
        init = ci.methods.get("__init__")
        if init is None:
            continue
        for a in [x for x in init.node.body if isinstance(x, ast.Assert)]:
            t = a.test
            if isinstance(t, ast.Compare) and len(t.ops) == 1 and isinstance(t.ops[0], ast.Gt) and isinstance(t.comparators[0], ast.Constant) and isinstance(t.left, ast.Name):
                pre[cname] = t.comparators[0].value
    nchk = 0
    # wherever the Python back end emits a descriptor constructor (get_descriptor today; a helper it delegates to counts as well)
    for gdf in prog.cls(py_mod, py_cls).methods.values():
        rets = [n for n in walk_local(gdf.node) if isinstance(n, ast.Return) and isinstance(n.value, ast.JoinedStr)]
        if not rets or len(gdf.params()) < 2:
            continue
        gg = None
        for lenp in [q for q in gdf.params() if q != "self"]:
            for cname, k in pre.items():
                for r in rets:
                    txt = "".join(v.value if isinstance(v, ast.Constant) else "{" + norm(v.value) + "}" for v in r.value.values)
                    if not re.search(rf"= {cname}\(\{{{lenp}\}}\)", txt):
                        continue
                    if gg is None:
                        gg = C.build(gdf.node)
                        ggs = flow.guard_states(gg)
                    n = next(m for m in gg.nodes if m.ast is r)
                    nchk += 1
                    with G_.int_theory():
                        bad = G_.any_path_implies(ggs.at(n), G_.parse(f"{lenp} > {k}"))
                    R.decide(not bad, fkey(gdf, f"precondition:{cname}"), where(gdf, r), f"{cname}({{{lenp}}}) is emitted only when {lenp} > {k}",
                             f"{gdf.name} can emit {cname}({lenp}) with {lenp} <= {k}, but {cname}.__init__ asserts len > {k}: the generated module raises AssertionError at import")
    if nchk < 2:
        raise AnalysisError(f"anchor vanished: String/ByteArray emission sites in get_descriptor ({nchk})")
    chk.units.update({"reference_edges": [f"{a}->{b}" for a, b in edges]})

    # ---- P every accepted closure can be compiled wherever its files live --------------------------------------------------------------
    Pp = chk.rule("C15-P", "trim_root relates a file to the root with os.path.relpath (total), never with Path.relative_to (raises outside the root directory)", 1,
                  "a well-formed closure that imports `../common/types.yaml` would abort with an internal ValueError")
    tr = prog.func(PAR, "Parser.trim_root")
    uses_rel_to = [c for c in calls_in(tr.node) if isinstance(c.func, ast.Attribute) and c.func.attr == "relative_to"]
    uses_relpath = [c for c in calls_in(tr.node) if norm(c.func) in ("os.path.relpath", "relpath")]
    Pp.decide(bool(uses_relpath) and not uses_rel_to, fkey(tr, "total"), where(tr), "os.path.relpath: defined for every pair of paths",
              "trim_root uses Path.relative_to: it raises ValueError for a file outside the root file's directory (an import through `..` or an absolute path), "
              "so an accepted closure produces no outputs at all")

    # ---- C the ctypes mirror uses fixed-width types -------------------------------------------------------------------------------------
    Cc = chk.rule("C15-C", "the ctypes mirror that the size assertion is checked against uses fixed-width ctypes types only", 20,
                  "c_long / c_ulong are 8 bytes on LP64 platforms while RTMA's long is 4: every definition with a long field fails the final assertion")
    from .c04 import ctypes_table_entries

    for key, tname, loc in ctypes_table_entries(prog):
        Cc.decide(tname not in PLATFORM_SIZED_CTYPES, f"{PAR}|ctype:{key}", loc, f"{key} -> {tname}",
                  f"native type `{key}` is mirrored by ctypes.{tname}, whose size depends on the platform (LP64: 8 bytes): definitions using it are rejected by the size assertion on Linux / macOS")
