"""C05 - per-connection order, whole frames, gap-free sequence numbers (DESIGN §2 C05)."""
from __future__ import annotations

import ast
from typing import Dict, List, Optional

from .. import callgraph, cfg as C, flow, guards
from ..program import AnalysisError, Program, walk_local, unparse, norm
from ..report import Check
from ..types import Types
from ..util import calls_in, fkey, is_method_call, node_calls, node_has_call, path_of, recv_of, stores_to_attr, where

WRITE_PRIMS = {"send", "sendall", "sendto", "sendmsg", "sendfile", "write", "makefile"}
MGR = "pyrtma.manager"


def is_conn_type(t) -> bool:
    return t.kind == "ext" and t.name in ("socket.socket", "socket.socket()")


def socket_writes(prog: Program, ty: Types, module: str):
    """(FuncInfo, call) for every write primitive invoked on a socket-typed receiver in `module`."""
    out = []
    for f in prog.module(module).functions.values():
        for c in calls_in(f.node):
            if is_method_call(c, WRITE_PRIMS):
                rt = ty.expr(f, recv_of(c))
                if is_conn_type(rt):
                    out.append((f, c))
    return out


def run(prog: Program, chk: Check):
    ty = Types(prog)
    cg = callgraph.get(prog)
    chk.explanation = (
        "C05 decided as ownership + ordering facts of the manager's write path: who may write to a client socket, "
        "that each writer emits header-then-payload with sendall on every path, that the declared length is tied to the "
        "payload at every call site (transitively), that msg_count is incremented exactly once and stamped before the "
        "header write, and that the manager has a single thread of control. Not decided: TCP delivery, partial writes on failure."
    )
    chk.assumptions += [
        "socket.sendall either writes everything or raises; TCP preserves byte order (platform)",
        "receiver types come from the repository's own annotations (Module.conn: socket.socket)",
    ]
    module_cls = prog.cls(MGR, "Module")
    mm_cls = prog.cls(MGR, "MessageManager")

    # ---- C05-O sole writer -------------------------------------------------------
    R = chk.rule("C05-O", "only Module.send_message / Module.send_ack write to a client socket", 3,
                 "a second writer could interleave bytes inside a frame or skip the sequence counter")
    writers = {}
    for f, c in socket_writes(prog, ty, MGR):
        owner_ok = f.cls is module_cls and f.name in ("send_message", "send_ack")
        R.decide(owner_ok, fkey(f, c), where(f, c), f"{f.qual} is a frame writer", f"socket write {norm(c)} outside the frame writers (in {f.qual})")
        if owner_ok:
            writers[f.key] = f
    # sockets of clients must not escape to other modules of the package: any write primitive on a
    # Module.conn-typed path elsewhere
    for m in prog.modules.values():
        if m.name == MGR:
            continue
        for f in m.functions.values():
            for c in calls_in(f.node):
                if is_method_call(c, WRITE_PRIMS):
                    r = recv_of(c)
                    rt = ty.expr(f, r)
                    p = path_of(r) or ""
                    if is_conn_type(rt) and isinstance(r, ast.Attribute) and r.attr == "conn":
                        bt = ty.expr(f, r.value)
                        if bt.kind == "cls" and bt.cls is module_cls:
                            R.bad(fkey(f, c), where(f, c), f"write to a manager Module connection from {f.key}")
    for name in ("send_message", "send_ack"):
        if name not in module_cls.methods:
            raise AnalysisError(f"anchor vanished: Module.{name}")

    # ---- C05-W whole frames ----------------------------------------------------------
    W = chk.rule("C05-W", "each writer uses sendall, header before payload, both on every normal path, nothing in between", 2,
                 "a partial write or a call between header and payload breaks the frame structure of the byte stream")
    for f in [module_cls.methods["send_message"], module_cls.methods["send_ack"]]:
        g = C.build(f.node)
        params = f.params()
        sends = [(n, c) for n in g.nodes for c in node_calls(n) if is_method_call(c, WRITE_PRIMS) and is_conn_type(ty.expr(f, recv_of(c)))]
        if not sends:
            W.bad(fkey(f, "no-send"), where(f), "writer function performs no socket write")
            continue
        all_sendall = all(c.func.attr == "sendall" for _, c in sends)
        W.decide(all_sendall, fkey(f, "primitive"), where(f), "all writes use sendall",
                 "a write primitive other than sendall is used: " + ", ".join(norm(c) for _, c in sends if c.func.attr != "sendall"))
        # classify header / payload sends by argument type
        hdr_nodes, pay_nodes = [], []
        for n, c in sends:
            a0 = c.args[0] if c.args else None
            t = ty.expr(f, a0) if a0 is not None else None
            if t is not None and t.kind == "cls" and "MessageHeader" in prog.base_names(t.cls):
                hdr_nodes.append(n)
            else:
                pay_nodes.append(n)
        if len(hdr_nodes) != 1:
            W.bad(fkey(f, "header-send"), where(f), f"expected exactly one header write, found {len(hdr_nodes)}")
            continue
        hid = {hdr_nodes[0].id}
        # header send on every normal path entry->exit
        esc = flow.must_follow(g, [g.entry], hid, exits=("exit",))
        W.decide(not esc, fkey(f, "header-on-every-path"), where(f), "header write on every normal path",
                 "a normal path returns without writing the header")
        if f.name == "send_message":
            if len(pay_nodes) != 1:
                W.bad(fkey(f, "payload-send"), where(f), f"expected exactly one payload write, found {len(pay_nodes)}")
                continue
            pid = {pay_nodes[0].id}
            pc = [c for n, c in sends if n is pay_nodes[0]][0]
            pay_is_param = isinstance(pc.args[0], ast.Name) and pc.args[0].id in params
            W.decide(pay_is_param, fkey(f, "payload-arg"), where(f, pc), "payload write sends the payload parameter",
                     f"payload write sends {norm(pc.args[0])}, not the payload parameter")
            bad = flow.must_precede(g, hid, pid)
            W.decide(not bad, fkey(f, "header-before-payload"), where(f), "header write precedes payload write",
                     "payload can be written before the header")
            esc = flow.must_follow(g, hid, pid, exits=("exit",))
            W.decide(not esc, fkey(f, "payload-on-every-path"), where(f), "payload write follows header write on every normal path",
                     "a normal path writes the header and returns without the payload")
            # nothing between: nodes strictly between header and payload write have no calls
            fwd = flow.reach(g, [e.dst for e in g.succ[hdr_nodes[0].id] if e.kind != "exc"], blocked=pid, blocked_pass_exc=False)
            between = [g.nodes[x] for x in fwd if x not in pid and x not in hid and g.nodes[x].kind not in ("exit", "raise")]
            offenders = [n for n in between if node_calls(n) and pay_nodes[0].id in flow.reach(g, [n.id])]
            W.decide(not offenders, fkey(f, "nothing-between"), where(f), "no call between header and payload write",
                     "call(s) between header and payload write: " + "; ".join(norm(n.ast) for n in offenders))
        else:
            W.decide(not pay_nodes, fkey(f, "ack-header-only"), where(f), "acknowledgement writes a header only",
                     "send_ack writes more than a header")

    # ---- C05-S sequence numbers --------------------------------------------------------
    S = chk.rule("C05-S", "msg_count written only by the writers, +1 exactly once, stamped into header before the header write", 4,
                 "a skipped, doubled or late increment makes the per-connection sequence non-contiguous")
    # who-may-write Module.msg_count
    for f in prog.module(MGR).functions.values():
        for n in walk_local(f.node):
            tg = []
            if isinstance(n, ast.Assign):
                tg = n.targets
            elif isinstance(n, (ast.AugAssign, ast.AnnAssign)):
                tg = [n.target]
            for t in tg:
                if isinstance(t, ast.Attribute) and t.attr == "msg_count":
                    bt = ty.expr(f, t.value)
                    if bt.kind == "cls" and bt.cls is module_cls:
                        okw = f.key in writers
                        S.decide(okw, fkey(f, n), where(f, n), "counter written inside a frame writer",
                                 f"Module.msg_count written outside the frame writers: {norm(n)}")
    dflt = module_cls.class_consts.get("msg_count")
    S.decide(isinstance(dflt, ast.Constant) and dflt.value == 0, f"{MGR}::Module|msg_count default", where(module_cls.methods["send_message"]),
             "counter starts at 0 (first frame carries 1)", f"Module.msg_count default is {norm(dflt) if dflt is not None else 'missing'}, expected 0")
    for f in writers.values():
        g = C.build(f.node)

        def is_inc(n):
            a = n.ast
            return (n.kind == "stmt" and isinstance(a, ast.AugAssign) and isinstance(a.op, ast.Add) and isinstance(a.target, ast.Attribute)
                    and a.target.attr == "msg_count" and path_of(a.target.value) == "self"
                    and isinstance(a.value, ast.Constant) and a.value.value == 1)

        def is_other_count_store(n):
            return bool(stores_to_attr(n, "msg_count")) and not is_inc(n) and not is_stamp(n)

        def is_stamp(n):
            a = n.ast
            return (n.kind == "stmt" and isinstance(a, ast.Assign) and len(a.targets) == 1 and isinstance(a.targets[0], ast.Attribute)
                    and a.targets[0].attr == "msg_count" and path_of(a.targets[0].value) != "self"
                    and norm(a.value) == "self.msg_count")

        def is_hdr_send(n):
            for c in node_calls(n):
                if is_method_call(c, WRITE_PRIMS) and c.args:
                    t = ty.expr(f, c.args[0])
                    if t.kind == "cls" and "MessageHeader" in prog.base_names(t.cls):
                        return True
            return False

        incs = [n for n in g.nodes if is_inc(n)]
        lo, hi = flow.count_on_paths(g, is_inc, [g.entry.id], [g.exit.id])
        S.decide((lo, hi) == (1, 1), fkey(f, "increment-exactly-once"), where(f), "exactly one `self.msg_count += 1` on every normal path",
                 f"number of increments on a normal path ranges over [{lo}, {hi}], expected exactly 1")
        others = [n for n in g.nodes if is_other_count_store(n)]
        S.decide(not others, fkey(f, "no-other-count-store"), where(f), "no other store to a msg_count field",
                 "unexpected msg_count store: " + "; ".join(norm(n.ast) for n in others))
        b1 = flow.must_precede(g, is_inc, is_stamp)
        b2 = flow.must_precede(g, is_stamp, is_hdr_send)
        stamps = [n for n in g.nodes if is_stamp(n)]
        hdrname_ok = True
        for n in stamps:
            # stamped object must be the header that is sent
            tgt = path_of(n.ast.targets[0].value)
            sent = {path_of(c.args[0]) for m in g.nodes if is_hdr_send(m) for c in node_calls(m) if c.args}
            if tgt not in sent:
                hdrname_ok = False
        S.decide(bool(stamps) and not b1 and not b2 and hdrname_ok, fkey(f, "increment<stamp<header-write"), where(f),
                 "increment precedes stamp precedes header write, on the header that is sent",
                 "order increment -> header.msg_count = self.msg_count -> sendall(header) does not hold on every path")
        # no increment after the header write (count would run ahead of the stamped value)
        late = flow.must_follow(g, is_hdr_send, lambda n: False, exits=("exit",))
        after_inc = [n for n in incs if any(n.id in flow.reach(g, [h.id]) for h in g.nodes if is_hdr_send(h))]
        S.decide(not after_inc, fkey(f, "no-increment-after-write"), where(f), "no increment after the header write", "increment after the header write")

    # ---- C05-L declared length == bytes written ---------------------------------------------
    L = chk.rule("C05-L", "at every (transitive) call site the header's num_data_bytes is tied to the payload that is written", 5,
                 "a declared length different from the bytes written desynchronises the receiver's framing")
    sm = module_cls.methods["send_message"]
    seen = set()

    def check_pair(f, call, h, p, depth, chain):
        """h, p: argument expressions in f for header / payload."""
        key = (f.key, id(call))
        if key in seen or depth > 6:
            return
        seen.add(key)
        params = f.params()
        if isinstance(p, ast.Name) and p.id not in params:
            pc = guards_copy(f.node).get(p.id)
            if isinstance(pc, ast.Constant):
                p = pc  # `no_data = b""; send_message(h, no_data)`
        hp, pp = path_of(h), path_of(p)
        site = " -> ".join(chain + [f"{f.qual}:{norm(call)}"])
        if isinstance(h, ast.Name) and isinstance(p, ast.Name) and h.id in params and p.id in params:
            # stores to h.num_data_bytes in f would break the pairing
            st = [n for n in walk_local(f.node) if isinstance(n, ast.Assign) for t in n.targets
                  if isinstance(t, ast.Attribute) and t.attr == "num_data_bytes" and path_of(t.value) == h.id]
            if st:
                L.bad(fkey(f, call), where(f, call), f"{f.qual} rewrites {h.id}.num_data_bytes of a header it forwards")
                return
            sites = cg.call_sites_of(f.key)
            if not sites and prog.is_expanded_helper(f):
                return  # a new helper whose calls were all expanded in place: judged inside its callers
            if not sites:
                L.bad(fkey(f, call), where(f, call), f"no resolved caller of {f.qual}: pairing of header and payload cannot be established")
                return
            for cf, cc in sites:
                b = callgraph.bind_args(f, cc, bound_method=isinstance(cc.func, ast.Attribute))
                if h.id in b and p.id in b:
                    check_pair(cf, cc, b[h.id], b[p.id], depth + 1, chain + [f"{f.qual}"])
                else:
                    L.bad(fkey(cf, cc), where(cf, cc), f"cannot bind header/payload arguments of {f.qual}")
            return
        # local construction: find the store h.num_data_bytes = V dominating the call
        g = C.build(f.node)
        call_nodes = [n for n in g.nodes if any(c is call for c in node_calls(n))]
        cm = guards_copy(f.node)
        h_res = norm(cm.get(hp, h)) if hp in cm else hp

        def is_len_store(n):
            for t in stores_to_attr(n, "num_data_bytes"):
                if path_of(t.value) == hp:
                    return True
            return False

        # the manager's forward path is re-entrant (failure handling and logging publish nested messages): header and
        # payload objects handed to it must be fresh per call, never shared attributes
        from ..dataflow import definitions as _defs

        for role, ex in (("header", h), ("payload", p)):
            nm_ = path_of(ex)
            if nm_ is None or isinstance(ex, ast.Constant):
                continue
            if "." in nm_ and nm_.startswith("self.header"):
                continue  # the received header itself (same exemption as for a local that names it)
            if "." in nm_:
                L.bad(fkey(f, f"fresh-{role}:{norm(call)}"), where(f, call), f"{f.qual} passes the shared object `{nm_}` as {role}: a nested forward (failure notice, log record, CLIENT_CLOSED) overwrites it mid fan-out")
                continue
            ds = [d for d in _defs(f.node, nm_) if d[0] != "param"]
            shared = [norm(r) for k_, r in ds if isinstance(r, (ast.Attribute, ast.Name)) and (path_of(r) or "").startswith("self.") and not (path_of(r) or "").startswith("self.header")]
            if shared and not any(k_ == "param" for k_, _ in _defs(f.node, nm_)):
                L.bad(fkey(f, f"fresh-{role}:{norm(call)}"), where(f, call), f"{f.qual} uses the shared object {shared[0]} as {role} of an outgoing frame: a nested forward (failure notice, log record, CLIENT_CLOSED) overwrites it mid fan-out")
        stores = [n for n in g.nodes if is_len_store(n)]
        if stores:
            missing = flow.must_precede(g, is_len_store, call_nodes)
            okv = True
            why = []
            for n in stores:
                v = n.ast.value
                vt = norm(v)
                if isinstance(p, ast.Constant) and p.value == b"":
                    good = isinstance(v, ast.Constant) and v.value == 0
                elif pp is not None:
                    good = vt in (f"{pp}.type_size", f"ctypes.sizeof({pp})", f"sizeof({pp})", f"len({pp})")
                else:
                    good = False
                if not good:
                    okv = False
                    why.append(f"{norm(n.ast)} vs payload {norm(p)}")
            if missing and okv and hp is not None and "." not in hp:
                # a header taken from a per-object cache (`h = x.attr; if h is None: h = ...; h.num_data_bytes = V; x.attr = h`):
                # the cached object carries the length it was given when created, provided the attribute is only ever assigned
                # this very local (object identity), nobody else rewrites the length of a cached header, and the paths that
                # reach the send without a length store are exactly the `h is not None` ones (induction over the calls)
                cache_attrs = [r.attr for k_, r in _defs(f.node, hp) if k_ == "assign" and isinstance(r, ast.Attribute) and not (path_of(r) or "self.").startswith("self.")]
                cache_attrs += [r.args[1].value for k_, r in _defs(f.node, hp) if k_ == "assign" and isinstance(r, ast.Call) and isinstance(r.func, ast.Name) and r.func.id == "getattr" and len(r.args) >= 2
                                and isinstance(r.args[1], ast.Constant) and isinstance(r.args[1].value, str) and path_of(r.args[0]) not in (None, "self")]
                if cache_attrs:
                    attr = cache_attrs[0]
                    inv = True
                    for f2 in prog.module(MGR).functions.values():
                        g2 = None
                        for n2 in walk_local(f2.node):
                            if isinstance(n2, ast.Assign) and any(isinstance(t, ast.Attribute) and t.attr == attr for t in n2.targets):
                                if isinstance(n2.value, ast.Constant) and n2.value.value is None:
                                    continue
                                if not isinstance(n2.value, ast.Name) or f2.key != f.key:
                                    inv = False
                                    continue
                                if n2.value.id != hp:
                                    inv = False
                            # nobody else rewrites the length of a header loaded from the cache
                            if f2.key != f.key and isinstance(n2, ast.Assign) and any(isinstance(t, ast.Attribute) and t.attr == "num_data_bytes" and isinstance(t.value, ast.Name)
                                                                                     and any(isinstance(r, ast.Attribute) and r.attr == attr for _, r in _defs(f2.node, t.value.id)) for t in n2.targets):
                                inv = False
                    gsl = flow.guard_states(g, edge_filter=lambda e: not (is_len_store(g.nodes[e.src]) and e.kind != "exc"))
                    unstored = [p_ for cn_ in call_nodes for p_ in gsl.at(cn_)]
                    if inv and not guards.any_path_implies(unstored, guards.parse(f"{hp} is not None")):
                        missing = []
            L.decide(okv and not missing, fkey(f, call), where(f, call), f"length set from the payload on every path [{site}]",
                     f"declared length not tied to the payload: {'; '.join(why) or 'store does not dominate the send'} [{site}]")
            return
        # client traffic: payload is a slice of the receive buffer bounded by the same header's field
        pdef = cm.get(pp) if pp else None
        pexpr = pdef if pdef is not None else p
        # copy_map only keeps pure paths; look the definition up directly
        if pp and pdef is None:
            defs = [n for n in walk_local(f.node) if isinstance(n, ast.Assign) and len(n.targets) == 1
                    and isinstance(n.targets[0], ast.Name) and n.targets[0].id == pp]
            if len(defs) == 1:
                pexpr = defs[0].value
        good = False
        if isinstance(pexpr, ast.Subscript) and isinstance(pexpr.slice, ast.Slice):
            sl = pexpr.slice
            lower_ok = sl.lower is None or (isinstance(sl.lower, ast.Constant) and sl.lower.value == 0)
            up = sl.upper
            if lower_ok and sl.step is None and isinstance(up, ast.Attribute) and up.attr == "num_data_bytes":
                up_obj = path_of(up.value)
                up_res = norm(cm[up_obj]) if up_obj in cm else up_obj
                good = up_res == h_res or up_obj == hp
        L.decide(good, fkey(f, call), where(f, call), f"payload is buffer[:header.num_data_bytes] of the same header [{site}]",
                 f"neither a length store from the payload nor a slice bounded by the header's own num_data_bytes [{site}]: payload={norm(pexpr)}")

    from ..guards import copy_map as guards_copy

    for cf, cc in cg.call_sites_of(sm.key):
        b = callgraph.bind_args(sm, cc, bound_method=True)
        if "header" not in b or "payload" not in b:
            L.bad(fkey(cf, cc), where(cf, cc), "cannot bind header/payload at Module.send_message call")
            continue
        check_pair(cf, cc, b["header"], b["payload"], 0, [])
    # send_ack (Module): header-only frame must declare 0
    sa = module_cls.methods["send_ack"]
    st = [n for n in walk_local(sa.node) if isinstance(n, ast.Assign) for t in n.targets if isinstance(t, ast.Attribute) and t.attr == "num_data_bytes"]
    L.decide(len(st) == 1 and isinstance(st[0].value, ast.Constant) and st[0].value.value == 0, fkey(sa, "num_data_bytes=0"), where(sa),
             "header-only frame declares 0 payload bytes", "Module.send_ack does not declare num_data_bytes = 0")

    # ---- C05-H one header layout per stream ---------------------------------------------------------------------------------
    H = chk.rule("C05-H", "every Module is created with the manager's configured header class; headers written by the Module writers come from it", 2,
                 "a frame with a header of the other layout (48 vs 56 bytes) puts the receiver out of step: no later frame is whole")
    from .mgr import module_constructions

    for f_, c_, okc_ in module_constructions(prog):
        H.decide(okc_, fkey(f_, f"Module(header_cls):{norm(c_)[:40]}"), where(f_, c_), "Module created with header_cls=self.header_cls",
                 f"{f_.qual}: `{norm(c_)[:70]}` does not pass the configured header class: headers built through module.header_cls use the default layout")
    for f_ in prog.module(MGR).functions.values():
        for c_ in calls_in(f_.node):
            if isinstance(c_.func, ast.Name) and c_.func.id in ("MessageHeader", "TimeCodeMessageHeader"):
                H.bad(fkey(f_, c_), where(f_, c_), f"{f_.qual} builds a header of a fixed class: {norm(c_)[:50]}")
        # a header class as the default of a parameter is the same thing one step removed
        for d_ in list(f_.node.args.defaults) + [k_ for k_ in f_.node.args.kw_defaults if k_ is not None]:
            if isinstance(d_, ast.Name) and d_.id in ("MessageHeader", "TimeCodeMessageHeader"):
                H.bad(fkey(f_, f"default:{d_.id}"), where(f_), f"{f_.qual} defaults a parameter to the fixed header class {d_.id}: a caller that omits it writes the wrong layout")

    # ---- C05-Q between two recipients of one message nothing else is published (except the failure notices) ---------------------
    # A log record is republished by the manager's logger through forward_message: emitted inside the recipient loop on the
    # success path it reaches the recipients served earlier *after* the message and those served later *before* it - two
    # receivers disagree on the order of two messages they both get.
    Q = chk.rule("C05-Q", "inside the recipient loop of forward_message only failure handling (handlers, the drop branch) may publish", 1,
                 "a publication on the success path interleaves another message into the fan-out: receivers see the two in different orders")
    fwd = mm_cls.methods["forward_message"]
    from ..program import ancestors as _anc5
    cg5 = callgraph.get(prog)
    from .mgr import module_writers as _mw5

    writer_names = tuple(_mw5(prog)) + ("send_message",)
    loops5 = [lp for lp in walk_local(fwd.node) if isinstance(lp, ast.For) and any(is_method_call(c, writer_names) for c in calls_in(lp))]
    if not loops5:
        chk.defer_error("C05-Q: recipient loop of forward_message not found")  # must not hide what the other rules established
    npub = 0
    for (cnode, st_, fi, desc) in cg5.calls.get(fwd.key, []):
        if fi is None or not (fi.key == fwd.key or fwd.key in cg5.may_call(fi)):
            continue
        if not any(any(a is lp for a in _anc5(cnode)) for lp in loops5):
            continue
        npub += 1
        in_handler = any(isinstance(a, ast.ExceptHandler) for a in _anc5(cnode))
        # success path: in the same iteration a write to the recipient completes before or after the publication (normal edges only,
        # not across the loop head); the drop branch writes to nobody, a handler is reached through an exception edge
        g5 = C.build(fwd.node)
        pn = [n for n in g5.nodes if any(c is cnode for c in node_calls(n))]
        heads = {n.id for n in g5.nodes if n.kind == "for"}
        sn = {n.id for n in g5.nodes if any(is_method_call(c, "send_message") and path_of(recv_of(c)) != "self" for c in node_calls(n))}
        inside_loop = {n.id for n in g5.nodes if n.ast is not None and n.kind != "for" and any(any(a is lp for a in _anc5(n.ast)) for lp in loops5)}
        # one iteration at a time: normal edges only, and no way back to a loop head from inside its loop
        norm_edge = lambda e: e.kind not in ("exc", "except") and not (e.dst in heads and e.src in inside_loop)
        # (path facts with ghost marks, so that a flag decided in the drop branch - `deliver = False` ... `if deliver:` - does
        # not count as a way from the notice to the write)
        pids = {p_.id for p_ in pn}
        gm_a = flow.guard_states(g5, edge_filter=norm_edge, marks=lambda e: "@sent" if e.src in sn and e.kind not in ("exc", "except") else None)
        after_send_hit = any(any(norm(f_) == "@sent" for f_, _ in st_) for p_ in pn for st_ in gm_a.at(p_))
        gm_b = flow.guard_states(g5, edge_filter=norm_edge, marks=lambda e: "@published" if e.src in pids and e.kind not in ("exc", "except") else None)
        before_send_hit = any(any(norm(f_) == "@published" for f_, _ in st_) for s_ in sn for st_ in gm_b.at(g5.nodes[s_]))
        sends_here = after_send_hit or before_send_hit
        Q.decide(in_handler or not sends_here, fkey(fwd, f"publish:{norm(cnode)[:50]}"), where(fwd, cnode), "publication belongs to failure handling (handler / drop branch)",
                 f"forward_message: `{norm(cnode)[:70]}` publishes" + (" (log record -> manager logger -> forward_message)" if "emit" in (desc or "") else "")
                 + " on the success path of the recipient loop: recipients served before and after this one receive the two messages in different orders")
    if npub < 2:
        raise AnalysisError(f"anchor vanished: publications inside the recipient loop (found {npub})")

    # ---- C05-P a failed write never leaves the connection open -------------------------------------------------------
    P = chk.rule("C05-P", "every exception handler around a send to a module removes that module (whatever the exception class)", 3,
                 "sendall may have written part of a frame and the sequence counter is already incremented: keeping the connection open leaves a torn frame / a gap in its stream")
    from .c14 import conn_error_handlers

    for f in mm_cls.methods.values():
        for t, tsends in conn_error_handlers(prog, ty, f):
            rcp = path_of(recv_of(tsends[0]))
            for h in t.handlers:
                calls = [c for st_ in h.body for c in calls_in(st_)]
                removes = [c for c in calls if is_method_call(c, ("remove_module", "disconnect_module")) and c.args and path_of(c.args[0]) == rcp]
                reraises = any(isinstance(x, ast.Raise) and x.exc is None for st_ in h.body for x in walk_local(st_))
                P.decide(bool(removes) or reraises, fkey(f, f"handler({norm(h.type) if h.type is not None else 'bare'}):{norm(tsends[0])}"), where(f, h),
                         f"handler removes `{rcp}`", f"{f.qual}: handler `except {norm(h.type) if h.type is not None else ''}` around `{norm(tsends[0])}` keeps the connection open after a possibly partial frame")
    # no timeout / non-blocking mode on client connections inside the writers (sendall must complete or fail hard)
    for f in prog.module(MGR).functions.values():
        for c in calls_in(f.node):
            if is_method_call(c, ("settimeout", "setblocking")) and is_conn_type(ty.expr(f, recv_of(c))) and path_of(recv_of(c)) != "self.listen_socket":
                P.bad(fkey(f, c), where(f, c), f"{f.qual}: `{norm(c)}` makes writes on a client connection interruptible mid-frame")

    # ---- C05-T single thread of control --------------------------------------------------------
    T = chk.rule("C05-T", "manager.py creates no thread / task / executor / queue and processes messages synchronously", 2,
                 "a second thread of control could interleave two forwards on one connection")
    m = prog.module(MGR)
    conc = {"threading", "multiprocessing", "asyncio", "concurrent", "concurrent.futures", "queue", "_thread", "socketserver", "selectors"}
    bad_imp = [k for k, v in m.imports.items() if v.split(".")[0] in conc]
    T.decide(not bad_imp, f"{MGR}|imports", m.rel, "no concurrency module imported", f"concurrency import(s): {bad_imp}")
    asyncdefs = [n for n in ast.walk(m.tree) if isinstance(n, (ast.AsyncFunctionDef, ast.Await, ast.AsyncFor, ast.AsyncWith))]
    T.decide(not asyncdefs, f"{MGR}|async", m.rel, "no async construct", "async construct in manager.py")
    run = mm_cls.methods.get("run")
    if run is None:
        raise AnalysisError("anchor vanished: MessageManager.run")
    pm_calls = [c for c in calls_in(run.node) if is_method_call(c, "process_message") and path_of(recv_of(c)) == "self"]
    T.decide(len(pm_calls) >= 1, fkey(run, "process_message-sync"), where(run), "run() calls self.process_message(...) directly in the service loop",
             "run() no longer calls process_message synchronously")
    chk.units.update({"frame_writers": sorted(writers), "send_message_call_sites": len(cg.call_sites_of(sm.key)),
                      "manager_call_resolution": round(cg.resolved_share(MGR), 3)})
