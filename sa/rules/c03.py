"""C03 - no client can take the manager down (DESIGN §2 C03): the enumerated crash channels.

No sound whole-program "no exception escapes" argument exists for Python.  Decided: that none of the
repository-specific crash channels through which client-controlled data or client-caused failures reach the
uncaught region of run() is open."""
from __future__ import annotations

import ast
from typing import Dict, List, Optional, Set, Tuple

from .. import callgraph, cfg as C, dataflow, flow, guards
from ..program import AnalysisError, FuncInfo, Program, norm, walk_local, ancestors
from ..report import Check
from ..types import Types
from ..util import calls_in, fkey, is_method_call, node_calls, path_of, recv_of, where
from .mgr import client_read_coverage, module_writers, snapshot_loop_sends, MGR, CORE, const_resolver, self_call
from .c14 import conn_error_handlers, catches_conn_error
from .c19 import module_param

CONTAINERS = {"modules": "MessageManager.modules", "logger_modules": "MessageManager.logger_modules", "subscriptions": "MessageManager.subscriptions[*]", "subs": "Module.subs"}
MUT_METHODS = {"add", "discard", "remove", "pop", "popitem", "clear", "update", "setdefault", "append", "extend", "insert"}
ARRAY_DESCS = {"IntArray": 1, "FloatArray": 1, "StructArray": 1, "String": 0, "ByteArray": 0}


def array_fields(prog: Program) -> Dict[Tuple[str, str], int]:
    """(core_defs class, field) -> declared array length, read from the descriptor constructors of core_defs.py."""
    out = {}
    for name, ci in prog.module(CORE).classes.items():
        for st in ci.node.body:
            if isinstance(st, ast.AnnAssign) and isinstance(st.target, ast.Name) and isinstance(st.value, ast.Call):
                fn = norm(st.value.func)
                if fn in ARRAY_DESCS and len(st.value.args) > ARRAY_DESCS[fn] and isinstance(st.value.args[ARRAY_DESCS[fn]], ast.Constant):
                    out[(name, st.target.id)] = st.value.args[ARRAY_DESCS[fn]].value
    return out


def string_fields(prog: Program) -> Set[Tuple[str, str]]:
    out = set()
    for name, ci in prog.module(CORE).classes.items():
        for st in ci.node.body:
            if isinstance(st, ast.AnnAssign) and isinstance(st.target, ast.Name) and isinstance(st.value, ast.Call) and norm(st.value.func) in ("String", "Char"):
                out.add((name, st.target.id))
    return out


def direct_mutations(prog, ty, f: FuncInfo) -> List[Tuple[str, ast.AST]]:
    """Container identities f mutates directly."""
    out = []
    for n in walk_local(f.node):
        if isinstance(n, ast.Delete):
            for t in n.targets:
                if isinstance(t, ast.Subscript):
                    p = path_of(t.value) or ""
                    if p.split(".")[-1] in CONTAINERS:
                        out.append((CONTAINERS[p.split(".")[-1]], n))
        elif isinstance(n, ast.Assign):
            for t in n.targets:
                if isinstance(t, ast.Subscript):
                    p = path_of(t.value) or ""
                    if p.split(".")[-1] in ("modules",):
                        out.append((CONTAINERS["modules"], n))
        elif isinstance(n, ast.Call) and isinstance(n.func, ast.Attribute) and n.func.attr in MUT_METHODS:
            r = n.func.value
            if isinstance(r, ast.Subscript):
                p = path_of(r.value) or ""
                if p.split(".")[-1] == "subscriptions":
                    out.append((CONTAINERS["subscriptions"], n))
            else:
                p = path_of(r) or ""
                last = p.split(".")[-1]
                if last in ("modules", "logger_modules", "subs"):
                    out.append((CONTAINERS[last], n))
    return out


def recv_loops(fnode: ast.FunctionDef):
    """[(while loop, receive call, terminates_on_eof)] for every receive inside a `while` loop of fnode.  A receive that
    returns 0 / b'' (peer closed) must not lead back to another iteration: its own result is tested and the zero case
    leaves the loop."""
    out = []
    loops = [w for w in walk_local(fnode) if isinstance(w, ast.While) and any(is_method_call(c, ("recv", "recv_into", "recvfrom")) for c in calls_in(w))]
    if not loops:
        return out
    g = C.build(fnode)
    gs = flow.guard_states(g, focus=[c for w in loops for c in calls_in(w) if is_method_call(c, ("recv", "recv_into", "recvfrom"))])
    for w in loops:
        head = next((n for n in g.nodes if n.kind == "test" and n.ast is w.test), None)
        body_ids = {n.id for n in g.nodes if n.ast is not None and n.ast is not w.test and any(a is w for a in ancestors(n.ast))}
        for n in g.nodes:
            if n.id not in body_ids:
                continue
            for c in node_calls(n):
                if not is_method_call(c, ("recv", "recv_into", "recvfrom")):
                    continue
                if any(isinstance(a, ast.While) and a is not w and any(x is w for x in ancestors(a)) for a in ancestors(c)):
                    continue  # judged with the inner loop
                v = n.ast.targets[0].id if n.kind == "stmt" and isinstance(n.ast, ast.Assign) and len(n.ast.targets) == 1 and isinstance(n.ast.targets[0], ast.Name) and n.ast.value is c else None
                okl = False
                if v is not None and head is not None:
                    goals = [guards.parse(f"{v} != 0"), guards.parse(f"{v} > 0"), guards.parse(v), guards.parse(f"len({v}) != 0"), guards.parse(f"len({v}) > 0")]
                    back = [e for e in g.pred[head.id] if e.src in body_ids]
                    # facts on every way back to the loop test, plus the loop test itself holding for another iteration
                    cont = [(w.test, True)]
                    okl = bool(back)
                    for e in back:
                        paths = [list(p) + cont for p in gs.after_edge(e)]
                        # only the ways back that pass this receive matter
                        with guards.int_theory():
                            if not any(not guards.any_path_implies(paths, gl) for gl in goals):
                                if n.id in flow.reach(g, [n.id]) and e.src in flow.reach(g, [n.id], blocked={head.id}):
                                    okl = False
                out.append((w, c, okl))
    return out


def _recv_loop_fixture():
    import os
    p = os.path.join(os.path.dirname(os.path.dirname(os.path.dirname(os.path.abspath(__file__)))), "fixtures", "c03_recv_loop.py")
    tree = ast.parse(open(p, encoding="utf-8").read())
    from ..program import _set_parents
    _set_parents(tree)
    return {fn.name: [okl for _, _, okl in recv_loops(fn)] for fn in tree.body if isinstance(fn, ast.FunctionDef)}


def run(prog: Program, chk: Check):
    ty = Types(prog)
    cg = callgraph.get(prog)
    chk.explanation = (
        "C03: 'the process keeps running' in general is NOT decided (no sound may-raise analysis for Python). Decided: the enumerated "
        "crash channels into the uncaught region of run() are closed - (T) client-controlled operands (header / payload fields, the "
        "key sets of the traffic counters, the number of connections) reach partial primitives (recv size, fixed-array index, ASCII "
        "decode of a received string field) only under a dominating bounding guard or handler; (M) no loop over a manager container "
        "can have that container mutated by its own body (interprocedurally, including the logging -> send_message -> forward_message "
        "-> remove_module path) unless the loop is left at once; (U) loops over a snapshot of modules re-establish liveness before "
        "using a module and remove_module is idempotent; (B) every index into a fixed-length array of a manager-built message is "
        "bounded by the declared length; (H) every socket operation on a client connection is covered by a ConnectionError handler "
        "that removes the module."
    )
    chk.assumptions += ["only the listed partial primitives are considered (recv size, ctypes array index, dict deletion, ASCII decode of String fields)",
                        "a client that stops reading can stall the single-threaded manager (documented design, outside the property)"]
    mm = prog.cls(MGR, "MessageManager")
    mc = prog.cls(MGR, "Module")
    runf = mm.methods["run"]
    rm = mm.methods["remove_module"]
    roots = [mm.methods[n] for n in ("process_message", "send_timing_message", "send_traffic", "send_active_clients", "read_message", "disconnect_module")]
    region: Dict[str, FuncInfo] = {}
    for r in roots:
        region[r.key] = r
        for k in cg.may_call(r):
            fi = cg.funcs.get(k)
            if fi is not None and fi.module.name == MGR:
                region[k] = fi
    if len(region) < 20:
        raise AnalysisError(f"uncaught region unexpectedly small: {len(region)} functions")
    consts = prog.module_constants(CORE)
    arr = array_fields(prog)
    strs = string_fields(prog)

    # which exceptions does run() catch around the service loop? (computed, not assumed)
    caught = set()
    for t in walk_local(runf.node):
        if isinstance(t, ast.Try):
            for h in t.handlers:
                if h.type is not None:
                    caught |= {norm(x).split(".")[-1] for x in (h.type.elts if isinstance(h.type, ast.Tuple) else [h.type])}
    if caught & {"Exception", "BaseException", "OSError", "RuntimeError", "LookupError", "KeyError", "IndexError", "UnicodeDecodeError"} - {"ValueError"}:
        chk.note(f"run() now catches {sorted(caught)}: crash-channel rules remain necessary for 'keeps routing' but an escape may no longer end the process")

    # ---- taint helpers ------------------------------------------------------------------------------------
    hdr_is_client: Dict[Tuple[str, str], bool] = {}

    def header_param_tainted(f: FuncInfo, p: str, depth=0) -> bool:
        """Can parameter p (a MessageHeader) of f be the received client header?"""
        key = (f.key, p)
        if key in hdr_is_client:
            return hdr_is_client[key]
        hdr_is_client[key] = False
        res = False
        for cf, cc in cg.call_sites_of(f.key):
            b = callgraph.bind_args(f, cc, bound_method=isinstance(cc.func, ast.Attribute))
            a = b.get(p)
            if a is None:
                continue
            res = res or expr_taint(cf, a, depth + 1) is not None
        hdr_is_client[key] = res
        return res

    def expr_taint(f: FuncInfo, e: ast.AST, depth=0) -> Optional[str]:
        """Reason why the value of e is client controlled, or None."""
        if depth > 6:
            return None
        env = ty.locals_of(f)
        if isinstance(e, ast.Constant):
            return None
        if isinstance(e, ast.Attribute):
            p = path_of(e)
            base = e.value
            bt = ty.expr(f, base, env)
            if p and (p.startswith("self.header.") or p == "self.header"):
                return f"received header field {p}"
            if bt.kind == "cls" and "MessageHeader" in prog.base_names(bt.cls):
                t = expr_taint(f, base, depth + 1)
                return f"{t} -> .{e.attr}" if t else None
            if bt.kind == "cls" and bt.cls.module.name == CORE:
                t = expr_taint(f, base, depth + 1)
                return f"{t} -> .{e.attr}" if t else None
            if bt.kind == "cls" and bt.cls is mc:
                if e.attr in ("mod_id", "pid", "name"):
                    return module_field_taint.get(e.attr)
                return None
            if p in ("self.message", "self.message.data", "self.message.header"):
                return "received message"
            if isinstance(base, ast.Attribute) or isinstance(base, ast.Name):
                t = expr_taint(f, base, depth + 1)
                if t and e.attr in ("data", "header"):
                    return t
            return None
        if isinstance(e, ast.Name):
            defs = dataflow.definitions(f.node, e.id)
            reasons = []
            for kind, rhs in defs:
                if kind == "param":
                    t = env.get(e.id)
                    if t is not None and t.kind == "cls" and "MessageHeader" in prog.base_names(t.cls):
                        if header_param_tainted(f, e.id, depth):
                            reasons.append(f"header parameter `{e.id}` of {f.qual} (client frame forwarded by process_message)")
                    elif t is not None and t.kind == "cls" and t.cls.name == "Message":
                        reasons.append(f"received message parameter `{e.id}`")
                    else:
                        for cf, cc in cg.call_sites_of(f.key):
                            b = callgraph.bind_args(f, cc, bound_method=isinstance(cc.func, ast.Attribute))
                            if e.id in b:
                                t2 = expr_taint(cf, b[e.id], depth + 1)
                                if t2:
                                    reasons.append(t2)
                elif kind == "iter" or kind.startswith("unpack:iter"):
                    t2 = iter_taint(f, rhs, kind, depth)
                    if t2:
                        reasons.append(t2)
                elif kind in ("assign", "aug") or kind.startswith("unpack:assign"):
                    t2 = expr_taint(f, rhs, depth + 1)
                    if t2:
                        reasons.append(t2)
            return reasons[0] if reasons else None
        if isinstance(e, ast.Call):
            if is_method_call(e, ("from_buffer", "from_buffer_copy")) and e.args:
                return expr_taint(f, e.args[0], depth + 1)
            if isinstance(e.func, ast.Name) and e.func.id in ("int", "abs", "min", "max", "len"):
                if e.func.id == "len":
                    return None
                for a in e.args:
                    t = expr_taint(f, a, depth + 1)
                    if t:
                        return t
            return None
        if isinstance(e, ast.BinOp):
            if isinstance(e.op, ast.Mod):
                return None  # reduced modulo a constant: bounded
            return expr_taint(f, e.left, depth + 1) or expr_taint(f, e.right, depth + 1)
        if isinstance(e, ast.Subscript):
            return expr_taint(f, e.value, depth + 1)
        return None

    def iter_taint(f, it, kind, depth) -> Optional[str]:
        t = norm(it)
        for cn in ("message_counts", "traffic_counter"):
            if f"self.{cn}" in t and (kind.endswith(":0") or kind == "iter") and ".items()" in t or (f"self.{cn}" in t and ".keys()" in t) or t == f"self.{cn}":
                return counter_key_taint.get(cn)
        if t.startswith("enumerate(") and kind.endswith(":0") and ("self.modules" in t or "self.logger_modules" in t):
            return "index over the connection table (number of connections is not limited at admission)"
        return None

    # keys of the two counters are header.msg_type of whatever is forwarded
    counter_key_taint: Dict[str, Optional[str]] = {}
    fm = mm.methods["forward_message"]
    for cn in ("message_counts", "traffic_counter"):
        counter_key_taint[cn] = None
    module_field_taint: Dict[str, Optional[str]] = {"mod_id": None, "pid": None, "name": None}
    for cn in ("message_counts", "traffic_counter"):
        for n in walk_local(fm.node):
            if isinstance(n, ast.AugAssign) and isinstance(n.target, ast.Subscript) and path_of(n.target.value) == f"self.{cn}":
                t = expr_taint(fm, n.target.slice)
                if t:
                    counter_key_taint[cn] = f"key of {cn} <- {t}"

    # ---- T untrusted operands ---------------------------------------------------------------------------------
    T = chk.rule("C03-T", "client-controlled operands reach recv sizes, fixed-array indices and string decodes only under a bounding guard / handler", 5,
                 "an unbounded size, index or undecodable name raises ValueError / IndexError / UnicodeDecodeError in code run() does not guard")
    # Module field sanitisation obligation (mod_id): every tainted store is followed by a bound or a removal
    cmf = mm.methods["connect_module"]
    cmg = C.build(cmf.node)
    mp = module_param(prog, ty, cmf)
    res_c = const_resolver(prog, cmf.module)
    tainted_stores = [n for n in cmg.nodes if n.kind == "stmt" and isinstance(n.ast, ast.Assign) and any(path_of(t) == f"{mp}.mod_id" for t in n.ast.targets) and expr_taint(cmf, n.ast.value)]
    maxmod = consts["MAX_MODULES"]
    if tainted_stores:
        gsd = flow.guard_states(cmg, edge_filter=lambda e: not (cmg.nodes[e.src].kind == "stmt" and isinstance(cmg.nodes[e.src].ast, ast.Assign)
                                                              and any(path_of(t) == f"{mp}.mod_id" for t in cmg.nodes[e.src].ast.targets) and not expr_taint(cmf, cmg.nodes[e.src].ast.value) and e.kind != "exc"))
        ok_paths = True
        for e in cmg.pred[cmg.exit.id]:
            src = cmg.nodes[e.src]
            if src.kind == "stmt" and isinstance(src.ast, ast.Return) and isinstance(src.ast.value, ast.Constant) and not src.ast.value.value:
                continue  # refusal: the module was removed (C07-F)
            paths = [[(guards.fold_consts(x, res_c), pol) for x, pol in p] for p in gsd.after_edge(e)]
            with guards.int_theory():
                if guards.any_path_implies(paths, guards.parse(f"not ({mp}.mod_id < 0) and {mp}.mod_id < {maxmod}")):
                    ok_paths = False
        T.decide(ok_paths, fkey(cmf, "Module.mod_id:sanitised"), where(cmf), f"an admitted module's client-chosen mod_id is within [0, {maxmod}) (index into ModulePID)",
                 "connect_module can admit a module whose client-chosen mod_id is not bounded by MAX_MODULES (later used as an array index)")
    # views of a receive buffer have the buffer's length: self.X = memoryview(self.Y)
    init = mm.methods["__init__"]
    same_len: Dict[str, Set[str]] = {}
    for a_ in walk_local(init.node):
        if isinstance(a_, ast.Assign) and len(a_.targets) == 1 and isinstance(a_.value, ast.Call) and norm(a_.value.func) == "memoryview" and a_.value.args:
            x_, y_ = path_of(a_.targets[0]), path_of(a_.value.args[0])
            if x_ and y_:
                same_len.setdefault(x_, {x_}).add(y_)
                same_len.setdefault(y_, {y_}).add(x_)
    _cfgs: Dict[str, tuple] = {}

    def cfg_of(f):
        if f.key not in _cfgs:
            g_ = C.build(f.node)
            _cfgs[f.key] = (g_, flow.guard_states(g_))
        return _cfgs[f.key]

    def size_bounded(f, n, operand, buf, depth=0):
        """is the (client controlled) receive size `operand` into buffer `buf` bounded by 0 <= operand <= len(buf) at cfg node n of f?
        Looks through a receive helper: a size parameter is judged at every call site against the buffer passed there; the
        remainder form recv_into(view[k:], size - k) reduces to 0 <= k <= size and size bounded for view."""
        if depth > 4:
            return False
        g_, gs_ = cfg_of(f)
        res_ = const_resolver(prog, f.module)
        cmap = guards.copy_map(f.node)
        paths = [[(guards.fold_consts(guards.subst(e, cmap), res_), pol) for e, pol in p] for p in gs_.at(n)]

        def holds(txt):
            with guards.int_theory():
                return not guards.any_path_implies(paths, guards.fold_consts(guards.subst(guards.parse(txt), cmap), res_))

        if isinstance(operand, ast.BinOp) and isinstance(operand.op, ast.Sub) and isinstance(buf, ast.Subscript) and isinstance(buf.slice, ast.Slice) \
                and buf.slice.lower is not None and buf.slice.upper is None and norm(buf.slice.lower) == norm(operand.right):
            k, sz = norm(operand.right), norm(operand.left)
            if holds(f"not ({k} < 0)") and holds(f"not ({k} > {sz})"):
                return size_bounded(f, n, operand.left, buf.value, depth + 1)
            return False
        if isinstance(operand, ast.Name) and operand.id in f.params() and all(k_ == "param" for k_, _ in dataflow.definitions(f.node, operand.id)):
            sites = cg.call_sites_of(f.key)
            if not sites:
                return False
            for cf, cc in sites:
                b = callgraph.bind_args(f, cc, bound_method=isinstance(cc.func, ast.Attribute))
                a_op = b.get(operand.id)
                a_buf = b.get(buf.id) if isinstance(buf, ast.Name) and buf.id in f.params() else buf
                if a_op is None or a_buf is None:
                    return False
                if expr_taint(cf, a_op) is None:
                    continue
                cg_, _ = cfg_of(cf)
                cn = next((m for m in cg_.nodes if any(x is cc for x in node_calls(m))), None)
                if cn is None or not size_bounded(cf, cn, a_op, a_buf, depth + 1):
                    return False
            return True
        x = norm(operand)
        bufs = same_len.get(norm(buf), {norm(buf)})
        goals_ = [f"not ({x} < 0) and not ({x} > len({b_}))" for b_ in sorted(bufs)] + [f"not ({x} < 0) and not ({x} > self.max_data_size)", f"not ({x} < 0) and not ({x} > {consts.get('MAX_MESSAGE_SIZE', 65535)})"]
        return any(holds(t_) for t_ in goals_)

    sinks = 0
    for f in region.values():
        g = C.build(f.node)
        gs = None
        env = ty.locals_of(f)
        res = const_resolver(prog, f.module)
        for n in g.nodes:
            for piece in ([n.ast] if n.kind in ("stmt", "test") and n.ast is not None and not isinstance(n.ast, (ast.FunctionDef, ast.ClassDef)) else []):
                for sub in walk_local(piece):
                    operand, limit, what = None, None, None
                    if isinstance(sub, ast.Call) and is_method_call(sub, ("recv_into", "recv")) and sub.args:
                        if sub.func.attr == "recv_into" and len(sub.args) >= 2:
                            operand, buf = sub.args[1], sub.args[0]
                            what = f"size of {norm(sub)[:50]}"
                            limit = ("len", norm(buf))
                        elif sub.func.attr == "recv":
                            operand, what, limit = sub.args[0], f"size of {norm(sub)[:50]}", ("nonneg", None)
                    elif isinstance(sub, ast.Subscript) and isinstance(sub.value, ast.Attribute) and not isinstance(sub.slice, ast.Slice):
                        bt = ty.expr(f, sub.value.value, env)
                        if bt.kind == "cls" and (bt.cls.name, sub.value.attr) in arr:
                            operand, what, limit = sub.slice, f"index into {bt.cls.name}.{sub.value.attr}[{arr[(bt.cls.name, sub.value.attr)]}]", ("lt", arr[(bt.cls.name, sub.value.attr)])
                    if operand is None:
                        continue
                    sinks += 1
                    reason = expr_taint(f, operand)
                    if reason is None:
                        T.ok(fkey(f, f"{what}"), where(f, sub), "operand is not client controlled")
                        continue
                    if limit[0] == "len":
                        g2_, _ = cfg_of(f)
                        n2_ = next((m for m in g2_.nodes if m.ast is n.ast and m.kind == n.kind), None)
                        okb = n2_ is not None and size_bounded(f, n2_, operand, sub.args[0])
                        T.decide(okb, fkey(f, f"{what}"), where(f, sub), f"client-controlled ({reason}) but bounded by a dominating guard (here or at every call site of the receive helper)",
                                 f"{f.qual}: {what} is client controlled ({reason}) and not bounded on every path -> ValueError (negative or larger than the buffer)")
                        continue
                    gs = gs or flow.guard_states(g)
                    x = norm(operand)
                    paths = [[(guards.fold_consts(guards.subst(e, guards.copy_map(f.node)), res), pol) for e, pol in p] for p in gs.at(n)]
                    if limit[0] == "lt" and reason.startswith("index over the connection table"):
                        goals = [guards.parse(f"{x} < {limit[1]}")]  # enumerate() indices are non-negative by construction
                    elif limit[0] == "lt":
                        goals = [guards.parse(f"not ({x} < 0) and {x} < {limit[1]}")]
                    elif limit[0] == "len":
                        goals = [guards.parse(f"not ({x} < 0) and not ({x} > len({limit[1]}))"), guards.parse(f"not ({x} < 0) and not ({x} > self.max_data_size)"),
                                 guards.parse(f"not ({x} < 0) and not ({x} > {consts.get('MAX_MESSAGE_SIZE', 65535)})")]
                    else:
                        goals = [guards.parse(f"not ({x} < 0)")]
                    xs = guards.subst(guards.parse(x), guards.copy_map(f.node))
                    okb = False
                    with guards.int_theory():
                        for gl in goals:
                            gl2 = guards.fold_consts(guards.subst(gl, guards.copy_map(f.node)), res)
                            if not guards.any_path_implies(paths, gl2):
                                okb = True
                    T.decide(okb, fkey(f, f"{what}"), where(f, sub), f"client-controlled ({reason}) but bounded by a dominating guard",
                             f"{f.qual}: {what} is client controlled ({reason}) and not bounded on every path -> " + {"lt": "IndexError", "len": "ValueError (negative or larger than the buffer)", "nonneg": "ValueError"}[limit[0]])
        # string fields of received payloads (implicit ASCII decode in String.__get__)
        for sub in walk_local(f.node):
            if isinstance(sub, ast.Attribute) and isinstance(sub.ctx, ast.Load):
                bt = ty.expr(f, sub.value, env)
                if not (bt.kind == "cls" and bt.cls.module.name == CORE):
                    # isinstance narrowing: `if isinstance(msg.data, cd.MDF_X): ... msg.data.name`
                    for a in ancestors(sub):
                        if isinstance(a, ast.If) and isinstance(a.test, ast.Call) and norm(a.test.func) == "isinstance" and len(a.test.args) == 2 \
                                and norm(a.test.args[0]) == norm(sub.value) and any(sub in list(walk_local(st)) for st in a.body):
                            nt = ty.expr(f, a.test.args[1], env)
                            if nt.kind == "type" and nt.elem is not None and nt.elem.kind == "cls":
                                bt = nt.elem
                                break
                if bt.kind == "cls" and (bt.cls.name, sub.attr) in strs and expr_taint(f, sub.value):
                    sinks += 1
                    covered = False
                    for a in ancestors(sub):
                        if isinstance(a, ast.Try) and any(sub in list(walk_local(st)) for st in a.body):
                            for h in a.handlers:
                                names = [norm(x).split(".")[-1] for x in (h.type.elts if isinstance(h.type, ast.Tuple) else [h.type])] if h.type is not None else ["*"]
                                if any(x in ("UnicodeDecodeError", "UnicodeError", "ValueError", "Exception", "*") for x in names):
                                    covered = True
                    T.decide(covered, fkey(f, f"decode:{norm(sub)}"), where(f, sub), "decode of client bytes is inside a handler",
                             f"{f.qual}: reading `{norm(sub)}` decodes client-supplied bytes as ASCII outside any handler -> UnicodeDecodeError for a non-ASCII name")
    # the handlers above protect the manager only if the decode they guard can actually fail: String.__get__ must decode
    # strictly.  A lenient decode (errors="replace"/"ignore") lets a non-ASCII name through as text, and the first
    # `msg.name = module.name` in a manager-built message then raises UnicodeEncodeError in code nobody guards
    vmod = prog.module("pyrtma.validators")
    sget = vmod.functions.get("String.__get__")
    if sget is None:
        raise AnalysisError("anchor vanished: validators.String.__get__")
    decs = [c for c in calls_in(sget.node) if is_method_call(c, "decode")]
    lenient = [c for c in decs if len(c.args) >= 2 or any(k.arg == "errors" and not (isinstance(k.value, ast.Constant) and k.value.value == "strict") for k in c.keywords)]
    T.decide(bool(decs) and not lenient and all(c.args and isinstance(c.args[0], ast.Constant) and str(c.args[0].value).lower().replace("-", "") in ("ascii", "usascii") for c in decs),
             fkey(sget, "strict-ascii-decode"), where(sget), "received string fields are decoded strictly as ASCII (the UnicodeDecodeError handlers of the manager are the sanitiser)",
             "String.__get__ no longer decodes strictly as ASCII: a non-ASCII client name is accepted as text and re-encoding it into CLIENT_INFO / CLIENT_CLOSED raises UnicodeEncodeError outside any handler")
    if sinks < 8:
        raise AnalysisError(f"anchor vanished: expected >= 8 partial-primitive sinks in the uncaught region, found {sinks}")

    # ---- L receive loops end when the peer has closed ---------------------------------------------------------------------
    L = chk.rule("C03-L", "a loop that completes a partial receive leaves the loop when a receive returns 0 bytes (peer closed in the middle of a frame)", 1,
                 "recv on a closed connection returns 0 at once, every time: a completion loop that does not test for it spins forever and the single-threaded manager serves nobody")
    fxl = _recv_loop_fixture()
    if fxl != {"spins_on_eof": [False], "stops_on_eof": [True], "stops_on_eof_truthy": [True], "loop_condition_tests_result": [True]}:
        raise AnalysisError(f"C03-L self-check: fixtures/c03_recv_loop.py must yield one spinning and three terminating loops, got {fxl}")
    nrl = 0
    for f in prog.module(MGR).functions.values():
        for w, c, okl in recv_loops(f.node):
            nrl += 1
            L.decide(okl, fkey(f, f"recv-loop:{norm(c)[:50]}"), where(f, c), "a 0-byte result leaves the loop",
                     f"{f.qual}: `{norm(c)[:60]}` inside `while {norm(w.test)[:40]}` - when the peer has closed, the receive returns 0 and the loop runs again without end (manager hangs)")
    L.ok("C03-L|scan", MGR, f"{nrl} receive loop(s) in manager.py; detector exercised on fixtures/c03_recv_loop.py")

    # ---- M mutate while iterating (interprocedural) --------------------------------------------------------------
    M = chk.rule("C03-M", "no loop over a live manager container whose body may (transitively) mutate that container without leaving the loop", 6,
                 "RuntimeError: dictionary/set changed size during iteration ends run()")
    summary: Dict[str, Set[str]] = {}
    for fi in cg.funcs.values():
        if fi.module.name == MGR:
            summary[fi.key] = {c for c, _ in direct_mutations(prog, ty, fi)}
    changed = True
    while changed:
        changed = False
        for k in list(summary):
            fi = cg.funcs[k]
            for cal in cg.callees(fi):
                if cal.key in summary and not summary[cal.key] <= summary[k]:
                    summary[k] |= summary[cal.key]
                    changed = True
    nloops = 0
    for f in [x for x in cg.funcs.values() if x.module.name == MGR and x.cls in (mm, mc)]:
        g = None
        for lp in [n for n in walk_local(f.node) if isinstance(n, ast.For)]:
            it = lp.iter
            t = norm(it)
            cont = None
            snapshot = isinstance(it, ast.Call) and isinstance(it.func, ast.Name) and it.func.id in ("list", "tuple", "sorted", "set", "frozenset")
            inner = it.args[0] if snapshot and it.args else it
            if isinstance(inner, ast.Call) and isinstance(inner.func, ast.Name) and inner.func.id == "enumerate" and inner.args:
                inner = inner.args[0]
            core = inner.func.value if isinstance(inner, ast.Call) and isinstance(inner.func, ast.Attribute) and inner.func.attr in ("values", "keys", "items") else inner
            if isinstance(core, ast.Subscript) and (path_of(core.value) or "").endswith(".subscriptions"):
                cont = CONTAINERS["subscriptions"]
            else:
                last = (path_of(core) or "").split(".")[-1]
                if last in ("modules", "logger_modules", "subs") and (path_of(core) or "").count(".") >= 1:
                    cont = CONTAINERS[last]
            if cont is None:
                continue
            nloops += 1
            if snapshot:
                M.ok(fkey(f, f"for {norm(lp.target)} in {t[:50]}"), where(f, lp), "iterates a snapshot copy")
                continue
            g = g or C.build(f.node)
            head = next(n for n in g.nodes if n.kind == "for" and n.ast is lp)
            offenders = []
            for n in g.nodes:
                if n.ast is None or not any(a is lp for a in ancestors(n.ast)):
                    continue
                muts = set()
                if n.kind in ("stmt", "test"):
                    probe = n.ast
                    for c0, node0 in direct_mutations(prog, ty, type("F", (), {"node": probe})()):
                        muts.add(c0)
                for (cnode, st, fi, desc) in cg.calls.get(f.key, []):
                    if fi is not None and fi.key in summary and any(cnode is c for c in node_calls(n)) :
                        if cont in summary[fi.key]:
                            muts.add(cont + f" via {fi.qual}" + (" (logging -> send_message -> forward_message -> remove_module)" if "emit" in desc else ""))
                hit = [m for m in muts if m.startswith(cont)]
                if not hit:
                    continue
                # after the mutation every path must leave the loop without returning to its head
                back = flow.reach(g, [e.dst for e in g.succ[n.id] if e.kind != "exc"], follow=lambda e: e.kind not in ("exc", "except"))
                if head.id in back:
                    offenders.append(f"{norm(n.ast)[:60]} [{hit[0]}]")
            M.decide(not offenders, fkey(f, f"for {norm(lp.target)} in {t[:50]}"), where(f, lp), f"body cannot change {cont} and iterate again",
                     f"{f.qual}: loop over {cont} continues after its body may mutate it: " + "; ".join(offenders[:3]))
    if nloops < 6:
        raise AnalysisError(f"anchor vanished: expected >= 6 loops over manager containers, found {nloops}")

    # ---- U use after remove ------------------------------------------------------------------------------------------
    U = chk.rule("C03-U", "snapshot loops re-establish liveness before using a module; remove_module tolerates an already removed module", 3,
                 "a module removed by a nested failure is written to again (OSError on a closed socket) or removed twice (KeyError)")
    rg = C.build(rm.node)
    rp = module_param(prog, ty, rm)
    rgs = flow.guard_states(rg)
    dels = [n for n in rg.nodes if n.kind == "stmt" and isinstance(n.ast, ast.Delete) and any(isinstance(t, ast.Subscript) and path_of(t.value) == "self.modules" for t in n.ast.targets)]
    pops = [n for n in rg.nodes if any(is_method_call(c, "pop") and path_of(recv_of(c)) == "self.modules" and len(c.args) == 2 for c in node_calls(n))]
    live_goal = [guards.parse(f"{rp}.conn in self.modules"), guards.parse(f"{rp}.connected"), guards.parse(f"self.modules.get({rp}.conn) is {rp}")]
    idem = bool(pops) and not dels
    from .mgr import lookup_aliases
    la = lookup_aliases(rm.node, rp)  # `registered = self.modules.get(module.conn)` names the lookup
    rgs_at = lambda n: [[(guards.subst(e_, la), pol_) for e_, pol_ in p_] for p_ in rgs.at(n)] if la else rgs.at(n)
    if dels:
        idem = all(any(not guards.any_path_implies(rgs_at(n), gl) for gl in live_goal) for n in dels)
    # the CLIENT_CLOSED notice must not be repeated for a removed module either
    scc = [n for n in rg.nodes if any(self_call("send_client_close")(c) for c in node_calls(n))]
    idem_notice = all(any(not guards.any_path_implies(rgs_at(n), gl) for gl in live_goal) for n in scc) if scc else False
    U.decide(idem and idem_notice, fkey(rm, "idempotent"), where(rm), "remove_module does nothing for a module that is no longer in the table",
             "remove_module(module) on an already removed module raises KeyError at `del self.modules[module.conn]` / republishes CLIENT_CLOSED (it is reachable twice for one module: nested removal during forward_message)")
    for f, lp, c, verdict in snapshot_loop_sends(prog, ty, cg, mm, rm):
        if verdict == "no-nested-removal":
            U.ok(fkey(f, f"loop:{norm(lp.iter)[:40]}"), where(f, lp), "body cannot remove modules")
        else:
            U.decide(verdict == "live", fkey(f, f"liveness-before:{norm(c)}"), where(f, c), "liveness of the module is re-established in this iteration before the send",
                     f"{f.qual}: `{norm(c)}` may address a module that an earlier iteration's failure handling already removed (closed socket -> OSError, not a ConnectionError)")

    # the service loop itself: a module removed earlier in the same round (nested removal while processing another
    # client's frame) must not be read from: liveness of the source is re-established per iteration
    rung = C.build(runf.node)
    reads = [n for n in rung.nodes if any(self_call("read_message")(c) for c in node_calls(n))]
    rungs = flow.guard_states(rung, focus=[n.ast for n in reads if n.ast is not None])
    if len(reads) != 1:
        raise AnalysisError("anchor vanished: read_message call in run()")
    rc = [c for c in node_calls(reads[0]) if self_call("read_message")(c)][0]
    sock = norm(rc.args[0]) if rc.args else "?"
    cmr = guards.copy_map(runf.node)
    # the liveness test must be evaluated inside the loop that services the ready set (facts are killed when the loop
    # variable is rebound, so a fact that survives to the read was established in this iteration)
    lp_anc = [a for a in ancestors(rc) if isinstance(a, ast.For)]
    goals = [f"self.modules.get({sock})", f"{sock} in self.modules"]
    for nm, rhs in cmr.items():
        pass
    okl = False
    for p_ in [rungs.at_expr(reads[0], rc)]:
        for gl in goals:
            if not guards.any_path_implies([[(guards.subst(e, {}), pol) for e, pol in path] for path in p_], guards.parse(gl)):
                okl = True
        # `src = self.modules.get(sock); if src:` form
        for path in p_:
            pass
    if not okl:
        # accept a truthiness fact on a local defined in the same iteration as self.modules.get(<sock>)
        for d in walk_local(runf.node):
            if isinstance(d, ast.Assign) and isinstance(d.value, ast.Call) and norm(d.value) == f"self.modules.get({sock})" and lp_anc and any(x is lp_anc[0] for x in ancestors(d)):
                v = path_of(d.targets[0])
                if v and (not guards.any_path_implies(rungs.at_expr(reads[0], rc), guards.parse(v)) or not guards.any_path_implies(rungs.at_expr(reads[0], rc), guards.parse(f"{v} is not None"))):
                    okl = True
    U.decide(okl and bool(lp_anc), fkey(runf, "service-loop-liveness"), where(runf, rc), "each ready socket is looked up in the table again right before it is read",
             f"run(): `{norm(rc)}` can read from a connection whose module an earlier frame of the same round already removed (closed socket -> OSError EBADF, not a ConnectionError)")

    # ---- H handler coverage -------------------------------------------------------------------------------------------------
    H = chk.rule("C03-H", "every socket read/write on a client connection is covered by a ConnectionError handler that removes the module", 4,
                 "an uncovered reset on one client's socket ends run() for everybody")
    nH = 0
    for f in mm.methods.values():
        for c in calls_in(f.node):
            if is_method_call(c, module_writers(prog)) and ty.expr(f, recv_of(c)).is_cls("Module"):
                nH += 1
                tr = next((a for a in ancestors(c) if isinstance(a, ast.Try) and any(c in calls_in(s) for s in a.body)), None)
                okh = tr is not None and any(catches_conn_error(h) and any(self_call("remove_module")(x) or self_call("disconnect_module")(x) for s in h.body for x in calls_in(s)) for h in tr.handlers)
                H.decide(okh, fkey(f, c), where(f, c), "write covered by a removing ConnectionError handler", f"{f.qual}: `{norm(c)}` is not covered by a ConnectionError handler that removes the module")
    for rf, rc_, hs in client_read_coverage(prog, cg, mm):
        nH += 1
        okh = hs is not None and all(any(self_call("remove_module")(x) or self_call("disconnect_module")(x) for s_ in h.body for x in calls_in(s_)) for h in hs)
        H.decide(okh, fkey(rf, rc_), where(rf, rc_), "read covered by a removing ConnectionError handler (here or around every call chain)",
                 f"{rf.qual}: `{norm(rc_)[:60]}` is not covered by a ConnectionError handler that removes the module" + ("" if hs is None else " (a covering handler does not remove it)"))
    # accept() failures
    acc = [c for c in calls_in(runf.node) if is_method_call(c, "accept")]
    for c in acc:
        nH += 1
        tr = next((a for a in ancestors(c) if isinstance(a, ast.Try) and any(c in calls_in(s) for s in a.body)), None)
        H.decide(tr is not None, fkey(runf, c), where(runf, c), "accept is inside a try", "accept() is outside any try")
    chk.units.update({"uncaught_region_functions": len(region), "partial_primitive_sinks": sinks, "container_loops": nloops, "socket_sites": nH,
                      "counter_key_taint": counter_key_taint})

    # ---- K lookups keyed by a client-chosen message type are total ---------------------------------------------------------------
    # UNSUBSCRIBE / PAUSE for a type nobody ever subscribed to, or a data frame of a never-seen type, index the manager's tables
    # with a key that may be absent.  That is harmless for a defaultdict / Counter; on a plain dict it is a KeyError out of run().
    K = chk.rule("C03-K", "tables of MessageManager indexed by a client-chosen message type are defaultdict / Counter, or the lookup is guarded by membership / a KeyError handler", 5,
                 "a KeyError raised by one client's control frame ends run() and with it every connection")
    mm_ci = prog.cls(MGR, "MessageManager")
    init_ = mm_ci.methods.get("__init__")
    ctor_of: Dict[str, str] = {}
    for n_ in walk_local(init_.node) if init_ is not None else []:
        tg_ = n_.targets[0] if isinstance(n_, ast.Assign) and len(n_.targets) == 1 else (n_.target if isinstance(n_, ast.AnnAssign) and n_.value is not None else None)
        if tg_ is not None and (path_of(tg_) or "").startswith("self."):
            v_ = n_.value
            ctor_of[path_of(tg_)] = (norm(v_.func).split(".")[-1] if isinstance(v_, ast.Call) else type(v_).__name__)
    nk = 0
    occ_: Dict[Tuple[str, str], int] = {}
    for f_ in mm_ci.methods.values():
        g_ = None
        for x_ in walk_local(f_.node):
            if not (isinstance(x_, ast.Subscript) and isinstance(x_.ctx, ast.Load) or (isinstance(x_, ast.Subscript) and isinstance(getattr(x_, "_parent", None), ast.AugAssign) and x_._parent.target is x_)):
                continue
            tab = path_of(x_.value)
            if tab is None or not tab.startswith("self.") or tab not in ctor_of:
                continue
            keytxt = norm(x_.slice)
            by_type = "msg_type" in keytxt or keytxt in ("ALL_MESSAGE_TYPES", "sub_type", "mt") or any(w in keytxt for w in ("sub_type",))
            if not by_type or ctor_of[tab] not in ("defaultdict", "Counter", "dict", "Dict", "OrderedDict"):
                continue
            nk += 1
            occ_[(f_.qual, keytxt)] = occ_.get((f_.qual, keytxt), 0) + 1
            tag_ = f"{tab}[{keytxt}]" + (f"#{occ_[(f_.qual, keytxt)]}" if occ_[(f_.qual, keytxt)] > 1 else "")
            if ctor_of[tab] in ("defaultdict", "Counter"):
                K.ok(fkey(f_, f"total:{tag_}"), where(f_, x_), f"{tab} is a {ctor_of[tab]}")
                continue
            # a key drawn from the table itself (`for t in self.subscriptions: ... self.subscriptions[t]`) is present
            own_key = any(isinstance(a_, ast.For) and keytxt in {n3.id for n3 in ast.walk(a_.target) if isinstance(n3, ast.Name)}
                          and norm(a_.iter).replace("list(", "").replace("tuple(", "").rstrip(")").split(".keys(")[0].split(".items(")[0] == tab for a_ in ancestors(x_))
            # ... and so is a key drawn from a module's own record of its subscriptions (`for t in module.subs`): C01's mirror
            # rules tie every entry of .subs to an insertion into the table under the same key
            own_key = own_key or any(isinstance(a_, ast.For) and keytxt in {n3.id for n3 in ast.walk(a_.target) if isinstance(n3, ast.Name)}
                                     and norm(a_.iter).replace("list(", "").replace("tuple(", "").rstrip(")").endswith(".subs") for a_ in ancestors(x_))
            if own_key:
                K.ok(fkey(f_, f"own-key:{tag_}"), where(f_, x_), "key iterated from the table itself")
                continue
            # plain dict: membership guard on every path, or a KeyError handler around it
            handled = any(isinstance(a_, ast.Try) and any(h_.type is None or any(w in norm(h_.type) for w in ("KeyError", "LookupError", "Exception")) for h_ in a_.handlers)
                          and any(b_ is x_ or any(c_ is x_ for c_ in ast.walk(b_)) for b_ in a_.body) for a_ in ancestors(x_))
            guarded = False
            if not handled:
                if g_ is None:
                    g_ = C.build(f_.node)
                    gs_ = flow.guard_states(g_)
                node_ = next((n2 for n2 in g_.nodes if n2.ast is not None and any(c_ is x_ for c_ in ast.walk(n2.ast)) and n2.kind in ("stmt", "test", "return", "for", "with")), None)
                if node_ is not None:
                    guarded = not guards.any_path_implies(gs_.at_expr(node_, x_), guards.parse(f"{keytxt} in {tab}"))
            K.decide(handled or guarded, fkey(f_, f"lookup:{tag_}"), where(f_, x_), "membership-guarded / KeyError handled",
                     f"{f_.qual}: `{norm(x_)}` on a plain dict: a frame naming a type that was never registered raises KeyError out of run() (every connection is lost)")
    if nk < 5:
        raise AnalysisError(f"anchor vanished: expected >= 5 lookups keyed by message type in MessageManager, found {nk}")

    # ---- V the service loop runs with field validation off, unconditionally -----------------------------------------------------
    # The manager copies client-supplied values (names, ids) into the fields of the messages it builds (CLIENT_INFO, ACTIVE_CLIENTS,
    # FAILED_MESSAGE...).  With validation on, a value the wire format allows but the validator refuses (a 32-byte name without NUL)
    # raises ValueError inside run(), where nothing catches it: one client ends the manager.  So the loop must sit inside
    # `with disable_message_validation():` and that block must not be switchable (ignore=<option> re-enables validation).
    V = chk.rule("C03-V", "MessageManager.run services its clients inside an unconditional disable_message_validation() block", 1,
                 "with validation re-enabled (e.g. in debug mode) a client-supplied name that fills its field raises ValueError out of run()")
    blocks = [(w, it.context_expr) for w in walk_local(runf.node) if isinstance(w, ast.With) for it in w.items
              if isinstance(it.context_expr, ast.Call) and norm(it.context_expr.func).split(".")[-1] == "disable_message_validation"]
    if not blocks:
        V.bad(fkey(runf, "validation-off"), where(runf), "run() does not disable message validation around its service loop")
    svc = [c for c in calls_in(runf.node) if self_call("process_message")(c) or self_call("read_message")(c)]
    for w, ce in blocks:
        ig = [k.value for k in ce.keywords if k.arg == "ignore"] + list(ce.args[:1])
        uncond = not ig or all(isinstance(v, ast.Constant) and not v.value for v in ig)
        covers = bool(svc) and all(any(a is w for a in ancestors(c)) for c in svc)
        V.decide(uncond and covers, fkey(runf, "validation-off"), where(runf, w), "the whole service loop runs with validation off, whatever the options",
                 "run(): " + (f"validation is re-enabled when `{norm(ig[0])}` is true: a client-supplied value refused by a validator raises out of the service loop" if not uncond
                              else "process_message / read_message are called outside the disable_message_validation() block"))

    # ---- R client-chosen text reaches the console only through the escaped message ------------------------------------------------
    # The console handler renders rich markup and RichLogFormatter escapes record.msg only.  A module name is client-chosen ASCII:
    # passed as a %-argument (`logger.info("CONNECT - %s", name)`) it is formatted in *after* the escape and `[/x]` makes rich
    # raise MarkupError out of the logging call, i.e. out of run().
    Rr = chk.rule("C03-R", "manager log calls carry their text in the (escaped) message, never in %-style arguments", 1,
                  "a client-chosen name containing rich markup raises MarkupError inside the logging call and ends run()")
    clm = prog.modules.get("pyrtma.client_logging")
    esc_only_msg = False
    if clm is not None:
        for f in clm.functions.values():
            if f.name == "format" and f.cls is not None and "Formatter" in f.cls.name:
                txt = [norm(n) for n in walk_local(f.node) if isinstance(n, ast.Assign)]
                esc_only_msg = any(t.replace(" ", "") == "record.msg=escape(record.msg)" for t in txt) and not any("record.args" in t for t in txt)
    if not esc_only_msg:
        chk.note("C03-R lapses: the console formatter no longer escapes exactly record.msg (re-read client_logging.RichLogFormatter)")
        Rr.ok("pyrtma.client_logging|formatter", "", "formatter escapes more than record.msg: rule not applicable")
    else:
        nlog = 0
        for f in mm.methods.values():
            for c in calls_in(f.node):
                if isinstance(c.func, ast.Attribute) and c.func.attr in ("debug", "info", "warning", "error", "critical", "exception", "log") and "logger" in (path_of(c.func.value) or ""):
                    nlog += 1
                    extra = c.args[2:] if c.func.attr == "log" else c.args[1:]
                    if extra:
                        Rr.bad(fkey(f, c), where(f, c), f"{f.qual}: `{norm(c)[:80]}` passes {len(extra)} %-argument(s): they are formatted into the record after the markup escape "
                                                         "(client-chosen names reach the rich console unescaped)")
        if nlog < 10:
            raise AnalysisError(f"anchor vanished: manager log calls (found {nlog})")
        if not Rr.instances:
            Rr.ok(f"{MGR}|log-calls", "", f"{nlog} log call(s) of the manager pass only a message")

    # ---- X tearing a connection down cannot raise -------------------------------------------------------------------------------
    from .mgr import teardown_socket_calls

    X = chk.rule("C03-X", "socket calls other than close() on a client connection being torn down are covered by an OSError handler", 1,
                 "shutdown() on a reset connection raises OSError(ENOTCONN), not ConnectionError: it escapes remove_module and run()")
    for fq, c, okx in teardown_socket_calls(prog):
        X.decide(okx, f"{fq}|{norm(c)[:50]}", where(prog.func(MGR, fq), c), "covered by `except OSError` (or broader)",
                 f"{fq}: `{norm(c)[:60]}` can raise OSError (ENOTCONN on a reset peer) and only ConnectionError - or nothing - is caught: one client's reset ends the manager")
    if not X.instances:
        X.ok(f"{MGR}|teardown", "", "no socket call besides close() on the removal path; the positive example in fixtures/c03_socket_teardown.py matched")
