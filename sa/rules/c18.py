"""C18 - manager traffic statistics are exact (DESIGN §2 C18)."""
from __future__ import annotations

import ast
from typing import Dict, List

from .. import callgraph, cfg as C, flow, guards
from ..program import AnalysisError, Program, norm, walk_local, ancestors
from ..report import Check
from ..setalg import FixedArray, Interp, ModelRaise, Obj
from ..types import Types
from ..util import calls_in, fkey, is_method_call, node_calls, path_of, recv_of, where
from .mgr import const_resolver, module_writers, MGR, CORE, self_call

COUNTERS = ("message_counts", "traffic_counter")


def aug_incs(f, cpath):
    am = alias_map(f, [cpath])
    return [n for n in walk_local(f.node) if isinstance(n, ast.AugAssign) and isinstance(n.target, ast.Subscript) and rpath(n.target.value, am) == cpath]


def alias_map(f, cpaths):
    """locals bound exactly once to (a prefix of) a counter's access path (`interval = self.traffic`): {local: that path}"""
    defs: Dict[str, list] = {}
    for n in walk_local(f.node):
        if isinstance(n, ast.Assign) and len(n.targets) == 1 and isinstance(n.targets[0], ast.Name):
            defs.setdefault(n.targets[0].id, []).append(n.value)
        elif isinstance(n, (ast.AugAssign, ast.AnnAssign, ast.For)) and isinstance(getattr(n, "target", None), ast.Name):
            defs.setdefault(n.target.id, []).extend([None, None])
    out = {}
    for k, vs in defs.items():
        if len(vs) == 1 and vs[0] is not None:
            p = path_of(vs[0])
            if p and any(cp == p or cp.startswith(p + ".") for cp in cpaths) and p != "self":
                out[k] = guards.parse(p)
    return out


def rpath(e, am):
    return path_of(guards.subst(e, am)) if am else path_of(e)


def discover_counters(mm, fm, hdr_p):
    """the counters are what forward_message increments under the message's type; which is which follows from the reporter
    that walks it.  {name used in reports: access path} - `self.traffic_counter` today, `self.traffic.counts` when the
    interval state is kept in an object of its own."""
    paths = []
    for n in walk_local(fm.node):
        if isinstance(n, ast.AugAssign) and isinstance(n.target, ast.Subscript) and norm(n.target.slice) == f"{hdr_p}.msg_type" and path_of(n.target.value):
            if path_of(n.target.value) not in paths:
                paths.append(path_of(n.target.value))
    out = {"message_counts": "self.message_counts", "traffic_counter": "self.traffic_counter"}
    for cn, rn in (("message_counts", "send_timing_message"), ("traffic_counter", "send_traffic")):
        if out[cn] in paths:
            continue
        rf = mm.methods.get(rn)
        if rf is None:
            continue
        for p in paths:
            if p in out.values():
                continue
            am = alias_map(rf, [p])
            reads = [x for x in walk_local(rf.node) if isinstance(x, ast.Call) and isinstance(x.func, ast.Attribute) and x.func.attr in ("items", "keys", "values") and rpath(x.func.value, am) == p]
            if reads:
                out[cn] = p
    return out


_RAISED_CACHE: Dict[int, tuple] = {}


def inside_ctx(n, ctx_expr) -> bool:
    """is the call n made while the manager's "sending statistics" flag is raised?  ctx_expr is either the text of the
    context-manager call the reporters use (`self.sending_traffic_ctx()`: lexical containment in the with block) or
    ("flag", "self.sending_traffic") when the reporters raise the flag themselves (`token = FLAG.set(True)` ... `FLAG.reset(token)`):
    then every path from the function's entry to the call passes a set(True) and no reset lies between the last set and the call."""
    if isinstance(ctx_expr, str):
        return any(isinstance(a, ast.With) and any(norm(it.context_expr) == ctx_expr for it in a.items) for a in ancestors(n))
    flagp = ctx_expr[1]
    fn = next((a for a in ancestors(n) if isinstance(a, (ast.FunctionDef, ast.AsyncFunctionDef))), None)
    if fn is None:
        return False
    if id(fn) not in _RAISED_CACHE:
        g = C.build(fn)
        sets = [x for x in g.nodes if any(is_method_call(c, "set") and path_of(recv_of(c)) == flagp and c.args and isinstance(c.args[0], ast.Constant) and c.args[0].value is True for c in node_calls(x))]
        resets = [x for x in g.nodes if any(is_method_call(c, ("reset", "set")) and path_of(recv_of(c)) == flagp and x not in sets for c in node_calls(x))]
        low = flow.reach(g, [g.entry.id], blocked={x.id for x in sets}, blocked_pass_exc=True)  # reached with no completed set
        after_reset = flow.reach(g, [e.dst for r in resets for e in g.succ[r.id] if e.kind != "exc"], blocked={x.id for x in sets}, blocked_pass_exc=True)
        _RAISED_CACHE[id(fn)] = (g, {x.id for x in sets}, low, after_reset, fn)
    g, set_ids, low, after_reset, _keep = _RAISED_CACHE[id(fn)]
    nodes = [x for x in g.nodes if any(c is n for c in node_calls(x))]
    return bool(nodes) and bool(set_ids) and all(x.id not in set_ids and x.id not in low and x.id not in after_reset for x in nodes)


def reporter_units(mm, rf, stop: set, ctx_expr, depth=3):
    """rf and the MessageManager methods it calls on self (transitively, not through the send path):
    (function, every call chain to it runs inside the statistics block, chain of (caller, call) links)."""
    out, seen = [], set()

    def go(u, in_ctx, chain, d):
        if (u.key, in_ctx) in seen or d > depth:
            return
        seen.add((u.key, in_ctx))
        out.append((u, in_ctx, chain))
        for c in calls_in(u.node):
            if isinstance(c.func, ast.Attribute) and path_of(c.func.value) == "self" and c.func.attr in mm.methods and c.func.attr not in stop | {"send_message"} and not c.func.attr.startswith("__"):
                go(mm.methods[c.func.attr], in_ctx or (bool(ctx_expr) and inside_ctx(c, ctx_expr)), chain + [(u, c)], d + 1)

    go(rf, False, [], 0)
    return out


def run(prog: Program, chk: Check):
    ty = Types(prog)
    cg = callgraph.get(prog)
    chk.explanation = (
        "C18 decided as: (I) both counters are incremented only in forward_message, keyed by header.msg_type, exactly once on every "
        "path with statistics enabled and before any early return, never while statistics are being sent; (R) each counter is cleared "
        "only by its own reporter after the copy, and nothing that can forward a message runs between copy and clear outside the "
        "sending_traffic block; (T) the timing table stores every counted type and every module's pid; (K) the chunking of "
        "send_traffic, decided by abstract interpretation of its current source over symbolic (type, count) entries for table sizes "
        "around 0, K and 2K (the loop is periodic in K): the sub-messages of one report list every entry exactly once with its own "
        "count and nothing else. Not decided: uint16 saturation of counts, interval timing."
    )
    mm = prog.cls(MGR, "MessageManager")
    fm = mm.methods["forward_message"]
    g = C.build(fm.node)
    gs = flow.guard_states(g)
    hdr_p = next(p for p in fm.params() if ty.locals_of(fm).get(p) is not None and ty.locals_of(fm)[p].kind == "cls" and "MessageHeader" in prog.base_names(ty.locals_of(fm)[p].cls))

    # ---- I counted exactly where forwarded -----------------------------------------------------------------
    I = chk.rule("C18-I", "counters are incremented only in forward_message[header.msg_type], once per handled message, before any return, not while sending statistics", 6,
                 "a second increment site, a skipped path or counting the statistics messages themselves makes the report inexact")
    cpath = discover_counters(mm, fm, hdr_p)
    chk.units["counter_paths"] = dict(cpath)
    for f in mm.methods.values():
        for cn in COUNTERS:
            for n in aug_incs(f, cpath[cn]):
                okk = f.key == fm.key and norm(n.target.slice) == f"{hdr_p}.msg_type" and isinstance(n.op, ast.Add) and isinstance(n.value, ast.Constant) and n.value.value == 1
                I.decide(okk, fkey(f, n), where(f, n), f"{cn}[{hdr_p}.msg_type] += 1 in forward_message", f"{cn} is incremented in {f.qual} as `{norm(n)}`")
            for n in walk_local(f.node):
                if isinstance(n, ast.Assign) and any(isinstance(t, ast.Subscript) and rpath(t.value, alias_map(f, [cpath[cn]])) == cpath[cn] for t in n.targets):
                    I.bad(fkey(f, n), where(f, n), f"{cn} entry assigned directly in {f.qual}: {norm(n)}")
    # the exclusion mechanism is read off the code: the context-manager method the reporters send under, and the
    # flag that method sets.  A guard computed from the message itself (its type, its source) is not a mechanism:
    # a client's own message with those properties would go uncounted.
    ctx_name, flag = None, None
    for rn in ("send_timing_message", "send_traffic"):
        rf = mm.methods.get(rn)
        if rf is None:
            raise AnalysisError(f"anchor vanished: MessageManager.{rn}")
        for f2 in [u for u, _, _ in reporter_units(mm, rf, {fm.name}, "")]:
            for w in walk_local(f2.node):
                if isinstance(w, ast.With):
                    for itm in w.items:
                        ce = itm.context_expr
                        if isinstance(ce, ast.Call) and isinstance(ce.func, ast.Attribute) and path_of(ce.func.value) == "self" and ce.func.attr in mm.methods and not ce.args:
                            cand = mm.methods[ce.func.attr]
                            if any(d.split(".")[-1] == "contextmanager" for d in cand.decorators):
                                for c in calls_in(cand.node):
                                    if is_method_call(c, "set") and (path_of(recv_of(c)) or "").startswith("self.") and c.args and isinstance(c.args[0], ast.Constant) and c.args[0].value is True:
                                        ctx_name, flag = cand.name, path_of(recv_of(c))
    flag_kind = False
    if ctx_name is None:
        # the reporters may raise the flag themselves: `token = self.<flag>.set(True)` ... `self.<flag>.reset(token)`
        fl = set()
        for rn in ("send_timing_message", "send_traffic"):
            for f2 in [u for u, _, _ in reporter_units(mm, mm.methods[rn], {fm.name}, "")]:
                for c in calls_in(f2.node):
                    if is_method_call(c, "set") and (path_of(recv_of(c)) or "").startswith("self.") and c.args and isinstance(c.args[0], ast.Constant) and c.args[0].value is True:
                        fl.add(path_of(recv_of(c)))
        if len(fl) == 1:
            flag = next(iter(fl))
            flag_kind = True
    if ctx_name is None and not flag_kind:
        I.bad(fkey(fm, "exclusion-mechanism"), where(fm), "the reporters do not send their statistics messages inside a block that raises a manager-side flag: nothing distinguishes the manager's own "
              "statistics messages from client messages of the same types")
        ctx_name, flag = "sending_traffic_ctx", "self.sending_traffic"
    ctx_expr = f"self.{ctx_name}()" if not flag_kind else ("flag", flag)
    ctx_label = ctx_expr if not flag_kind else f"the {flag}.set(True) ... reset(token) block"
    for cn, extra in (("traffic_counter", ""), ("message_counts", " and self.b_send_msg_timing")):
        incs = [n for n in g.nodes if n.kind == "stmt" and isinstance(n.ast, ast.AugAssign) and isinstance(n.ast.target, ast.Subscript) and rpath(n.ast.target.value, alias_map(fm, [cpath[cn]])) == cpath[cn]]
        if len(incs) != 1:
            I.bad(fkey(fm, f"{cn}:single-site"), where(fm), f"expected one increment of {cn} in forward_message, found {len(incs)}")
            continue
        goal = guards.parse(f"not {flag}.get(){extra}")
        I.decide(not guards.any_path_implies(gs.at(incs[0]), goal), fkey(fm, f"{cn}:guard"), where(fm, incs[0].ast), f"increment guarded by `{norm(goal)}`",
                 f"{cn} increment is not guarded by `{norm(goal)}` (statistics messages would be counted / flag ignored)")
        # ... and by nothing computed from the message: every handled message counts, whatever its type or source
        msg_tests = sorted({norm(a.test)[:70] for a in ancestors(incs[0].ast) if isinstance(a, (ast.If, ast.While)) and any(isinstance(x, ast.Name) and x.id in fm.params() and x.id != "self" for x in ast.walk(a.test))})
        I.decide(not msg_tests, fkey(fm, f"{cn}:guard-independent-of-message"), where(fm, incs[0].ast), "the increment is not conditioned on the message",
                 f"{cn} increment is conditioned on the message itself ({msg_tests}): client messages failing the test are handled but not counted")
        # with counting enabled, no path reaches a return / the routing code without the increment
        inc_ids = {incs[0].id}
        gs2 = flow.guard_states(g, edge_filter=lambda e: not (e.src in inc_ids and e.kind != "exc"))
        later = [n for n in g.nodes if (n.kind == "stmt" and isinstance(n.ast, ast.Return)) or any(is_method_call(c, module_writers(prog)) for c in node_calls(n)) or n.kind == "exit"]
        bad = []
        for n in later:
            ps = gs2.at(n) if n.kind != "exit" else [p for e in g.pred[g.exit.id] for p in gs2.after_edge(e) if not (e.src in inc_ids)]
            if guards.any_path_implies(ps, guards.parse(f"not (not {flag}.get(){extra})")):
                bad.append(n)
        I.decide(not bad, fkey(fm, f"{cn}:counted-before-any-exit"), where(fm), "every exit / send of an enabled call is preceded by the increment (out-of-range destinations are still counted)",
                 f"forward_message can return or deliver without counting in {cn} although counting is enabled")
        lo, hi = flow.count_on_paths(g, inc_ids, [g.entry.id], [g.exit.id])
        I.decide(hi <= 1, fkey(fm, f"{cn}:at-most-once"), where(fm), "at most one increment per call", f"{cn} can be incremented {hi} times in one call")
    # both reporters send under the sending_traffic block
    for rn in ("send_timing_message", "send_traffic"):
        rf = mm.methods[rn]
        sends_out = []
        nsends = 0
        for u, in_ctx, _chain in reporter_units(mm, rf, {ctx_name, fm.name}, ctx_expr):
            for c in calls_in(u.node):
                if self_call("send_message")(c) or self_call("forward_message")(c):
                    nsends += 1
                    if not (in_ctx or inside_ctx(c, ctx_expr)):
                        sends_out.append(f"{u.name}: {norm(c)[:50]}")
        okw = nsends > 0 and not sends_out
        I.decide(okw, fkey(rf, "sends-inside-ctx"), where(rf), f"every statistics message is sent inside {ctx_label}", f"{rn} sends a statistics message outside {ctx_label}: it would be counted ({sends_out})")
    if flag_kind:
        # each reporter that raises the flag lowers it again with the token of its own set, on every normal path
        for rn in ("send_timing_message", "send_traffic"):
            for u, _, _ in reporter_units(mm, mm.methods[rn], {fm.name}, ""):
                ug_ = C.build(u.node)
                sets_ = [n for n in ug_.nodes if any(is_method_call(c, "set") and path_of(recv_of(c)) == flag for c in node_calls(n))]
                if not sets_:
                    continue
                toks = {path_of(n.ast.targets[0]) for n in sets_ if isinstance(n.ast, ast.Assign) and len(n.ast.targets) == 1}
                rs_ = [n for n in ug_.nodes if any(is_method_call(c, "reset") and path_of(recv_of(c)) == flag and c.args and path_of(c.args[0]) in toks for c in node_calls(n))]
                okr_ = len(sets_) == 1 and len(toks) == 1 and bool(rs_) and not flow.must_follow(ug_, sets_, rs_, exits=("exit",))
                I.decide(okr_, fkey(u, "sets-flag"), where(u), "the flag is set once and reset with its own token on every normal path",
                         f"{u.name} raises {flag} without resetting it (with the token of that set) on every normal path: later client messages would go uncounted")
    else:
        ctx = mm.methods.get(ctx_name)
        if ctx is None:
            ctx = fm  # reported above as a missing mechanism; the flag rule below then fails on forward_message
        sets = [c for c in calls_in(ctx.node) if is_method_call(c, "set") and path_of(recv_of(c)) == "self.sending_traffic"]
        I.decide(len(sets) == 1 and isinstance(sets[0].args[0], ast.Constant) and sets[0].args[0].value is True and any(is_method_call(c, "reset") for c in calls_in(ctx.node)), fkey(ctx, "sets-flag"), where(ctx),
                 "the block sets the flag and resets it afterwards", "sending_traffic_ctx does not set(True)/reset the flag")
        cx = C.build(ctx.node)
        ys = [n for n in cx.nodes if n.kind == "stmt" and isinstance(n.ast, ast.Expr) and isinstance(n.ast.value, ast.Yield)]
        rs = [n for n in cx.nodes if any(is_method_call(c, "reset") for c in node_calls(n))]
        if flow.must_follow(cx, ys, rs, exits=("raise",), from_exc_of_A=True):
            chk.note("O-8 sending_traffic_ctx restores its flag without try/finally; an exception inside the block ends run() anyway (C03), so not charged to C18")

    # ---- R read-then-reset -------------------------------------------------------------------------------------
    R = chk.rule("C18-R", "each counter is cleared only by its reporter, after the copy, on every path; nothing forwards between copy and clear outside the statistics block", 4,
                 "a message forwarded between copy and clear is counted and then erased unreported")
    fwd_key = fm.key
    for cn, rn in (("message_counts", "send_timing_message"), ("traffic_counter", "send_traffic")):
        rf = mm.methods[rn]
        cp = cpath[cn]

        def is_reset(x, f, cp=cp):
            """x empties the counter: `<counter>.clear()`, or - when the counter lives in an interval object - the statement that
            installs a new interval object (a store to a strict prefix of the counter's path; that the new object starts empty is
            decided by C18-K's post-condition)"""
            am = alias_map(f, [cp])
            if isinstance(x, ast.Call):
                return is_method_call(x, "clear") and rpath(recv_of(x), am) == cp
            if isinstance(x, ast.Assign):
                return any(path_of(t) and path_of(t) != "self" and cp.startswith(path_of(t) + ".") for t in x.targets)
            return False

        def resets_in(node, f):
            return [x for x in walk_local(node) if (isinstance(x, ast.Call) or isinstance(x, ast.Assign)) and is_reset(x, f)]

        for f in mm.methods.values():
            runits = {u.key for u, _, _ in reporter_units(mm, rf, {ctx_name, fm.name}, ctx_expr)}
            for c in resets_in(f.node, f):
                if f.name == "__init__" and isinstance(c, ast.Assign):
                    continue
                R.decide(f.key in runits, fkey(f, c), where(f, c), f"{cn} cleared by its reporter", f"{cn} emptied (`{norm(c)[:50]}`) in {f.qual}")
            for n in walk_local(f.node):
                if isinstance(n, ast.Assign) and any(path_of(t) == cp for t in n.targets) and f.name != "__init__":
                    R.bad(fkey(f, n), where(f, n), f"{cn} rebound in {f.qual}")
        units = reporter_units(mm, rf, {ctx_name, fm.name}, ctx_expr)
        has_clear = lambda u: bool(resets_in(u.node, u))
        cu = [(u, chain) for u, _, chain in units if has_clear(u)]
        if len({u.key for u, _ in cu}) != 1:
            R.bad(fkey(rf, f"{cn}:copy-then-clear"), where(rf), f"{rn}: expected the clear of {cn} in exactly one place of the reporter, found {sorted({u.name for u, _ in cu})}")
            continue
        body = cu[0][0]
        # every link of every call chain from the reporter to the clearing function is unconditional: the clear happens once per report
        cond_links = []
        for u, chain in cu:
            for caller, call in chain:
                cgf = C.build(caller.node)
                cn_nodes = [n for n in cgf.nodes if any(c is call for c in node_calls(n))]
                if not cn_nodes or flow.must_follow(cgf, [cgf.entry], cn_nodes, exits=("exit",)):
                    cond_links.append(f"{caller.name} -> {norm(call)[:50]}")
        R.decide(not cond_links, fkey(rf, f"{cn}:cleared-every-interval"), where(rf), f"the clear of {cn} is reached on every normal path of {rn}",
                 f"{rn} reaches the clear of {cn} only conditionally ({cond_links}): counts of an interval without a report leak into the next report")
        rf_ = body
        rg = C.build(rf_.node)
        # "the copy": the statements that read the counter's contents - a loop over its items, or a snapshot of them
        # (`items = list(self.traffic_counter.items())`) that later loops walk
        def reads_counter(n_):
            if n_.ast is None:
                return False
            ex = n_.ast.iter if n_.kind == "for" else (n_.ast.value if n_.kind == "stmt" and isinstance(n_.ast, (ast.Assign, ast.AnnAssign)) and n_.ast.value is not None else None)
            if ex is None:
                return False
            txt = norm(guards.subst(ex, alias_map(rf_, [cp])))
            return any(t_ in txt for t_ in (f"{cp}.items()", f"{cp}.keys()", f"{cp}.values()", f"dict({cp})", f"list({cp})", f"{cp}.copy()"))

        loops = [n for n in rg.nodes if reads_counter(n)]
        clears = [n for n in rg.nodes if n.ast is not None and n.kind == "stmt" and ((isinstance(n.ast, ast.Assign) and is_reset(n.ast, rf_)) or any(is_reset(c, rf_) for c in node_calls(n)))]
        # a clear that is not preceded by the copy is tolerated only on a branch taken when nobody is subscribed to the
        # report (the branch condition reads self.subscriptions); what that branch does is decided by C18-K's two scenarios
        gsr = flow.guard_states(rg)
        early = [c for c in clears if flow.must_precede(rg, loops, [c])]
        unexplained = [c for c in early if not all(any("self.subscriptions" in norm(ex) for ex, _pol in p) for p in gsr.at(c))]
        clears = [c for c in clears if c not in early]
        if len(loops) < 1 or len(clears) != 1 or unexplained:
            R.bad(fkey(rf, f"{cn}:copy-then-clear"), where(rf_), f"{rf_.name}: expected one copy loop over {cn}.items() followed by one clear, found {len(loops)} loop(s), {len(clears)} clear(s) after it"
                  + (f", and a clear without a preceding copy at line {[c.ast.lineno for c in unexplained]}" if unexplained else ""))
            continue
        okc = not flow.must_follow(rg, [rg.entry], clears + early, exits=("exit",))
        # the clear comes after the loop finished (not inside it)
        okc = okc and not any(isinstance(a, (ast.For, ast.While)) and any(x is rf_.node for x in ancestors(a)) for a in ancestors(clears[0].ast))
        R.decide(okc, fkey(rf, f"{cn}:copy-then-clear"), where(rf_), "copy loop completes, then the counter is cleared, on every normal path", f"{rf_.name} does not clear {cn} after copying it on every path")
        # calls between the copy loop and the clear that can forward must sit inside the ctx block
        between = flow.reach(rg, [loops[0].id], blocked={clears[0].id}, blocked_pass_exc=False)
        offenders = []
        for nid in between:
            n = rg.nodes[nid]
            if n.id == clears[0].id:
                continue
            for c in node_calls(n):
                cands = [fi for (cc, st, fi, _) in cg.calls.get(rf_.key, []) if cc is c and fi is not None]
                if any(fi.key == fwd_key or fwd_key in cg.may_call(fi) for fi in cands):
                    if not inside_ctx(c, ctx_expr):
                        offenders.append(norm(c)[:60])
        R.decide(not offenders, fkey(rf, f"{cn}:nothing-counted-between"), where(rf_), "no forwarding call between copy and clear outside the statistics block",
                 f"{rf_.name}: {offenders} can forward (and count) a message between the copy and the clear of {cn}")

    # ---- T timing table ---------------------------------------------------------------------------------------------
    T = chk.rule("C18-T", "send_timing_message stores count at index type for every counted type and pid at index mod_id for every module", 2,
                 "a filtered loop leaves counted types or live modules out of the report")
    st = mm.methods["send_timing_message"]
    from .c03 import array_fields

    arrs = array_fields(prog)
    stcm = guards.copy_map(st.node)  # `timing = data.timing` is looked through
    stres = const_resolver(prog, st.module)
    stg = C.build(st.node)
    for it, tgt_attr, val in ((f"{cpath['message_counts']}.items()", "timing", None), ("self.modules.values()", "ModulePID", "pid")):
        lp = [n for n in walk_local(st.node) if isinstance(n, ast.For) and norm(n.iter) == it]
        okl = len(lp) == 1
        if okl:
            lp0 = lp[0]
            # the store data.<table>[key] = value, the table possibly through a local alias
            stores = [s_ for s_ in walk_local(lp0) if isinstance(s_, ast.Assign) and any(isinstance(t, ast.Subscript) and norm(guards.subst(t.value, stcm)).endswith(f".{tgt_attr}") for t in s_.targets)]
            okl = len(stores) == 1 and not any(isinstance(x, ast.Break) for x in walk_local(lp0))
            if okl:
                tgt = stores[0].targets[0]
                if val is None:
                    k, v = (lp0.target.elts[0].id, lp0.target.elts[1].id)
                    okl = norm(tgt.slice) == k and norm(stores[0].value) == v
                else:
                    mv = lp0.target.id
                    k = f"{mv}.mod_id"
                    okl = norm(tgt.slice) == k and norm(stores[0].value) == f"{mv}.{val}"
            if okl:
                # an iteration may skip the store only when the index lies outside the table (the C03 range bound): facts on
                # every way back to the loop head that bypasses the store must imply `k < 0 or k >= len(table)`
                sn = [n for n in stg.nodes if n.ast is stores[0]]
                head = [n for n in stg.nodes if n.kind == "for" and n.ast is lp0]
                if not sn or not head:
                    okl = False
                else:
                    sid = {sn[0].id}
                    gsk = flow.guard_states(stg, edge_filter=lambda e: not (e.src in sid and e.kind != "exc"), focus=[stores[0]])
                    body_ids = {n.id for n in stg.nodes if n.ast is not None and any(a is lp0 for a in ancestors(n.ast))}
                    owner = [cname for (cname, fld), ln in arrs.items() if fld == tgt_attr]
                    ln = next((ln_ for (cname, fld), ln_ in arrs.items() if fld == tgt_attr), None)
                    goal = guards.parse(f"{k} < 0 or {k} >= {ln}") if ln is not None else None
                    if val is None:
                        # message types are whatever clients sent: a negative one must not reach the store, where ctypes would
                        # silently count it for type len+k (an upper overflow raises instead, which is C03's concern)
                        gss = flow.guard_states(stg, focus=[stores[0]])
                        sp_ = [[(guards.fold_consts(guards.subst(x, stcm), stres), pol) for x, pol in p_] for p_ in gss.at(sn[0])]
                        with guards.int_theory():
                            if guards.any_path_implies(sp_, guards.parse(f"not ({k} < 0)")):
                                okl = False
                    for e in stg.pred[head[0].id]:
                        if e.src not in body_ids or e.src in sid or e.kind == "exc":
                            continue
                        paths = [[(guards.fold_consts(guards.subst(x, stcm), stres), pol) for x, pol in p_] for p_ in gsk.after_edge(e)]
                        with guards.int_theory():
                            if goal is None or guards.any_path_implies(paths, goal):
                                okl = False
        T.decide(okl, fkey(st, f"table:{tgt_attr}"), where(st), f"every item of {it} is stored into data.{tgt_attr} (skipped only when its index is outside the table)",
                 f"send_timing_message does not store every item of {it} into data.{tgt_attr}[key]")

    # ---- K chunking (abstract interpretation over symbolic entries) ----------------------------------------------------
    K = chk.rule("C18-K", "the sub-messages of one MESSAGE_TRAFFIC report list every (type, count) entry exactly once and nothing else", 9,
                 "an entry emitted twice or not at all makes the interval report inexact")
    consts = prog.module_constants(CORE)
    KS = consts.get("MESSAGE_TRAFFIC_SIZE")
    if not isinstance(KS, int) or KS < 2:
        raise AnalysisError("anchor vanished: core_defs.MESSAGE_TRAFFIC_SIZE")
    stf = mm.methods["send_traffic"]
    core = prog.module(CORE)
    sizes = sorted({0, 1, 2, KS - 1, KS, KS + 1, 2 * KS - 1, 2 * KS, 2 * KS + 1, 3 * KS + 5})
    listener = Obj(prog.cls(MGR, "Module"), "Module")
    mt_traffic, all_types = consts.get("MT_MESSAGE_TRAFFIC"), consts.get("ALL_MESSAGE_TYPES")

    def tables(listeners: bool):
        from collections import defaultdict as dd
        t = dd(set)
        if listeners:
            t[mt_traffic] = {listener}
        return t

    try:
        _chunking(prog, chk, K, mm, stf, core, sizes, KS, tables, consts, all_types, ctx_name, flag, cpath["traffic_counter"])
    except AnalysisError as e:
        chk.defer_error(f"C18-K could not interpret send_traffic: {e}")


def _dataclass_obj(ci, args=(), kwargs=None):
    """an object of a small state-holding dataclass of the manager module: fields from the arguments, else their declared defaults
    (constants; default_factory -> an empty container, or 0.0 for a clock)"""
    kwargs = dict(kwargs or {})
    names, vals = [], {}
    for n in ci.node.body:
        if isinstance(n, ast.AnnAssign) and isinstance(n.target, ast.Name):
            names.append(n.target.id)
            v = n.value
            if isinstance(v, ast.Constant):
                vals[n.target.id] = v.value
            elif isinstance(v, ast.Call) and norm(v.func).split(".")[-1] == "field":
                fac = next((k.value for k in v.keywords if k.arg == "default_factory"), None)
                dfl = next((k.value for k in v.keywords if k.arg == "default"), None)
                if isinstance(dfl, ast.Constant):
                    vals[n.target.id] = dfl.value
                elif fac is not None:
                    ft = norm(fac).split(".")[-1]
                    vals[n.target.id] = {} if ft in ("Counter", "dict", "defaultdict", "OrderedDict") else [] if ft == "list" else set() if ft == "set" else 0.0
    for nme, a in zip(names, args):
        vals[nme] = a
    for k, v in kwargs.items():
        if k not in names:
            raise AnalysisError(f"C18 vocabulary exceeded: {ci.name}({k}=...)")
        vals[k] = v
    missing = [n for n in names if n not in vals]
    if missing:
        raise AnalysisError(f"C18 vocabulary exceeded: {ci.name} constructed without {missing}")
    return Obj(ci, ci.name, **vals)


def _chunking(prog, chk, K, mm, stf, core, sizes, KS, tables, consts, all_types, ctx_name, flag="self.sending_traffic", cpath="self.traffic_counter"):
    flag_attr = (flag or "self.sending_traffic").split(".", 1)[1]
    # where the report's sequence number lives: what send_traffic stores into data.seqno (possibly through a local naming the interval object)
    am = alias_map(stf, [cpath])
    seq_src = [guards.subst(n.value, am) for n in walk_local(stf.node) if isinstance(n, ast.Assign) and any(isinstance(t, ast.Attribute) and t.attr == "seqno" for t in n.targets)]
    seq_path = path_of(seq_src[0]) if len(seq_src) == 1 and path_of(seq_src[0]) else "self.traffic_seqno"
    holder_cls = None
    parts = cpath.split(".")
    if len(parts) == 3:  # self.<holder>.<field>
        init = mm.methods["__init__"]
        for n in walk_local(init.node):
            v = n.value if isinstance(n, (ast.Assign, ast.AnnAssign)) else None
            t = (n.targets[0] if isinstance(n, ast.Assign) else n.target) if v is not None else None
            if t is not None and path_of(t) == ".".join(parts[:2]) and isinstance(v, ast.Call) and isinstance(v.func, ast.Name):
                holder_cls = mm.module.classes.get(v.func.id)
        if holder_cls is None:
            raise AnalysisError(f"C18 vocabulary exceeded: the object holding {cpath} is not constructed from a class of manager.py in __init__")
    elif len(parts) != 2:
        raise AnalysisError(f"C18 vocabulary exceeded: counter path {cpath}")

    def make_mgr(counter, subs):
        m = Obj(mm, "MessageManager", traffic_seqno=1, traffic_start=0.0, subscriptions=subs, modules={}, logger_modules=set())
        if holder_cls is None:
            m.set(parts[1], counter)
        else:
            h = _dataclass_obj(holder_cls, (), {parts[2]: counter})
            if seq_path.startswith(".".join(parts[:2]) + "."):
                h.set(seq_path.split(".")[2], 1)
            m.set(parts[1], h)
        m.set(flag_attr, Obj(None, "ContextVar", value=False))
        return m

    def read(it_, m, path):
        return it_.eval(ast.parse(path, mode="eval").body, {"self": m, "__func__": stf})

    steps = 0
    for L in sizes:
        snapshots: List[dict] = []
        counter = {("T", j): ("C", j) for j in range(L)}

        def send(selfobj, args, kwargs, snapshots=snapshots):
            d = args[0]
            snapshots.append({"msg_type": list(d.get("msg_type").items), "msg_count": list(d.get("msg_count").items), "seqno": d.get("seqno") if d.has("seqno") else None,
                              "sub_seqno": d.get("sub_seqno") if d.has("sub_seqno") else None})
            return None

        def construct(ci, args=(), kwargs=None):
            if ci.name == "MDF_MESSAGE_TRAFFIC":
                return Obj(ci, ci.name, msg_type=FixedArray(KS, 0), msg_count=FixedArray(KS, 0))
            if holder_cls is not None and ci is holder_cls:
                return _dataclass_obj(ci, args, kwargs)
            raise AnalysisError(f"C18 vocabulary exceeded: construction of {ci.name} in send_traffic")

        const_env = {"cd.MESSAGE_TRAFFIC_SIZE": KS, "MESSAGE_TRAFFIC_SIZE": KS, "cd.MDF_MESSAGE_TRAFFIC": ("class", core.classes["MDF_MESSAGE_TRAFFIC"]),
                     "time.perf_counter": ("pyfunc", lambda: 0.0), "ALL_MESSAGE_TYPES": all_types, "cd.ALL_MESSAGE_TYPES": all_types}
        const_env.update({f"cd.{k}": v for k, v in consts.items() if k.startswith("MT_") and isinstance(v, int)})
        it = Interp(prog, {"send_message": send, ctx_name: lambda s, a, k: None}, const_env, construct=construct)
        mgr = make_mgr(counter, tables(True))
        raised = None
        try:
            it.call_method(stf, mgr, [])
        except ModelRaise as r:
            raised = r.name
        steps += it.steps
        seen: Dict[int, int] = {}
        wrong, junk = [], []
        for si, s in enumerate(snapshots):
            for slot, (t, c) in enumerate(zip(s["msg_type"], s["msg_count"])):
                if isinstance(t, tuple) and t[0] == "T":
                    seen[t[1]] = seen.get(t[1], 0) + 1
                    if c != ("C", t[1]):
                        wrong.append((si, slot, t, c))
                elif isinstance(c, tuple):
                    junk.append((si, slot, t, c))
        dup = sorted(j for j, k in seen.items() if k > 1)
        missing = sorted(set(range(L)) - set(seen))
        okk = not dup and not missing and not wrong and not junk and raised is None
        why = []
        if raised:
            why.append(f"raises {raised}")
        if dup:
            why.append(f"entries {dup[:4]} reported {max(seen.values())} times")
        if missing:
            why.append(f"entries {missing[:4]} never reported")
        if wrong:
            why.append(f"type/count mismatch at {wrong[:2]}")
        if junk:
            why.append(f"a stale count is attributed to a non-entry at (sub-message, slot) {[(a, b) for a, b, _, _ in junk[:3]]}")
        K.decide(okk, fkey(stf, f"table-size:{'K' if L == KS else L if L < KS - 1 else ('K%+d' % (L - KS) if L < 2 * KS - 1 else '2K%+d' % (L - 2 * KS) if L <= 2 * KS + 1 else '3K+5')}"), where(stf),
                 f"{L} entries -> {len(snapshots)} sub-message(s), each entry exactly once with its own count",
                 f"{L} distinct types in the interval -> {len(snapshots)} sub-message(s): " + "; ".join(why))
        # the counter is cleared and the sequence number advanced after the report
        if L == KS + 1:
            K.decide(len(read(it, mgr, cpath)) == 0 and read(it, mgr, seq_path) == 2, fkey(stf, "reset-after-report"), where(stf), "counter cleared and seqno advanced after the report",
                     "send_traffic does not clear the counter / advance traffic_seqno")
            # an interval nobody listens to: nothing to deliver, but its counts must not leak into the next report
            quiet = make_mgr({("T", j): ("C", j) for j in range(3)}, tables(False))
            it2 = Interp(prog, {"send_message": lambda s_, a, k: None, ctx_name: lambda s_, a, k: None}, const_env, construct=construct)
            try:
                it2.call_method(stf, quiet, [])
                K.decide(len(read(it2, quiet, cpath)) == 0, fkey(stf, "reset-without-listeners"), where(stf), "counter cleared at the end of an interval nobody subscribed to",
                         "send_traffic leaves the interval's counts in place when nobody is subscribed: they are added to the next reported interval")
            except ModelRaise as r:
                K.bad(fkey(stf, "reset-without-listeners"), where(stf), f"send_traffic raises {r.name} when nobody is subscribed")
            steps += it2.steps
            subs = [s["sub_seqno"] for s in snapshots]
            K.decide(subs == sorted(set(subs)) and all(s["seqno"] == 1 for s in snapshots), fkey(stf, "sub-seqno-distinct"), where(stf), "sub-messages carry the report seqno and distinct increasing sub_seqno",
                     f"sub-message numbering is {subs} with seqno {[s['seqno'] for s in snapshots]}")
    chk.extra_coverage.update({"chunk_table_sizes": sizes, "interpreter_steps": steps, "chunk_size": KS})
