"""C04 - all language outputs describe the same wire format (DESIGN §2 C04): agreement of the sibling back ends."""
from __future__ import annotations

import ast
from typing import Dict, Optional, Tuple

from .. import artefacts, cfg as C, flow, guards
from ..program import AnalysisError, Program, norm, walk_local, ancestors
from ..report import Check
from ..util import calls_in, fkey, is_method_call, path_of, recv_of, where

PAR = "pyrtma.parser"
VAL = "pyrtma.validators"
BACKENDS = {"python": ("pyrtma.compilers.python", "PyDefCompiler"), "c99": ("pyrtma.compilers.c99", "CDefCompiler"),
            "javascript": ("pyrtma.compilers.javascript", "JSDefCompiler"), "matlab": ("pyrtma.compilers.matlab", "MatlabDefCompiler")}

FMT = {"c": (1, "char"), "b": (1, "signed"), "B": (1, "unsigned"), "h": (2, "signed"), "H": (2, "unsigned"), "i": (4, "signed"), "I": (4, "unsigned"),
       "q": (8, "signed"), "Q": (8, "unsigned"), "f": (4, "float"), "d": (8, "float")}
C99 = {"char": (1, "char"), "unsigned char": (1, "unsigned"), "signed char": (1, "signed"), "float": (4, "float"), "double": (8, "float")}
for b in (8, 16, 32, 64):
    C99[f"int{b}_t"] = (b // 8, "signed")
    C99[f"uint{b}_t"] = (b // 8, "unsigned")
CTYPES = {"ctypes.c_char": (1, "char"), "ctypes.c_ubyte": (1, "unsigned"), "ctypes.c_byte": (1, "signed"), "ctypes.c_float": (4, "float"), "ctypes.c_double": (8, "float")}
for b in (8, 16, 32, 64):
    CTYPES[f"ctypes.c_int{b}"] = (b // 8, "signed")
    CTYPES[f"ctypes.c_uint{b}"] = (b // 8, "unsigned")
MATLAB = {"single": (4, "float"), "double": (8, "float")}
for b in (8, 16, 32, 64):
    MATLAB[f"int{b}"] = (b // 8, "signed")
    MATLAB[f"uint{b}"] = (b // 8, "unsigned")


def compatible(a: Tuple[int, str], b: Tuple[int, str]) -> bool:
    if a[0] != b[0]:
        return False
    if a[1] == b[1]:
        return True
    # a C `char` is a one-byte integer: MATLAB has no char-as-byte type and uses int8 (documented equivalence)
    return {a[1], b[1]} == {"char", "signed"} and a[0] == 1


def local_dict(f, name) -> Optional[Dict[str, str]]:
    for n in walk_local(f.node):
        if isinstance(n, (ast.Assign, ast.AnnAssign)) and isinstance(n.value, ast.Dict):
            t = n.targets[0] if isinstance(n, ast.Assign) else n.target
            if path_of(t) == name:
                return {k.value: norm(v) for k, v in zip(n.value.keys, n.value.values) if isinstance(k, ast.Constant)}
    # whatever the local is called: the one dict literal with string keys and >= 20 entries
    big = [n.value for n in walk_local(f.node) if isinstance(n, (ast.Assign, ast.AnnAssign)) and isinstance(n.value, ast.Dict) and len(n.value.keys) >= 20
           and all(isinstance(k, ast.Constant) and isinstance(k.value, str) for k in n.value.keys)]
    if not big:
        # hoisted to a module-level constant that the function reads
        used = {n.id for n in walk_local(f.node) if isinstance(n, ast.Name) and isinstance(n.ctx, ast.Load)}
        big = [v for k_, v in f.module.assigns.items() if k_ in used and isinstance(v, ast.Dict) and len(v.keys) >= 20 and all(isinstance(k, ast.Constant) and isinstance(k.value, str) for k in v.keys)]
    if len(big) == 1:
        return {k.value: norm(v) for k, v in zip(big[0].keys, big[0].values)}
    return None


def find_ctypes_table(prog: Program):
    """the parser's native-name -> ctypes mirror table, wherever it is written: a local of get_ctype_cls (pinned tree), a
    module-level constant, or a class attribute.  -> ({name: 'ctypes.c_x'}, 'file:line') or (None, None)"""
    m = prog.module(PAR)
    cands = []
    for n in ast.walk(m.tree):
        v = n.value if isinstance(n, (ast.Assign, ast.AnnAssign)) else None
        if isinstance(v, ast.Dict) and len(v.keys) >= 20 and all(isinstance(k, ast.Constant) and isinstance(k.value, str) for k in v.keys) \
                and sum(1 for x in v.values if norm(x).startswith("ctypes.c_")) >= 20:
            cands.append(n)
    if len(cands) != 1:
        return None, None
    d = cands[0].value
    return {k.value: norm(v_) for k, v_ in zip(d.keys, d.values)}, f"{m.rel}:{cands[0].lineno}"


def ctypes_table_entries(prog: Program):
    t, loc = find_ctypes_table(prog)
    if t is None:
        raise AnalysisError("anchor vanished: the parser's native-name -> ctypes table")
    return [(k, v.split(".")[-1], loc) for k, v in sorted(t.items())]


def descriptor_widths(prog: Program) -> Dict[str, Tuple[int, str]]:
    m = prog.module(VAL)
    out = {}
    for ci in m.classes.values():
        cc = ci.class_consts
        if {"_size", "_unsigned"} <= set(cc) and not ci.name.endswith("Base"):
            try:
                out[ci.name] = (prog.eval_const(m, cc["_size"]), "unsigned" if prog.eval_const(m, cc["_unsigned"]) else "signed")
            except AnalysisError:
                pass
    init_ct = {}
    for ci in m.classes.values():
        init = ci.methods.get("__init__")
        if init is None:
            continue
        for n in walk_local(init.node):
            if isinstance(n, (ast.Assign, ast.AnnAssign)) and norm(n.targets[0] if isinstance(n, ast.Assign) else n.target) == "self._ctype":
                init_ct[ci.name] = norm(n.value)
    for nm in ("Float", "Double", "Char"):
        if nm in init_ct and init_ct[nm] in CTYPES:
            out[nm] = CTYPES[init_ct[nm]]
    if "Byte" in out:
        out["Byte"] = (out["Byte"][0], "unsigned")
    return out


def calls_in_node(n):
    from ..util import node_calls
    return node_calls(n)


def run(prog: Program, chk: Check):
    chk.explanation = (
        "C04 decided as agreement of the sibling back ends as programs: (K) the native-type tables of the parser, its ctypes mapper "
        "and the four back ends have equal key sets; (W) every table entry denotes the same width and signedness as the parser's "
        "NativeType for that key (target-language vocabularies frozen; widths of pyrtma descriptor classes read from validators.py); "
        "(F) every struct/message generator walks <def>.fields once, in order, unfiltered, and uses field.name / type_name / length; "
        "(I) the id/constant/hash emitters read the same attributes and generate() wires every table to its emitter; (S) the recorded "
        "size is sum(field sizes). Not decided: sizeof/offsetof as laid out by a real C compiler (needs compiling generated output); "
        "stand-in: W + C11 + C16-A."
    )
    natives = artefacts.native_types(prog)
    parser_w = {}
    for k, (size, fmt) in natives.items():
        if fmt not in FMT:
            raise AnalysisError(f"parser.supported_types[{k!r}] has unknown struct format {fmt!r}")
        parser_w[k] = (size, FMT[fmt][1], FMT[fmt][0])
    tables: Dict[str, Dict[str, str]] = {}
    tables["parser.get_ctype_cls.type_map"] = find_ctypes_table(prog)[0] or {}
    tables["python.type_map"] = artefacts.dict_literal(prog, BACKENDS["python"][0], "type_map")
    tables["python.desctype_map"] = artefacts.dict_literal(prog, BACKENDS["python"][0], "desctype_map")
    tables["c99.type_map"] = artefacts.dict_literal(prog, BACKENDS["c99"][0], "type_map")
    tables["javascript.type_map"] = {k: str(v) for k, v in artefacts.dict_literal(prog, BACKENDS["javascript"][0], "type_map").items()}
    tables["matlab.type_map"] = artefacts.dict_literal(prog, BACKENDS["matlab"][0], "type_map")
    for k, t in tables.items():
        if len(t) < 20:
            raise AnalysisError(f"anchor vanished: native type table {k}")

    # ---- K key sets --------------------------------------------------------------------------------------
    K = chk.rule("C04-K", "the native-type tables of parser, ctypes mapper and the four back ends have equal key sets", 6,
                 "a name accepted by the front end but missing in one back end fails or is typed differently in that language")
    EXC = {("javascript.type_map", "string"): "pseudo-type used only by the JS emitter for char arrays, never looked up from a definition",
           ("*", "signed char"): "accepted by the front end only (outside the 26 documented names); reported as observation O-1"}
    ref = set(natives)
    for tn, t in tables.items():
        missing = {k for k in ref - set(t) if ("*", k) not in EXC}
        extra = {k for k in set(t) - ref if (tn, k) not in EXC}
        K.decide(not missing and not extra, f"{tn}|keys", tn, f"{len(t)} keys agree with parser.supported_types",
                 f"{tn}: missing {sorted(missing)}, extra {sorted(extra)} relative to parser.supported_types")
    if "signed char" in ref and any("signed char" not in t for t in tables.values()):
        chk.note("O-1 `signed char` is accepted by parser.supported_types (NativeType.name misspelt `signed_char`) but absent from every back-end / ctypes table -> KeyError in the compiler; outside the 26 documented native names of C04/C15")

    # ---- W width / signedness ------------------------------------------------------------------------------------
    W = chk.rule("C04-W", "every typed table entry has the width and signedness of the parser's NativeType for that key", 120,
                 "e.g. `long` as int64_t in C but int32 in Python shifts every following field")
    descw = descriptor_widths(prog)
    vocab = {"parser.get_ctype_cls.type_map": CTYPES, "python.type_map": CTYPES, "python.desctype_map": descw, "c99.type_map": C99, "matlab.type_map": MATLAB}
    for k, (size, kind, fmtsize) in sorted(parser_w.items()):
        W.decide(size == fmtsize, f"parser.supported_types|{k}:size-vs-format", "src/pyrtma/parser.py", f"{k}: size {size} matches its struct format",
                 f"parser.supported_types[{k!r}]: size {size} disagrees with its struct format width {fmtsize}")
    for tn, voc in vocab.items():
        for k, v in sorted(tables[tn].items()):
            if k not in parser_w:
                continue
            w = voc.get(v)
            if w is None:
                W.bad(f"{tn}|{k}", tn, f"{tn}[{k!r}] = {v}: not a known type name of the target language")
                continue
            W.decide(compatible((parser_w[k][0], parser_w[k][1]), w), f"{tn}|{k}", tn, f"{k} -> {v} = {w[0]} byte(s) {w[1]}",
                     f"{tn}[{k!r}] = {v} is {w[0]} byte(s) {w[1]}, but the parser lays `{k}` out as {parser_w[k][0]} byte(s) {parser_w[k][1]}")

    # ---- F field walk -------------------------------------------------------------------------------------------------
    F = chk.rule("C04-F", "every struct/message generator walks <def>.fields once, in order, unfiltered, using name / type_name / length", 6,
                 "a filtered, sorted or partially emitted field list gives that language a different layout")
    gens = [("python", "generate_struct"), ("python", "generate_msg_def"), ("c99", "generate_struct"), ("javascript", "generate_obj"), ("matlab", "generate_struct")]
    # the parser's own ctypes mirror is built by get_ctype_cls, or by whatever function it delegates to (the one that creates the
    # ctypes.Structure subclass from a walk over the fields)
    mirror = prog.func(PAR, "Parser.get_ctype_cls")
    if not any(isinstance(n_, (ast.For, ast.ListComp)) for n_ in walk_local(mirror.node)):
        builders = [f_ for f_ in prog.module(PAR).functions.values() if any(isinstance(c_, ast.Call) and isinstance(c_.func, ast.Name) and c_.func.id == "type" and "ctypes.Structure" in norm(c_) for c_ in calls_in(f_.node))
                    and any(isinstance(n_, (ast.For, ast.ListComp)) for n_ in walk_local(f_.node))]
        if builders:
            mirror = sorted(builders, key=lambda b_: b_.key)[0]  # (the same builder written out in several classes counts once)
    funcs = [(b, prog.func(BACKENDS[b][0], f"{BACKENDS[b][1]}.{fn}")) for b, fn in gens] + [("parser", mirror)]
    for b, f in funcs:
        from ..util import iterations
        from .. import callgraph as _cgm

        dparam = ([p for p in f.params() if p != "self"] or ["self"])[0]
        loops = [it_ for it_ in iterations(f.node) if (norm(it_.iter) == f"{dparam}.fields" or norm(it_.iter).startswith(f"enumerate({dparam}.fields"))]
        if len(loops) != 1:
            F.bad(fkey(f, "field-loop"), where(f), f"{f.qual}: expected exactly one walk over {dparam}.fields, found {len(loops)} (sorted / sliced / filtered iteration?)")
            continue
        itn = loops[0]
        lp = itn.node
        fv = itn.target.elts[-1].id if isinstance(itn.target, ast.Tuple) else itn.target.id
        skips = [s for s in walk_local(lp) if isinstance(s, ast.Break)] if not itn.is_comp else list(itn.conditions)
        if not itn.is_comp and any(isinstance(s, ast.Continue) for s in walk_local(lp)):
            # `continue` is fine after the member was emitted: no way round the loop body may avoid every statement that
            # formats the field's name
            fg_ = C.build(f.node)
            head_ = [n for n in fg_.nodes if n.kind == "for" and n.ast is lp]
            emits_ = {n.id for n in fg_.nodes if n.ast is not None and n.kind == "stmt" and any(isinstance(x, ast.FormattedValue) and norm(x.value) == f"{fv}.name" for x in ast.walk(n.ast))
                      and any(a is lp for a in ancestors(n.ast))}
            if head_:
                starts_ = [e.dst for e in fg_.succ[head_[0].id] if e.kind == "iter"]
                r_ = flow.reach(fg_, starts_, blocked=emits_, follow=lambda e: e.kind not in ("exc", "except"), blocked_pass_exc=False)
                if head_[0].id in r_ and not all(s_ in emits_ for s_ in starts_):
                    skips = skips + ["a path through the loop body emits nothing for the field"]
        scope = [lp] if not itn.is_comp else list(itn.body)
        reads = {n.attr for sc_ in scope for n in walk_local(sc_) if isinstance(n, ast.Attribute) and path_of(n.value) == fv}
        # attributes read from the field inside helpers it is handed to (new helpers of the same class, transitively)
        seen_h, todo_h = set(), [(f, sc_, fv) for sc_ in scope]
        while todo_h:
            fcur, node_, var_ = todo_h.pop()
            for c_ in ([x for x in walk_local(node_) if isinstance(x, ast.Call)]):
                if isinstance(c_.func, ast.Attribute) and path_of(c_.func.value) == "self" and fcur.cls is not None and c_.func.attr in fcur.cls.methods:
                    callee = fcur.cls.methods[c_.func.attr]
                    if not prog.is_expanded_helper(callee) or (callee.key, var_) in seen_h:
                        continue
                    b_ = _cgm.bind_args(callee, c_, bound_method=True)
                    for p_, a_ in b_.items():
                        if path_of(a_) == var_:
                            seen_h.add((callee.key, var_))
                            reads |= {n.attr for n in walk_local(callee.node) if isinstance(n, ast.Attribute) and path_of(n.value) == p_}
                            todo_h.append((callee, callee.node, p_))
        # ... and inside methods invoked on the field itself (`field.ctype()`: polymorphism instead of isinstance chains)
        for sc_ in scope:
            for c_ in [x for x in walk_local(sc_) if isinstance(x, ast.Call) and isinstance(x.func, ast.Attribute) and path_of(x.func.value) == fv]:
                for ci_ in f.module.classes.values():
                    mth = ci_.methods.get(c_.func.attr)
                    if mth is not None and ci_.name == "Field":
                        reads |= {n.attr for n in walk_local(mth.node) if isinstance(n, ast.Attribute) and path_of(n.value) == "self"}
        need = {"name", "type_name", "length"} if b != "parser" else {"type_obj", "length"}
        F.decide(not skips and need <= reads, fkey(f, "field-loop"), where(f, lp), f"walks {dparam}.fields in order using {sorted(need)}",
                 f"{f.qual}: field loop " + ("skips fields (continue/break); " if skips else "") + (f"does not read {sorted(need - reads)}" if need - reads else ""))
        # the emitted member mentions the field's own name
        if b != "parser":
            def built_into_text(x):
                """x is an operand of string building: f-string, %-formatting, str.format, + concatenation, join"""
                a = getattr(x, "_parent", None)
                while a is not None and not isinstance(a, ast.stmt):
                    if isinstance(a, (ast.JoinedStr, ast.FormattedValue)):
                        return True
                    if isinstance(a, ast.BinOp) and isinstance(a.op, ast.Mod) and isinstance(a.left, ast.Constant) and isinstance(a.left.value, str):
                        return True
                    if isinstance(a, ast.BinOp) and isinstance(a.op, ast.Add):
                        return True
                    if isinstance(a, ast.Call) and isinstance(a.func, ast.Attribute) and a.func.attr in ("format", "join") and isinstance(a.func.value, ast.Constant):
                        return True
                    if isinstance(a, (ast.Compare, ast.Subscript)) or (isinstance(a, ast.Call) and not (isinstance(a.func, ast.Attribute) and a.func.attr in ("format", "join"))):
                        return False
                    a = getattr(a, "_parent", None)
                return False

            emit_ok = any(isinstance(n, ast.FormattedValue) and norm(n.value) == f"{fv}.name" for sc_ in scope for n in walk_local(sc_)) or \
                any(isinstance(n, ast.Attribute) and n.attr == "name" and path_of(n.value) == fv and isinstance(n.ctx, ast.Load) and built_into_text(n) for sc_ in scope for n in walk_local(sc_)) or \
                any(isinstance(n, ast.FormattedValue) and isinstance(n.value, ast.Attribute) and n.value.attr == "name" and (k_, path_of(n.value.value)) in {(k2, p2) for (k2, _v2) in seen_h for p2 in [path_of(n.value.value)]}
                    for (k_, _v) in seen_h for fn_ in [next((m_ for m_ in f.cls.methods.values() if m_.key == k_), None)] if fn_ is not None for n in walk_local(fn_.node))
            F.decide(emit_ok, fkey(f, "emits-field-name"), where(f, lp), "member is emitted under field.name", f"{f.qual} does not emit members under field.name")

    # emitted extents and values are the parser's *evaluated* numbers: the unevaluated yaml text means something else in each target
    # language (`/` is integer division in C, true division in Python/JS/Matlab), while the recorded size was computed from the number
    RAW = {"length_expression", "length_expanded", "expression", "expanded"}
    raw_in = lambda node: [n for n in ast.walk(node) if isinstance(n, ast.Attribute) and n.attr in RAW and isinstance(n.ctx, ast.Load)]
    if not raw_in(prog.module(PAR).tree):
        raise AnalysisError("anchor vanished: the parser no longer keeps the unevaluated text under " + ", ".join(sorted(RAW)))
    nraw = 0
    COMMENT = ("//", "/*", "%", "#", "*")
    for b, (modname, clsname) in BACKENDS.items():
        mi = prog.module(modname)
        funcs_b = [f for f in prog.all_functions() if f.module is mi]
        tainted_fn: set = set()

        def taint_of(f, tainted_fn=tainted_fn):
            """names of f holding (text derived from) the unevaluated expression; whether f returns such text"""
            names: set = set()

            def dirty(e):
                for x in ast.walk(e):
                    if isinstance(x, ast.Attribute) and x.attr in RAW and isinstance(x.ctx, ast.Load):
                        return True
                    if isinstance(x, ast.Name) and x.id in names:
                        return True
                    if isinstance(x, ast.Call) and isinstance(x.func, ast.Attribute) and x.func.attr in tainted_fn:
                        return True
                return False

            changed = True
            while changed:
                changed = False
                for n in ast.walk(f.node):
                    tg = n.targets if isinstance(n, ast.Assign) else ([n.target] if isinstance(n, (ast.AugAssign, ast.AnnAssign)) and n.value is not None else [])
                    if tg and dirty(n.value):
                        for t in tg:
                            for x in ast.walk(t):
                                if isinstance(x, ast.Name) and x.id not in names:
                                    names.add(x.id)
                                    changed = True
            returns = any(isinstance(n, ast.Return) and n.value is not None and dirty(n.value) for n in ast.walk(f.node))
            return names, returns, dirty

        changed = True
        while changed:
            changed = False
            for f in funcs_b:
                _, rets, _ = taint_of(f)
                if rets and f.name not in tainted_fn:
                    tainted_fn.add(f.name)
                    changed = True
        for f in funcs_b:
            names, _, dirty = taint_of(f)
            if not (names or raw_in(f.node) or any(isinstance(x, ast.Call) and isinstance(x.func, ast.Attribute) and x.func.attr in tainted_fn for x in ast.walk(f.node))):
                continue
            for js in [n for n in ast.walk(f.node) if isinstance(n, ast.JoinedStr)]:
                line = ""
                for part in js.values:
                    if isinstance(part, ast.Constant) and isinstance(part.value, str):
                        line = (line + part.value).rsplit("\n", 1)[-1]
                    elif isinstance(part, ast.FormattedValue):
                        if dirty(part.value):
                            nraw += 1
                            in_comment = any(mk in line for mk in COMMENT)
                            F.decide(in_comment, fkey(f, part.value), where(f, part.value), f"`{norm(part.value)}` (unevaluated text) is emitted inside a comment only",
                                     f"{f.qual} emits `{norm(part.value)}`, derived from the unevaluated yaml text, into the {b} output: the target language re-evaluates it with its own arithmetic "
                                     "(`/` is integer division in C) while the recorded size was computed from the parser's number")
                        line += "X"
            for n in ast.walk(f.node):
                if isinstance(n, ast.BinOp) and isinstance(n.op, (ast.Add, ast.Mod)) and (dirty(n.left) or dirty(n.right)) and any(isinstance(x, (ast.Constant, ast.JoinedStr)) and isinstance(getattr(x, "value", ""), str) or isinstance(x, ast.JoinedStr) for x in (n.left, n.right)):
                    nraw += 1
                    F.bad(fkey(f, n), where(f, n), f"{f.qual} builds output text from the unevaluated yaml expression: `{norm(n)[:80]}`")
    F.ok("backends|evaluated-values-only", "src/pyrtma/compilers", f"{nraw} place(s) where unevaluated yaml text reaches a back end's output; the parser itself keeps that text (detector self-check)")

    # ---- P the Python class lays out every descriptor the generator declared ----------------------------------------------
    P = chk.rule("C04-P", "MessageMeta turns every class attribute carrying _ctype into a ctypes field, in declaration order, filtered by nothing else", 3,
                 "a descriptor skipped by name is missing from the Python layout only: sizes and later offsets differ from C / JS / Matlab")
    mb = prog.module("pyrtma.message_base")
    mn = next((f for f in prog.all_functions() if f.module is mb and f.qual == "MessageMeta.__new__"), None)
    if mn is None:
        raise AnalysisError("anchor vanished: MessageMeta.__new__")
    nsp = mn.params()[3] if len(mn.params()) >= 4 else None
    loops = [lp for lp in walk_local(mn.node) if isinstance(lp, ast.For) and nsp and (norm(lp.iter) in (f"{nsp}.keys()", f"{nsp}.items()", nsp, f"list({nsp}.items())", f"list({nsp}.keys())", f"list({nsp})"))]
    if len(loops) != 1:
        P.bad(fkey(mn, "namespace-loop"), where(mn), f"expected one loop over the class namespace, found {len(loops)} (sorted / filtered iteration changes the field order or drops fields)")
    else:
        lp = loops[0]
        P.ok(fkey(mn, "namespace-loop"), where(mn, lp), f"iterates {norm(lp.iter)} in declaration order")
        g = C.build(mn.node)
        tests = [c for c in calls_in(lp) if isinstance(c.func, ast.Name) and c.func.id == "hasattr" and len(c.args) == 2 and isinstance(c.args[1], ast.Constant) and c.args[1].value == "_ctype"]
        appends = [n for n in g.nodes if n.ast is not None and any(a is lp for a in ancestors(n.ast)) and any(is_method_call(c, "append") and isinstance(c.args[0], ast.Tuple) and len(c.args[0].elts) == 2 for c in calls_in_node(n))]
        if not tests or not appends:
            raise AnalysisError("anchor vanished: hasattr(<attr>, '_ctype') test / fields.append((name, ctype)) in MessageMeta.__new__")
        ap_ids = {n.id for n in appends}
        gs2 = flow.guard_states(g, edge_filter=lambda e: not (e.src in ap_ids and e.kind != "exc"))
        head = next(n for n in g.nodes if n.kind == "for" and n.ast is lp)
        body_ids = {n.id for n in g.nodes if n.ast is not None and any(a is lp for a in ancestors(n.ast))}
        skipped = [p for e in g.pred[head.id] if e.src in body_ids and e.src not in ap_ids for p in gs2.after_edge(e)]
        # the explicit `_fields_` entry (v1 definitions) is handled by its own branch
        fl = [norm(c) for c in walk_local(lp) if isinstance(c, ast.Compare) and len(c.ops) == 1 and isinstance(c.ops[0], ast.Eq) and isinstance(c.comparators[0], ast.Constant) and c.comparators[0].value == "_fields_"]
        goal = guards.parse(f"not {norm(tests[0])}" + "".join(f" or {x}" for x in fl[:1]))
        loose = [p for p in skipped if guards.any_path_implies([p], goal)]
        P.decide(not loose, fkey(mn, "every-descriptor-becomes-a-field"), where(mn, lp), f"{len(skipped)} path(s) skip the append, all for attributes without _ctype",
                 "a class attribute carrying _ctype can be skipped: " + (", ".join(("" if pol else "not ") + norm(x) for x, pol in loose[0]) if loose else ""))
        # the field keeps the attribute's own ctype and a name derived from its key only
        tup = [c.args[0] for n in appends for c in calls_in_node(n) if is_method_call(c, "append")][0]
        src_names = {x.id for x in ast.walk(tup) if isinstance(x, ast.Name)}
        P.decide(bool(src_names), fkey(mn, "field-from-attribute"), where(mn, tup), f"field tuple built from {sorted(src_names)}", "field tuple is constant")

    # ---- I ids, constants, hashes -------------------------------------------------------------------------------------
    I = chk.rule("C04-I", "sibling id/constant/hash emitters read .name and .value (.hash) of their argument; generate() wires every table to its emitter", 30,
                 "emitting mt.name where mt.value belongs makes the languages disagree on ids")
    emitters = {"generate_msg_type_id": {"name", "value"}, "generate_module_id": {"name", "value"}, "generate_host_id": {"name", "value"},
                "generate_constant": {"name", "value"}, "generate_string_constant": {"name", "value"}, "generate_constant_string": {"name", "value"},
                "generate_hash_id": {"name", "hash"}}
    for b, (modname, clsname) in BACKENDS.items():
        ci = prog.cls(modname, clsname)
        for en, need in emitters.items():
            fi = ci.methods.get(en)
            if fi is None:
                continue
            p = [x for x in fi.params() if x != "self"][0]
            reads = {n.attr for n in walk_local(fi.node) if isinstance(n, ast.Attribute) and path_of(n.value) == p}
            I.decide(need <= reads and reads <= need | {"src"}, fkey(fi, "reads"), where(fi), f"reads {sorted(reads)}", f"{b}.{en} reads {sorted(reads)} of its argument, expected {sorted(need)}")
        gen = ci.methods["generate"]
        wiring = {"constants": ("generate_constant",), "string_constants": ("generate_string_constant", "generate_constant_string"), "host_ids": ("generate_host_id",),
                  "module_ids": ("generate_module_id",), "message_ids": ("generate_msg_type_id",), "message_defs": ("generate_hash_id",)}
        for table, accepted in wiring.items():
            from ..util import iterations

            hit = False
            gcm = guards.copy_map(gen.node)
            for lp in [i_ for i_ in iterations(gen.node) if norm(guards.subst(i_.iter, gcm)) == f"self.parser.{table}.values()"]:
                for c in lp.calls():
                    if isinstance(c.func, ast.Attribute) and path_of(c.func.value) == "self" and c.args and path_of(c.args[0]) == path_of(lp.target):
                        if c.func.attr in accepted:
                            hit = True
                        elif table == "message_defs" and c.func.attr in ci.methods:
                            # a generator that itself emits <def>.hash (the Python back end prints it in the class body)
                            callee = ci.methods[c.func.attr]
                            cp = [x for x in callee.params() if x != "self"][0]
                            if any(isinstance(n, ast.Attribute) and n.attr == "hash" and path_of(n.value) == cp for n in walk_local(callee.node)):
                                hit = True
            I.decide(hit, fkey(gen, f"wiring:{table}"), where(gen), f"{table} -> {accepted[0]}", f"{b}.generate does not pass every entry of parser.{table} to {' / '.join(accepted)}")

    # ---- S recorded size --------------------------------------------------------------------------------------------------
    S = chk.rule("C04-S", "type_size is emitted from <def>.size == sum(field.size), field.size == type size * (length or 1)", 4,
                 "the recorded size is what receivers compare with num_data_bytes")
    pm = prog.module(PAR)
    for cls in ("MDF", "SDF"):
        fi = pm.functions.get(f"{cls}.size")
        body = [norm(n.value) for n in walk_local(fi.node) if isinstance(n, ast.Return)] if fi else []
        rets = [n.value for n in walk_local(fi.node) if isinstance(n, ast.Return)] if fi else []
        oks = False
        if len(rets) == 1 and isinstance(rets[0], ast.Call) and isinstance(rets[0].func, ast.Name) and rets[0].func.id == "sum" and len(rets[0].args) == 1:
            cmp_ = rets[0].args[0]
            if isinstance(cmp_, (ast.ListComp, ast.GeneratorExp)) and len(cmp_.generators) == 1 and not cmp_.generators[0].ifs and norm(cmp_.generators[0].iter) == "self.fields" \
                    and isinstance(cmp_.generators[0].target, ast.Name) and norm(cmp_.elt) == f"{cmp_.generators[0].target.id}.size":
                oks = True
        S.decide(oks, f"{PAR}::{cls}.size", pm.rel, "size = sum of field sizes (unfiltered)", f"{cls}.size is {body}")
    fi = pm.functions.get("Field.size")
    body = [norm(n.value) for n in walk_local(fi.node) if isinstance(n, ast.Return)] if fi else []
    # `base_size` is the existing property returning self.type_obj.size
    bs = pm.functions.get("Field.base_size")
    bs_body = [norm(n.value) for n in walk_local(bs.node) if isinstance(n, ast.Return)] if bs else []
    ok_bs = body == ["self.base_size * (self.length or 1)"] and bs_body == ["self.type_obj.size"]
    S.decide(body == ["self.type_obj.size * (self.length or 1)"] or ok_bs, f"{PAR}::Field.size", pm.rel, "field size = element size * (length or 1)", f"Field.size is {body}")
    py = prog.cls(*BACKENDS["python"])
    for fn in ("generate_struct", "generate_msg_def"):
        fi = py.methods[fn]
        p = [x for x in fi.params() if x != "self"][0]
        okk = any(isinstance(n, ast.FormattedValue) and norm(n.value) == f"{p}.size" for n in walk_local(fi.node))
        S.decide(okk, fkey(fi, "type_size"), where(fi), "type_size emitted from <def>.size", f"{fn} does not emit type_size from {p}.size")
    # ---- G every compile starts from clean generator state ---------------------------------------------------------------
    from .c16 import shared_mutable_state
    from .c15 import reserved_name_verdict

    G = chk.rule("C04-G", "no module- or class-level container of the parser / back ends is mutated at run time; reserved attribute names are rejected for every definition kind", 2,
                 "a cache shared between compiles makes one language output describe an earlier closure's types; a field named like a generated attribute breaks only the Python class")
    sms = shared_mutable_state(prog, [PAR] + [v[0] for v in BACKENDS.values()])
    for mn, owner, name, f, n in sms:
        G.bad(fkey(f, f"shared:{(owner + '.') if owner else ''}{name}"), where(f, n), f"{f.qual} mutates the {'class' if owner else 'module'}-level container `{(owner + '.') if owner else ''}{name}`: within one process a later compile sees entries of an earlier one")
    if not sms:
        G.ok("compilers|no-shared-mutable-state", "src/pyrtma/compilers", "no shared mutable generator state")
    okr, why, afn = reserved_name_verdict(prog)
    G.decide(okr, fkey(afn, "reserved-names-all-kinds"), where(afn), why, "a field named like a generated message attribute can reach a message through field-list reuse and breaks only the Python output: " + why)
    chk.units.update({"tables": {k: len(v) for k, v in tables.items()}, "native_names": len(natives)})

    # ---- X which definitions a back end leaves out -------------------------------------------------------------------------------------
    # The C back end omits pyrtma's own core definitions (C clients take them from RTMA.h).  That test must compare a path
    # *component*; a substring test on the path text also drops user files such as lab_core_defs.yaml - from the C output only.
    # ---- U member names are identifiers in every generated language ---------------------------------------------------------------
    # The padding members check_alignment inserts are emitted like any other member: two of them under one name is a duplicate
    # member in C (does not compile), one ctypes field shadowing the other in Python (size and offsets differ from the recorded
    # ones), one key overwriting the other in JS.  Decided by interpreting check_alignment over the families that need padding
    # both before a member and at the end.
    from .c11 import padded_member_names

    U = chk.rule("C04-U", "after automatic padding the members of a definition have pairwise distinct names", 10,
                 "duplicate member names make the four outputs disagree (C: compile error, Python: a member lost and sizes shifted, JS: a member lost)")
    try:
        ca_, runs_ = padded_member_names(prog)
    except AnalysisError as e_:
        chk.defer_error(f"C04-U could not interpret check_alignment: {e_}")  # must not hide what the other rules establish
        ca_, runs_ = None, []
    for seq_, raised_, names_ in runs_:
        dup_ = sorted({n_ for n_ in names_ if names_.count(n_) > 1})
        tag_ = "+".join(f"a{k_[1]}" for k_ in seq_)
        U.decide(raised_ is None and not dup_, fkey(ca_, f"names:{tag_}"), where(ca_), f"members {names_}",
                 f"members of alignment {tag_}: " + (f"check_alignment raises {raised_}" if raised_ else f"two members are both called {dup_} (all members: {names_})"))

    X = chk.rule("C04-X", "a back end tells core definitions from user definitions by a path component, never by a substring of the path text", 1,
                 "a user file whose path merely contains the text is silently missing from one language output")

    def path_substring_tests(tree):
        hits = []
        for n in ast.walk(tree):
            if isinstance(n, ast.Compare) and len(n.ops) == 1 and isinstance(n.ops[0], (ast.In, ast.NotIn)):
                r = n.comparators[0]
                txt = norm(r)
                is_text = (isinstance(r, ast.Call) and isinstance(r.func, ast.Attribute) and r.func.attr == "as_posix") or \
                    (isinstance(r, ast.Call) and isinstance(r.func, ast.Name) and r.func.id == "str") or (isinstance(r, ast.JoinedStr))
                if is_text and ".src" in txt:
                    hits.append(n)
            elif isinstance(n, ast.Call) and isinstance(n.func, ast.Attribute) and n.func.attr in ("find", "count", "__contains__") and ".src" in norm(n.func.value) and \
                    ("as_posix" in norm(n.func.value) or norm(n.func.value).startswith("str(")):
                hits.append(n)
        return hits

    import os as _os4
    fxp = _os4.path.join(_os4.path.dirname(_os4.path.dirname(_os4.path.dirname(_os4.path.abspath(__file__)))), "fixtures", "c04_path_substring.py")
    try:
        nfx = len(path_substring_tests(ast.parse(open(fxp, encoding="utf-8").read())))
    except OSError:
        nfx = 0
    if nfx != 1:
        raise AnalysisError(f"C04-X detector no longer matches its positive example fixtures/c04_path_substring.py exactly once (found {nfx})")
    nscan4 = 0
    for mname, m_ in prog.modules.items():
        if not mname.startswith("pyrtma.compilers") or mname.endswith("python_v1"):
            continue
        nscan4 += 1
        for h in path_substring_tests(m_.tree):
            X.bad(f"{mname}|{norm(h)[:50]}", f"{m_.rel}:{h.lineno}", f"{mname.split('.')[-1]}: `{norm(h)[:70]}` is a substring test on a source path: definitions of user files whose path "
                  "contains the text are left out of this output only")
    if not X.instances:
        X.ok("pyrtma.compilers|core-def-test", "", f"{nscan4} back-end module(s) scanned; the positive example in fixtures/c04_path_substring.py matched")
