"""C13 - the version hash identifies the definition text, everywhere the same (DESIGN §2 C13)."""
from __future__ import annotations

import ast
from typing import Set

from .. import cfg as C, flow, guards, dataflow
from ..program import AnalysisError, Program, norm, walk_local, ancestors
from ..report import Check
from ..types import Types
from ..util import calls_in, fkey, is_method_call, node_calls, path_of, recv_of, where

PAR = "pyrtma.parser"
CLI = "pyrtma.client"
BACKENDS = {"pyrtma.compilers.python": "PyDefCompiler", "pyrtma.compilers.c99": "CDefCompiler",
            "pyrtma.compilers.javascript": "JSDefCompiler", "pyrtma.compilers.matlab": "MatlabDefCompiler"}
PURE_CALLS = {"dedent", "textwrap.dedent", "join", "encode", "items", "format", "str", "sha256", "hexdigest", "repr", "isinstance", "list", "tuple"}
PURE_MODULES = {"textwrap", "hashlib"}  # module names used as receivers of pure functions (dedent, sha256) even when imported elsewhere
BUILTIN_TYPES = {"str", "int", "float", "bool", "dict", "list", "tuple", "bytes"}
IMPURE_ROOTS = ("time", "datetime", "random", "uuid", "os", "id", "hash", "getpid", "cwd", "absolute", "resolve", "sorted", "set", "frozenset", "reversed", "keys", "values")


def hash_roots(f, expr, depth=0, seen=None) -> Set[str]:
    """Backward closure of a string-building expression to its roots:
    `param:x`, `x['k']` (subscript of a parameter with a literal key), `self.attr`, `call:<impure>`, `iter:<expr>`."""
    seen = set() if seen is None else seen
    out: Set[str] = set()
    if depth > 14:
        return {"deep"}
    if isinstance(expr, ast.Constant):
        return out
    if isinstance(expr, ast.JoinedStr):
        for v in expr.values:
            if isinstance(v, ast.FormattedValue):
                out |= hash_roots(f, v.value, depth + 1, seen)
        return out
    if isinstance(expr, ast.Name):
        if expr.id in seen:
            return out
        defs = dataflow.definitions(f, expr.id)
        if not defs:
            return set() if expr.id in BUILTIN_TYPES or expr.id in PURE_MODULES else {"free:" + expr.id}
        for kind, rhs in defs:
            if kind == "param":
                out.add("param:" + expr.id)
            elif kind.startswith("unpack:iter") or kind == "iter":
                out |= {"iter:" + norm(rhs)} | hash_roots(f, rhs, depth + 1, seen | {expr.id})
            else:
                out |= hash_roots(f, rhs, depth + 1, seen | {expr.id})
        # a list filled piece by piece (`parts = []; ... parts.append(x)`): what is appended reaches it too
        for n in walk_local(f):
            if isinstance(n, ast.Call) and isinstance(n.func, ast.Attribute) and n.func.attr in ("append", "extend", "insert") and isinstance(n.func.value, ast.Name) \
                    and n.func.value.id == expr.id and n.args:
                out |= hash_roots(f, n.args[-1], depth + 1, seen | {expr.id})
        return out
    if isinstance(expr, ast.Subscript):
        p = path_of(expr.value)
        if p is not None and isinstance(expr.slice, ast.Constant):
            base_defs = dataflow.definitions(f, p) if "." not in p else []
            if any(k == "param" for k, _ in base_defs):
                return {f"{p}[{expr.slice.value!r}]"}
        return hash_roots(f, expr.value, depth + 1, seen) | hash_roots(f, expr.slice, depth + 1, seen)
    if isinstance(expr, ast.Attribute):
        p = path_of(expr)
        if p is not None and p.startswith("self."):
            return {p}
        return hash_roots(f, expr.value, depth + 1, seen)
    if isinstance(expr, ast.Call):
        nm = norm(expr.func)
        last = nm.split(".")[-1]
        if last in IMPURE_ROOTS or nm.split(".")[0] in ("time", "datetime", "random", "uuid", "os"):
            out.add("call:" + nm)
        if isinstance(expr.func, ast.Attribute):
            out |= hash_roots(f, expr.func.value, depth + 1, seen)
        for a in expr.args:
            out |= hash_roots(f, a, depth + 1, seen)
        for k in expr.keywords:
            out |= hash_roots(f, k.value, depth + 1, seen)
        if last not in PURE_CALLS and last not in IMPURE_ROOTS:
            out.add("call:" + nm)
        return out
    if isinstance(expr, (ast.ListComp, ast.GeneratorExp, ast.SetComp)):
        if isinstance(expr, ast.SetComp):
            out.add("call:set-comprehension")
        for gen in expr.generators:
            out |= {"iter:" + norm(gen.iter)} | hash_roots(f, gen.iter, depth + 1, seen)
            if gen.ifs:
                out.add("filter:" + norm(gen.ifs[0]))
        # names bound by the comprehension are resolved through definitions() (comprehension targets)
        out |= hash_roots(f, expr.elt, depth + 1, seen)
        return out
    if isinstance(expr, (ast.BinOp,)):
        return hash_roots(f, expr.left, depth + 1, seen) | hash_roots(f, expr.right, depth + 1, seen)
    if isinstance(expr, (ast.Tuple, ast.List)):
        for x in expr.elts:
            out |= hash_roots(f, x, depth + 1, seen)
        return out
    if isinstance(expr, ast.IfExp):
        return hash_roots(f, expr.body, depth + 1, seen) | hash_roots(f, expr.orelse, depth + 1, seen) | hash_roots(f, expr.test, depth + 1, seen)
    return {"expr:" + norm(expr)[:40]}


def ctor_arg(ci, call, fieldname):
    """the actual argument bound to dataclass field `fieldname` of class ci in `call` (fields declared field(init=False) take no argument)"""
    for k in call.keywords:
        if k.arg == fieldname:
            return k.value
    names = []
    for n in ci.node.body:
        if isinstance(n, ast.AnnAssign) and isinstance(n.target, ast.Name):
            v = n.value
            if isinstance(v, ast.Call) and norm(v.func).split(".")[-1] == "field" and any(k.arg == "init" and isinstance(k.value, ast.Constant) and k.value.value is False for k in v.keywords):
                continue
            names.append(n.target.id)
    if fieldname in names and names.index(fieldname) < len(call.args):
        return call.args[names.index(fieldname)]
    return None


def run(prog: Program, chk: Check):
    ty = Types(prog)
    chk.explanation = (
        "C13 decided as information flow and sibling agreement: the sha256 input at the three hashing sites closes backwards exactly "
        "over (name, id, in-order field name/type pairs) - each component must be a root (so the hash changes when it changes) and "
        "no other root (parser state, paths, time, unordered iteration, sorting) may reach it; the digest stored in MDF/SDF objects is "
        "that value; every back end prints <def>.hash[:8] with only radix/case decoration; Client.send_message stamps "
        "header.version = msg_data.type_hash on every path to the wire except the documented legacy V1 path; MessageHeader.version "
        "aliases the reserved field. Not decided: collision-freeness of the 32-bit prefix."
    )
    chk.assumptions += ["sha256 is a function of its input; dict iteration is insertion ordered (Python >= 3.7)"]
    # ---- H hash input ---------------------------------------------------------------------------------------------
    H = chk.rule("C13-H", "sha256 input closes over exactly name, id and the in-order (field name, type text) pairs", 9,
                 "a missing component means an edit does not change the hash; an extra one makes it depend on location/run")
    self_hashing_sites = []
    sites = {"Parser.handle_message_def": ({"name", "id", "fields"}), "Parser.handle_signal": ({"name", "id"}), "Parser.handle_struct": ({"name", "fields"})}
    for fname, need in sites.items():
        f = prog.func(PAR, fname)
        params = [p for p in f.params() if p != "self"]
        dparam = params[1] if len(params) > 1 else None
        shas = [c for c in calls_in(f.node) if norm(c.func) in ("sha256", "hashlib.sha256")]
        ctor = [c for c in calls_in(f.node) if norm(c.func) in ("MDF", "SDF")]
        self_hashing = None
        if not shas and len(ctor) == 1:
            # the definition object computes its own digest: `__post_init__: self.hash = sha256(self.raw.encode()).hexdigest()`
            # (hash declared field(init=False)); the hashed text is then the constructor's `raw` argument
            dci = f.module.classes.get(norm(ctor[0].func))
            pi = dci.methods.get("__post_init__") if dci is not None else None
            hs_ = [n for n in walk_local(pi.node) if isinstance(n, ast.Assign) and any(norm(t) == "self.hash" for t in n.targets)] if pi is not None else []
            if len(hs_) == 1 and norm(hs_[0].value) in ("sha256(self.raw.encode()).hexdigest()", "hashlib.sha256(self.raw.encode()).hexdigest()") \
                    and len([n for n in walk_local(pi.node) if isinstance(n, (ast.If, ast.Try, ast.Return, ast.For, ast.While))]) == 0:
                self_hashing = (dci, pi, hs_[0])
        if len(shas) != 1 and self_hashing is None:
            raise AnalysisError(f"anchor vanished: expected one sha256 call in {fname}, found {len(shas)}")
        if self_hashing is not None:
            ra = ctor_arg(self_hashing[0], ctor[0], "raw")
            if ra is None:
                raise AnalysisError(f"anchor vanished: `raw` argument of the {norm(ctor[0].func)} construction in {fname}")
            hashed_text = ra
            anchor_node = ctor[0]
            self_hashing_sites.append((f, self_hashing))
        else:
            hashed_text = shas[0].args[0]
            anchor_node = shas[0]
        roots = {r for r in hash_roots(f.node, hashed_text) if not (r.startswith("free:") and r[5:] in f.module.imports)}
        comp = set()
        extra = set()
        def pair_source(it, depth=0):
            """does the iterable `it` yield the (name, type) pairs of the definition's fields, in definition order?  Either
            <def>['fields'].items() itself (possibly through list()/tuple() and single-assignment locals), or - on the branch
            where the fields entry is a plain string - a literal one-element list of a pair"""
            if depth > 6:
                return False
            if isinstance(it, ast.Name):
                ds = [rhs for k_, rhs in dataflow.definitions(f.node, it.id) if k_ != "param"]
                return len(ds) == 1 and pair_source(ds[0], depth + 1)
            if isinstance(it, ast.Call) and isinstance(it.func, ast.Name) and it.func.id in ("list", "tuple") and len(it.args) == 1:
                return pair_source(it.args[0], depth + 1)
            if isinstance(it, ast.IfExp):
                return pair_source(it.body, depth + 1) and pair_source(it.orelse, depth + 1)
            if isinstance(it, (ast.List, ast.Tuple)) and len(it.elts) == 1 and isinstance(it.elts[0], ast.Tuple) and len(it.elts[0].elts) == 2:
                return True
            if isinstance(it, ast.Call) and is_method_call(it, "items") and not it.args:
                base = it.func.value
                if isinstance(base, ast.Name):
                    ds = [rhs for k_, rhs in dataflow.definitions(f.node, base.id) if k_ != "param"]
                    base = ds[0] if len(ds) == 1 else base
                return norm(base).replace('"', "'") == f"{dparam}['fields']"
            return False

        for r in roots:
            if r == f"param:{params[0]}":
                comp.add("name")
            elif r == f"{dparam}['id']":
                comp.add("id")
            elif r == f"{dparam}['fields']":
                comp.add("fields")
            elif r.startswith("iter:"):
                it = r[5:]
                if it != f"{dparam}['fields'].items()" and not pair_source(ast.parse(it, mode="eval").body):
                    extra.add(r)
            else:
                extra.add(r)
        for c in sorted(need):
            H.decide(c in comp, fkey(f, f"includes:{c}"), where(f, anchor_node), f"hashed text depends on the {c}", f"{fname}: the hashed text does not depend on the definition's {c}")
        H.decide(not extra and comp <= need, fkey(f, "nothing-else"), where(f, anchor_node), "no other input reaches the hash",
                 f"{fname}: hash input also depends on {sorted(extra | (comp - need))}")
        if "fields" in need:
            comps = [n for n in walk_local(f.node) if isinstance(n, (ast.ListComp, ast.GeneratorExp)) and any(norm(g.iter) == f"{dparam}['fields'].items()" or pair_source(g.iter) for g in n.generators)]
            okc = len(comps) == 1
            if okc:
                g0 = comps[0].generators[0]
                tg = [x.id for x in g0.target.elts] if isinstance(g0.target, ast.Tuple) else []
                used = {x.id for x in ast.walk(comps[0].elt) if isinstance(x, ast.Name)}
                okc = len(tg) == 2 and set(tg) <= used and not g0.ifs
            if not comps:
                # the same walk written as a loop that appends one line per pair
                lps = [n for n in walk_local(f.node) if isinstance(n, ast.For) and (norm(n.iter) == f"{dparam}['fields'].items()" or pair_source(n.iter))]
                if len(lps) == 1 and isinstance(lps[0].target, ast.Tuple) and len(lps[0].target.elts) == 2 and len(lps[0].body) == 1 and not lps[0].orelse:
                    b0 = lps[0].body[0]
                    tg = [x.id for x in lps[0].target.elts if isinstance(x, ast.Name)]
                    okc = isinstance(b0, ast.Expr) and isinstance(b0.value, ast.Call) and isinstance(b0.value.func, ast.Attribute) and b0.value.func.attr == "append" and len(b0.value.args) == 1 \
                        and len(tg) == 2 and set(tg) <= {x.id for x in ast.walk(b0.value.args[0]) if isinstance(x, ast.Name)}
            H.decide(okc, fkey(f, "ordered-pairs"), where(f), "field list hashed as in-order `name: type` pairs of fields.items()", f"{fname}: field pairs are not hashed in definition order with both name and type")
        if self_hashing is not None:
            dci, pi, hst = self_hashing
            na = ctor_arg(dci, ctor[0], "name")
            okk = na is not None and path_of(na) == params[0]
            if okk and norm(ctor[0].func) == "MDF":
                tid = ctor_arg(dci, ctor[0], "type_id")
                okk = tid is not None and norm(tid).replace('"', "'") == f"{dparam}['id']"
            H.decide(True, fkey(f, "hexdigest"), where(pi, hst), f"{dci.name}.__post_init__ takes the hexdigest of its own raw text")
            H.decide(okk, fkey(f, "stored-in-definition"), where(f), "the definition object is built from this text and this name (and id) and digests the text itself",
                     f"{fname}: {dci.name} is not constructed from (raw, name[, id])")
            continue
        # the digest stored in the definition object is this digest of this text
        hv = None
        for n in walk_local(f.node):
            if isinstance(n, ast.Assign) and any(x is shas[0] for x in ast.walk(n.value)):
                hv = path_of(n.targets[0])
                okd = norm(n.value) == f"{norm(shas[0])}.hexdigest()"
                H.decide(okd, fkey(f, "hexdigest"), where(f, n), "digest taken as hexdigest of the text", f"{fname}: digest expression is {norm(n.value)}")
        rawv = None
        a0 = shas[0].args[0]
        if isinstance(a0, ast.Call) and is_method_call(a0, "encode"):
            rawv = path_of(a0.func.value)
        okk = len(ctor) == 1 and len(ctor[0].args) >= 3 and path_of(ctor[0].args[0]) == rawv and path_of(ctor[0].args[1]) == hv and path_of(ctor[0].args[2]) == params[0]
        if okk and norm(ctor[0].func) == "MDF":
            tid = next((k.value for k in ctor[0].keywords if k.arg == "type_id"), ctor[0].args[3] if len(ctor[0].args) > 3 else None)
            okk = tid is not None and norm(tid).replace('"', "'") == f"{dparam}['id']"
        H.decide(okk, fkey(f, "stored-in-definition"), where(f), "the definition object stores this text, this digest, this name (and id)", f"{fname}: MDF/SDF is not constructed from (raw, hash, name[, id])")
    # who-may-write .hash / .raw
    for mod in prog.modules.values():
        for f in mod.functions.values():
            for n in walk_local(f.node):
                tg = n.targets if isinstance(n, ast.Assign) else ([n.target] if isinstance(n, (ast.AugAssign, ast.AnnAssign)) else [])
                for t in tg:
                    if isinstance(t, ast.Attribute) and t.attr in ("hash", "raw") and mod.name.startswith("pyrtma.") and (mod.name == PAR or "compilers" in mod.name or mod.name == "pyrtma.compile"):
                        if any(n is sh_[2] for _, sh_ in self_hashing_sites):
                            continue  # the one self-digest store accepted above
                        H.bad(fkey(f, n), where(f, n), f"{f.qual} rewrites a definition's {t.attr}")

    # ---- P every back end prints that value ---------------------------------------------------------------------------
    P = chk.rule("C13-P", "every back end emits <def>.hash[:8] with only radix/case/quote decoration", 6,
                 "a different slice or source makes one language disagree about the version")
    nsites = 0
    for modname, clsname in BACKENDS.items():
        ci = prog.cls(modname, clsname)
        for f in ci.methods.values():
            for n in walk_local(f.node):
                if isinstance(n, ast.Attribute) and n.attr == "hash" and isinstance(n.ctx, ast.Load):
                    par = n._parent
                    nsites += 1
                    oks = isinstance(par, ast.Subscript) and isinstance(par.slice, ast.Slice) and par.slice.lower is None and \
                        isinstance(par.slice.upper, ast.Constant) and par.slice.upper.value == 8 and par.slice.step is None
                    deco = par._parent if oks else None
                    okd = True
                    if oks and isinstance(deco, ast.Attribute):
                        okd = deco.attr in ("upper", "lower")
                    elif oks and not isinstance(deco, ast.FormattedValue):
                        okd = False
                    base = path_of(n.value)
                    okb = base in [p for p in f.params() if p != "self"] or (isinstance(n.value, ast.Name))
                    P.decide(oks and okd and okb, fkey(f, f"{base}.hash"), where(f, n), "emits hash[:8] of the definition",
                             f"{modname.split('.')[-1]}.{f.name} emits {norm(par._parent) if oks else norm(par)} instead of <def>.hash[:8]")
                    # ... under the definition's own name: when the line is built by a helper that is handed the name, the helper
                    # must not rewrite it (a prefix-stripping `name.replace(f"{section}_", "")` files `hash_PING` under `PING`)
                    helper_calls = [a for a in ancestors(n) if isinstance(a, ast.Call) and isinstance(a.func, ast.Attribute) and path_of(a.func.value) == "self" and a.func.attr in ci.methods]
                    for hc in helper_calls:
                        h = ci.methods[hc.func.attr]
                        from .. import callgraph as _cg
                        b = _cg.bind_args(h, hc, bound_method=True)
                        for pn, av in b.items():
                            if av is None or not any(isinstance(x, ast.Attribute) and x.attr == "name" and path_of(x.value) == base for x in ast.walk(av)):
                                continue
                            rew = [norm(c_)[:60] for c_ in calls_in(h.node) if isinstance(c_.func, ast.Attribute) and path_of(c_.func.value) == pn
                                   and c_.func.attr in ("replace", "strip", "lstrip", "rstrip", "removeprefix", "removesuffix", "split", "partition", "rpartition", "lower", "upper", "title", "capitalize")]
                            rew += [norm(x)[:60] for x in walk_local(h.node) if isinstance(x, ast.Subscript) and path_of(x.value) == pn]
                            P.decide(not rew, fkey(f, f"{base}.hash:key"), where(f, hc), "the hash is filed under the definition's own name",
                                     f"{modname.split('.')[-1]}.{f.name} hands the definition's name to {h.name}(), which rewrites it ({rew[0] if rew else ''}): "
                                     f"the hash of a definition whose name contains the rewritten text is filed under another name (and may overwrite that definition's hash)")
    if nsites < 6:
        raise AnalysisError(f"anchor vanished: expected >= 6 hash emission sites in the back ends, found {nsites}")
    # each back end emits a hash for every message definition
    for modname, clsname in BACKENDS.items():
        ci = prog.cls(modname, clsname)
        gen = ci.methods.get("generate")
        if gen is None:
            raise AnalysisError(f"anchor vanished: {clsname}.generate")
        from ..util import iterations

        emits = False
        gcm = guards.copy_map(gen.node)
        for itn in [i_ for i_ in iterations(gen.node) if norm(guards.subst(i_.iter, gcm)) == "self.parser.message_defs.values()"]:
            for c in itn.calls():
                if isinstance(c.func, ast.Attribute) and path_of(c.func.value) == "self":
                    fi = ci.methods.get(c.func.attr)
                    if fi is not None and any(isinstance(x, ast.Attribute) and x.attr == "hash" for x in ast.walk(fi.node)):
                        filtered = bool(itn.conditions) if itn.is_comp else any(isinstance(a, ast.If) for a in ancestors(c) if any(x is itn.node for x in ancestors(a)))
                        if not filtered or modname.endswith("c99"):
                            emits = True
        P.decide(emits, f"{modname}::{clsname}.generate|hash-per-message", where(gen), "a hash is emitted for every message definition", f"{clsname}.generate does not emit a hash for every message definition")

    # ---- S senders stamp it ----------------------------------------------------------------------------------------------------
    S = chk.rule("C13-S", "Client.send_message stamps header.version = msg_data.type_hash before the header is sent (legacy V1 path excepted)", 3,
                 "an unstamped header makes the receiver's sync check vacuous")
    cl = prog.cls(CLI, "Client")
    builders = []
    for f in cl.methods.values():
        hv_ = [path_of(n.targets[0]) for n in walk_local(f.node) if isinstance(n, ast.Assign) and isinstance(n.value, ast.Call) and norm(n.value.func) in ("self._header_cls", "self.header_cls")]
        if hv_ and any(is_method_call(c, "_sendall") and c.args and path_of(c.args[0]) == hv_[0] for c in calls_in(f.node)):
            builders.append((f, hv_[0]))
    if len(builders) < 2:
        raise AnalysisError(f"anchor vanished: expected >= 2 header-building senders in Client, found {[f.qual for f, _ in builders]}")
    stamping = set()

    def check_sender(f, hv):
        """every transmission in f is preceded by header.version = <definition>.type_hash (legacy hasattr path excepted)"""
        g = C.build(f.node)
        data_p = [p for p in f.params() if p != "self"][0]

        fcm = guards.copy_map(f.node)  # `type_hash = msg_data.type_hash ... header.version = type_hash`: the local is looked through

        def is_stamp(n):
            a_ = n.ast
            return n.kind == "stmt" and isinstance(a_, ast.Assign) and any(path_of(t) == f"{hv}.version" for t in a_.targets) and norm(guards.subst(a_.value, fcm)).endswith(".type_hash")

        stamps = [n for n in g.nodes if is_stamp(n)]
        sends = [n for n in g.nodes for c in node_calls(n) if is_method_call(c, "_sendall") and c.args and path_of(c.args[0]) == hv]
        # delegation to another sender of this class counts as a transmission, judged by whether that sender stamps
        deleg = [(n, c) for n in g.nodes for c in node_calls(n) if isinstance(c.func, ast.Attribute) and path_of(c.func.value) == "self" and c.func.attr in [b_.name for b_, _ in builders] and c.func.attr != f.name]
        if not sends and not deleg:
            S.bad(fkey(f, "transmits"), where(f), f"{f.qual} builds a header but never sends it")
            return False
        ok_all = True
        if sends:
            unst = flow.must_precede(g, stamps, sends)
            if unst:
                sids = {s_.id for s_ in stamps}
                gs2 = flow.guard_states(g, edge_filter=lambda e: not (e.src in sids and e.kind != "exc"))
                goals = [guards.parse(f"not hasattr({data_p}, 'type_hash')")]
                # a signal type without a local definition has no hash to stamp: the UnknownMessageType handler path
                bad = []
                for sn in sends:
                    for pth in gs2.at(sn):
                        if not guards.satisfiable(pth):
                            continue
                        if any(guards.implies(pth, gl) for gl in goals):
                            continue
                        bad.append(pth)
                # `cls = get_msg_cls(t)` cannot be None (the function's own return annotation is not Optional): a path that assumes
                # it is - the else side of `if cls is not None:` after a successful lookup - is not a path
                def nonnull_locals():
                    out_ = set()
                    for a_ in walk_local(f.node):
                        tgt_, val_ = (a_.targets[0], a_.value) if isinstance(a_, ast.Assign) and len(a_.targets) == 1 else ((a_.target, a_.value) if isinstance(a_, ast.AnnAssign) else (None, None))
                        if isinstance(tgt_, ast.Name) and isinstance(val_, ast.Call):
                            _st, fi_, _ds = ty.callee(f, val_)
                            if fi_ is not None and fi_.node.returns is not None and not any(w in norm(fi_.node.returns) for w in ("Optional", "None", "Any")):
                                out_.add((tgt_.id, a_))
                    return out_

                if bad:
                    nn = nonnull_locals()
                    keep = []
                    for pth in bad:
                        infeasible = False
                        for nm_, asg in nn:
                            # the fact must postdate that very assignment: facts about nm_ are killed by every store to nm_, so a
                            # surviving `nm_ is None` fact on a path through the assignment contradicts it; a path through
                            # another assignment (`nm_ = None` in the handler) carries the constant fact instead and is kept
                            txt = {(norm(x_), pol_) for x_, pol_ in pth}
                            says_none = (f"{nm_} is None", True) in txt or (f"{nm_} is not None", False) in txt
                            from_const = any(isinstance(a2, ast.Assign) and len(a2.targets) == 1 and isinstance(a2.targets[0], ast.Name) and a2.targets[0].id == nm_
                                             and isinstance(a2.value, ast.Constant) and a2.value.value is None for a2 in walk_local(f.node))
                            if says_none and not from_const:
                                infeasible = True
                            elif says_none and from_const:
                                # only paths through the handler's `nm_ = None` may claim it: they carry the handler's exception fact
                                if not any("UnknownMessageType" in t_ for t_, _ in txt):
                                    infeasible = True
                        if not infeasible:
                            keep.append(pth)
                    # what remains and carries the handler's exception fact went through `except UnknownMessageType`: the documented
                    # "no local definition" case
                    bad = [pth for pth in keep if not any(pol_ and "UnknownMessageType" in norm(x_) for x_, pol_ in pth)] if nn else keep
                if bad:
                    via_handler = flow.reach(g, [g.entry.id], blocked=sids, follow=lambda e: True)
                    handlers = [n for n in g.nodes if n.kind == "handler" and n.ast.type is not None and "UnknownMessageType" in norm(n.ast.type)]
                    r_no_handler = flow.reach(g, [g.entry.id], blocked=sids | {h.id for h in handlers}, blocked_pass_exc=False) if handlers else via_handler
                    if handlers and not any(sn.id in flow.reach(g, [g.entry.id], blocked=sids, follow=lambda e: e.dst not in {h.id for h in handlers}) for sn in sends):
                        bad = []
                S.decide(not bad and bool(stamps), fkey(f, "stamp-before-send"), where(f), "unstamped sends are exactly the documented no-definition paths (legacy V1 class / unknown signal type)",
                         f"{f.qual}: the header can be sent without header.version = <definition>.type_hash on a path that is not the legacy / unknown-type path")
                ok_all = ok_all and not bad and bool(stamps)
            else:
                S.decide(bool(stamps), fkey(f, "stamp-before-send"), where(f), "stamp dominates the send", f"{f.qual}: header.version is never stamped")
                ok_all = ok_all and bool(stamps)
        other = [n for n in g.nodes if n.kind == "stmt" and isinstance(n.ast, ast.Assign) and any(path_of(t) in (f"{hv}.version",) for t in n.ast.targets) and not is_stamp(n)]
        late = [n for n in g.nodes if n.kind == "stmt" and isinstance(n.ast, ast.Assign) and any(path_of(t) == f"{hv}.reserved" for t in n.ast.targets)
                and any(n.id in flow.reach(g, [s_.id]) for s_ in stamps)]
        S.decide(not other and not late, fkey(f, "no-overwrite"), where(f), "nothing overwrites the stamped version", f"{f.qual}: the stamped version is overwritten: " + "; ".join(norm(n.ast) for n in other + late))
        return ok_all and not other and not late, deleg

    results = {}
    for f, hv in builders:
        r = check_sender(f, hv)
        results[f.name] = r
    for f, hv in builders:
        r = results[f.name]
        if not isinstance(r, tuple):
            continue
        for n, c in r[1]:
            callee_ok = isinstance(results.get(c.func.attr), tuple) and results[c.func.attr][0]
            # the delegate stamps the hash of the class registered for the type id, which must be this message's class
            S.decide(callee_ok, fkey(f, f"delegates:{norm(c)[:40]}"), where(f, c), "delegation to a sender that stamps the definition hash itself",
                     f"{f.qual} hands the frame to {c.func.attr}(), which does not stamp a definition hash into the header")
    hd = prog.module("pyrtma.header")
    mh = hd.classes.get("MessageHeader")
    if mh is None:
        raise AnalysisError("anchor vanished: header.MessageHeader")
    getters = [f for q, f in hd.functions.items() if f.cls is mh and f.name == "version"]
    okal = len(getters) == 2
    if okal:
        get, set_ = getters[0], getters[1]
        okal = any(isinstance(n, ast.Return) and norm(n.value) == "self.reserved" for n in walk_local(get.node)) and \
            any(isinstance(n, ast.Assign) and norm(n.targets[0]) == "self.reserved" and norm(n.value) == set_.params()[-1] for n in walk_local(set_.node))
    S.decide(okal, f"pyrtma.header::MessageHeader.version|aliases-reserved", f"{hd.rel}:{mh.node.lineno}", "version property reads and writes the reserved wire field", "MessageHeader.version does not alias the reserved field both ways")
    chk.units.update({"hash_emission_sites": nsites})
