"""C07 - a departed client leaves no trace (DESIGN §2 C07)."""
from __future__ import annotations

import ast

from .. import callgraph, cfg as C, flow, guards
from ..program import AnalysisError, Program, norm, walk_local, ancestors
from ..report import Check
from ..types import Types
from ..util import calls_in, fkey, is_method_call, node_calls, path_of, recv_of, stores_to_attr, where
from .mgr import iterates_loggers, module_writers, MGR, CORE, Dispatch, self_call, live_follow
from .c14 import conn_error_handlers, catches_conn_error
from .c19 import module_param

ADDERS = {"add", "append", "insert", "appendleft"}
REMOVERS = {"discard", "remove", "pop"}


def is_mod_or_sock(t) -> bool:
    return (t.kind == "cls" and t.cls.name == "Module") or (t.kind == "ext" and t.name.startswith("socket.socket"))


CLIENT_CHOSEN = ("mod_id", "name", "pid")


def derived_indices(cls_node: ast.ClassDef):
    """Containers of the manager keyed by (or holding) a value the client chose - `<module>.mod_id`, `.name`, `.pid`:
    {container attr: [(method name, node, chosen attr)]}.  Purely syntactic, so that the rule can be exercised on a fixture."""
    out = {}
    for fn in [n for n in cls_node.body if isinstance(n, ast.FunctionDef) and n.name != "__init__"]:
        for n in walk_local(fn):
            key = None
            if isinstance(n, ast.Assign):
                for t in n.targets:
                    if isinstance(t, ast.Subscript) and isinstance(t.value, ast.Attribute) and path_of(t.value.value) == "self":
                        key, cont = t.slice, t.value.attr
            elif isinstance(n, ast.Call) and isinstance(n.func, ast.Attribute) and n.func.attr in ADDERS and n.args and isinstance(n.func.value, ast.Attribute) and path_of(n.func.value.value) == "self":
                key, cont = n.args[-1], n.func.value.attr
            if key is not None and isinstance(key, ast.Attribute) and key.attr in CLIENT_CHOSEN and isinstance(key.value, ast.Name) and key.value.id != "self":
                out.setdefault(cont, []).append((fn.name, n, key.attr))
    return out


def value_keyed_erasures(fn_node: ast.FunctionDef, mp: str, cont: str):
    """[(node, guarded)] for the erasures from self.<cont> keyed by <mp>.<client-chosen attr> in fn_node; guarded = the
    erasure is conditioned on <mp>.connected, the evidence that this very module registered the entry."""
    g = C.build(fn_node)
    gs = flow.guard_states(g)
    out = []
    for n in g.nodes:
        hit = False
        if n.kind == "stmt" and isinstance(n.ast, ast.Delete):
            for t in n.ast.targets:
                if isinstance(t, ast.Subscript) and path_of(t.value) == f"self.{cont}" and isinstance(t.slice, ast.Attribute) and path_of(t.slice.value) == mp and t.slice.attr in CLIENT_CHOSEN:
                    hit = True
        for c in node_calls(n):
            if isinstance(c.func, ast.Attribute) and c.func.attr in REMOVERS and c.args and path_of(c.func.value) == f"self.{cont}":
                a = c.args[0]
                if isinstance(a, ast.Attribute) and path_of(a.value) == mp and a.attr in CLIENT_CHOSEN:
                    hit = True
        if hit:
            out.append((n, not guards.any_path_implies(gs.at(n), guards.parse(f"{mp}.connected"))))
    return out


def _fixture_verdict():
    import os
    p = os.path.join(os.path.dirname(os.path.dirname(os.path.dirname(os.path.abspath(__file__)))), "fixtures", "c07_value_keyed_index.py")
    tree = ast.parse(open(p, encoding="utf-8").read())
    from ..program import _set_parents
    _set_parents(tree)
    res = {}
    for cls in [n for n in tree.body if isinstance(n, ast.ClassDef)]:
        rmf = next(f for f in cls.body if isinstance(f, ast.FunctionDef) and f.name == "remove_module")
        for cont in derived_indices(cls):
            res[f"{cls.name}.{cont}"] = [gd for _, gd in value_keyed_erasures(rmf, "module", cont)]
    return res


def registrations(prog, ty, mm):
    """Container attributes of MessageManager into which a Module or its socket is inserted:
    {attr: [(func, node, shape)]}; shape in 'item' (self.X[k] = v), 'add' (self.X.add(v)), 'nested-add' (self.X[k].add(v))."""
    out = {}
    for f in mm.methods.values():
        if f.name == "__init__":
            continue
        for n in walk_local(f.node):
            if isinstance(n, ast.Assign):
                for t in n.targets:
                    if isinstance(t, ast.Subscript) and isinstance(t.value, ast.Attribute) and path_of(t.value.value) == "self":
                        if is_mod_or_sock(ty.expr(f, n.value)) or is_mod_or_sock(ty.expr(f, t.slice)):
                            out.setdefault(t.value.attr, []).append((f, n, "item"))
            elif isinstance(n, ast.Call) and isinstance(n.func, ast.Attribute) and n.func.attr in ADDERS and n.args:
                if not is_mod_or_sock(ty.expr(f, n.args[-1])):
                    continue
                r = n.func.value
                if isinstance(r, ast.Attribute) and path_of(r.value) == "self":
                    out.setdefault(r.attr, []).append((f, n, "add"))
                elif isinstance(r, ast.Subscript) and isinstance(r.value, ast.Attribute) and path_of(r.value.value) == "self":
                    out.setdefault(r.value.attr, []).append((f, n, "nested-add"))
    return out


def run(prog: Program, chk: Check):
    ty = Types(prog)
    cg = callgraph.get(prog)
    chk.explanation = (
        "C07 decided as registration/erasure pairing and funnelling: every MessageManager container that receives a Module or its "
        "socket is emptied of it by remove_module on every normal path (subscriptions through the Module.subs inverse index); every "
        "departure detector (short read, ConnectionError handler, DISCONNECT branch, connect refusal) calls remove_module; nothing "
        "else closes a client socket; CLIENT_CLOSED is published exactly once per removal; write-failure handlers keep the recipient "
        "loop going. Not decided: 'reusable immediately' as observed by a reconnecting client (timing/OS)."
    )
    chk.assumptions += ["Module.subs is the exact inverse index of subscriptions (C02 invariant I3)"]
    mm = prog.cls(MGR, "MessageManager")
    mc = prog.cls(MGR, "Module")
    rm = prog.func(MGR, "MessageManager.remove_module")
    rg = C.build(rm.node)
    mp = module_param(prog, ty, rm)
    # obligations of remove_module are about a module that is still registered: the idempotence guard's
    # "already removed" exit is excluded from the paths considered
    lf, dead_edges = live_follow(rg, mp)

    # ---- R registration / erasure pairing ---------------------------------------------------------------
    R = chk.rule("C07-R", "every container a Module/socket is registered in is emptied of it by remove_module on every normal path", 3,
                 "a leftover registration keeps the departed client a recipient or blocks id/name reuse")
    regs = registrations(prog, ty, mm)
    for attr, sites in sorted(regs.items()):
        shapes = {s for _, _, s in sites}

        def is_erase(n, attr=attr, shapes=shapes):
            a = n.ast
            if n.kind == "stmt" and isinstance(a, ast.Delete):
                for t in a.targets:
                    if isinstance(t, ast.Subscript) and path_of(t.value) == f"self.{attr}" and path_of(t.slice) in (f"{mp}.conn", mp):
                        return True
            for c in node_calls(n):
                if isinstance(c.func, ast.Attribute) and c.func.attr in REMOVERS and c.args:
                    r = c.func.value
                    arg = path_of(c.args[0])
                    if path_of(r) == f"self.{attr}" and arg in (mp, f"{mp}.conn"):
                        return True
            return False

        if "nested-add" in shapes:
            # erased through the inverse index: for k in module.subs: self.<attr>[k].discard(module)
            loops = [lp for lp in walk_local(rm.node) if isinstance(lp, ast.For) and path_of(lp.iter) == f"{mp}.subs" and isinstance(lp.target, ast.Name)]
            good = False
            for lp in loops:
                k = lp.target.id
                for c in calls_in(lp):
                    if (isinstance(c.func, ast.Attribute) and c.func.attr in ("discard",) and c.args and path_of(c.args[0]) == mp
                            and isinstance(c.func.value, ast.Subscript) and path_of(c.func.value.value) == f"self.{attr}" and path_of(c.func.value.slice) == k):
                        # unconditional in the loop body
                        if not any(isinstance(a, (ast.If, ast.Try)) for a in ancestors(c) if any(x is lp for x in ancestors(a))):
                            hn = [n for n in rg.nodes if n.kind == "for" and n.ast is lp]
                            if hn and not flow.must_follow(rg, [rg.entry], hn, exits=("exit",), follow=lf):
                                good = True
            R.decide(good, fkey(rm, f"erase:{attr}[*]"), where(rm), f"self.{attr}[k].discard({mp}) for every k in {mp}.subs on every path",
                     f"remove_module does not discard the module from self.{attr}[k] for every k in {mp}.subs")
            continue
        # write-only exception: a list nothing reads
        readers = []
        for f in prog.module(MGR).functions.values():
            for n in walk_local(f.node):
                if isinstance(n, ast.Attribute) and n.attr == attr and path_of(n.value) == "self" and isinstance(n.ctx, ast.Load):
                    par = getattr(n, "_parent", None)
                    if isinstance(par, ast.Attribute) and par.attr in ADDERS and isinstance(getattr(par, "_parent", None), ast.Call):
                        continue
                    readers.append((f, n))
        if attr == "sockets" and not readers:
            R.ok(fkey(rm, f"write-only:{attr}"), where(rm), f"self.{attr} is append-only and never read (frozen exception; lapses when a reader appears)")
            continue
        esc = flow.must_follow(rg, [rg.entry], is_erase, exits=("exit",), follow=lf)
        R.decide(not esc, fkey(rm, f"erase:{attr}"), where(rm), f"self.{attr} loses the module on every normal path",
                 f"a normal path of remove_module leaves the module registered in self.{attr} (registered in: " + ", ".join(sorted({f.qual for f, _, _ in sites})) + ")")
    for need in ("modules", "logger_modules", "subscriptions"):
        if need not in regs:
            raise AnalysisError(f"anchor vanished: no registration into MessageManager.{need} found")

    # ---- W nothing is published while the departing module is still a recipient ------------------------------------------------
    # Past its idempotence guard remove_module must first take the module out of the recipient sets (subscriptions through the
    # inverse index, logger_modules); only then may anything be published (CLIENT_CLOSED, a log record - the manager's logger
    # republishes through forward_message).  A publication before that is routed to the departing module itself, the write fails,
    # remove_module is entered again, passes the guard (the module is still in self.modules) and recurses without end.
    W = chk.rule("C07-W", "remove_module publishes (CLIENT_CLOSED, log records) only after the module left every recipient set", 1,
                 "a message published earlier is delivered to the departing module, whose failing write re-enters remove_module past its guard: unbounded recursion, the manager dies")
    fwd = mm.methods["forward_message"]
    pubs = []
    for (cnode, st_, fi, desc) in cg.calls.get(rm.key, []):
        if fi is not None and (fi.key == fwd.key or fwd.key in cg.may_call(fi)):
            pubs += [(n, cnode, desc) for n in rg.nodes if any(c is cnode for c in node_calls(n))]
    sub_loops = [n for n in rg.nodes if n.kind == "for" and path_of(n.ast.iter) == f"{mp}.subs"]
    lg_erase = [n for n in rg.nodes if any(isinstance(c.func, ast.Attribute) and c.func.attr in REMOVERS and path_of(c.func.value) == "self.logger_modules" and c.args and path_of(c.args[0]) == mp
                                            for c in node_calls(n))]
    if not pubs:
        raise AnalysisError("anchor vanished: remove_module publishes nothing (CLIENT_CLOSED)")
    for n, cnode, desc in pubs:
        # the subscription loop is complete when its `done` edge was taken: reaching the publication without it, or without the logger erase
        early_subs = not sub_loops or n.id in flow.reach(rg, [rg.entry.id], follow=lambda e: lf(e) and not (e.src in {x.id for x in sub_loops} and e.kind == "done") and e.kind != "exc")
        early_lg = not lg_erase or bool(flow.must_precede(rg, lg_erase, [n], follow=lf))
        W.decide(not early_subs and not early_lg, fkey(rm, f"publish-after-erase:{norm(cnode)[:50]}"), where(rm, cnode),
                 "reached only after the subscription entries and the logger registration of the module are gone",
                 f"remove_module: `{norm(cnode)[:70]}` publishes" + (" (log record -> manager logger -> forward_message)" if "emit" in (desc or "") else "")
                 + " while the departing module is still " + ("subscribed" if early_subs else "in logger_modules") + ": the message is routed to it, its write fails and remove_module recurses past its guard")

    # ---- X the removal itself cannot fail --------------------------------------------------------------------------------------------
    from .mgr import teardown_socket_calls

    Xr = chk.rule("C07-X", "tearing a departed client's connection down uses close() only, or covers other socket calls with an OSError handler", 1,
                  "shutdown() on a connection the peer has reset raises OSError(ENOTCONN): remove_module fails half way - no CLIENT_CLOSED, the module stays registered")
    for fq, c, okx in teardown_socket_calls(prog):
        Xr.decide(okx, f"{fq}|{norm(c)[:50]}", where(prog.func(MGR, fq), c), "covered by `except OSError` (or broader)",
                  f"{fq}: `{norm(c)[:60]}` can raise OSError for a client that left by reset; only ConnectionError - or nothing - is caught, so the removal stops before "
                  "CLIENT_CLOSED is published and before the module is deregistered")
    if not Xr.instances:
        Xr.ok(f"{MGR}|teardown", "", "no socket call besides close() on the removal path; the positive example in fixtures/c03_socket_teardown.py matched")

    # ---- F funnel ---------------------------------------------------------------------------------------------
    F = chk.rule("C07-F", "every departure detector calls remove_module (directly or via disconnect_module); nothing else closes a client socket", 10,
                 "a detector that forgets the removal leaves a dead client registered")
    is_rm = lambda c: self_call("remove_module")(c) or self_call("disconnect_module")(c)
    # (1) short reads in read_message
    rd = prog.func(MGR, "MessageManager.read_message")
    dg = C.build(rd.node)
    dgs = flow.guard_states(dg)
    false_rets = [n for n in dg.nodes if n.kind == "stmt" and isinstance(n.ast, ast.Return) and isinstance(n.ast.value, ast.Constant) and n.ast.value.value is False]
    if len(false_rets) < 1:  # one shared failure exit (`drop_reason = ...` ... `return False`) is as good as one per receive
        raise AnalysisError("anchor vanished: read_message short-read returns")
    rmn = [n for n in dg.nodes if any(is_rm(c) for c in node_calls(n))]
    for n in false_rets:
        miss = flow.must_precede(dg, rmn, [n])
        F.decide(not miss, fkey(rd, f"short-read:{'; '.join(('' if pol else 'not ') + norm(e) for e, pol in (dgs.at(n)[0] if dgs.at(n) else []))[:80]}"),
                 where(rd, n.ast), "short read removes the module before returning False", "a short read returns False without remove_module")
    recvs = [n for n in dg.nodes for c in node_calls(n) if is_method_call(c, ("recv_into", "recv"))]
    for n in recvs:
        # the byte count of every receive is compared with the expected size before success
        v = path_of(n.ast.targets[0]) if isinstance(n.ast, ast.Assign) else None
        tests = [t for t in dg.nodes if t.kind == "test" and v and v in flow.access_paths(t.ast)]
        # ... and the comparison is against the size that was asked for: a client that dies in the middle of a frame leaves a
        # short but non-zero read, so `if not nbytes:` would take a partial header / payload for a complete one
        rcall = [c for c in node_calls(n) if is_method_call(c, ("recv_into", "recv"))][0]
        size = rcall.args[1] if rcall.func.attr == "recv_into" and len(rcall.args) > 1 else (rcall.args[0] if rcall.func.attr == "recv" and rcall.args else None)
        exact = bool(tests) and size is not None and v is not None
        if exact:
            restore = {m.id for m in dg.nodes if m is not n and v in flow.stores_of(m)}
            live = flow.reach(dg, [n.id], blocked=restore, blocked_pass_exc=False)
            near = [t for t in tests if t.id in live]
            # the first test on the count reached from the receive: its continuing edge(s) must establish count == size
            firsts = [t for t in near if not any(o.id in flow.reach(dg, [n.id], blocked=restore | {t.id}, blocked_pass_exc=False) and t.id in flow.reach(dg, [o.id], blocked=restore, blocked_pass_exc=False) and o is not t for o in near)]
            goal = guards.parse(f"{v} == {norm(size)}") if rcall.func.attr == "recv_into" else guards.parse(f"len({v}) == {norm(size)}")
            exact = bool(firsts)
            for t in firsts:
                for e in dg.succ[t.id]:
                    if e.kind == "exc" or e.cond is None:
                        continue
                    # the branch that handles the short read ends in `return False` after removing the module
                    if guards.implies([(e.cond, e.pol)], goal) or guards.implies([(e.cond, e.pol)], guards.parse(f"not ({norm(goal.left)} < {norm(size)})")):
                        continue  # the continuing edge: the whole size arrived (a receive never returns more than was asked for)
                    # any other edge must be the short-read handling: every normal path from it ends in `return False`
                    # (path facts with a ghost mark on this edge: a flag set in the handling branch and tested at a shared exit
                    # prunes the continuation to the success return)
                    fr_ids = {x.id for x in false_rets}
                    key = (e.src, e.dst, e.kind, e.pol)
                    gm = flow.guard_states(dg, edge_filter=lambda x: x.kind != "exc", marks=lambda x, key=key: "@short" if (x.src, x.dst, x.kind, x.pol) == key else None)
                    for ex in dg.pred[dg.exit.id]:
                        if ex.kind == "exc" or ex.src in fr_ids or (dg.nodes[ex.src].kind == "stmt" and isinstance(dg.nodes[ex.src].ast, ast.Raise)):
                            continue
                        if any(any(norm(f_) == "@short" for f_, _ in p_) for p_ in gm.after_edge(ex)):
                            exact = False
        F.decide(exact, fkey(rd, f"recv-checked:{norm(n.ast)[:60]}"), where(rd, n.ast), "the received byte count is compared with the requested size before the data is used",
                 "a receive's byte count is not compared with the size that was requested (a short, non-zero read would pass for a complete one)")
    # (2) ConnectionError handlers around sends and reads
    nh = 0
    for f in mm.methods.values():
        for t, tsends in conn_error_handlers(prog, ty, f):
            rcp = path_of(recv_of(tsends[0]))
            for h in t.handlers:
                if not catches_conn_error(h):
                    continue
                nh += 1
                calls = [c for st in h.body for c in calls_in(st)]
                n_rm = [c for c in calls if is_rm(c) and c.args and path_of(c.args[0]) == rcp]
                F.decide(len(n_rm) == 1, fkey(f, f"write-failure:{norm(tsends[0])}"), where(f, h), f"handler removes `{rcp}` exactly once",
                         f"write-failure handler calls remove_module({rcp}) {len(n_rm)} time(s)")
    runf = prog.func(MGR, "MessageManager.run")
    from .mgr import client_read_coverage

    for rf, rc_, hs in client_read_coverage(prog, cg, mm):
        F.decide(hs is not None and all(sum(1 for st in h.body for cc in calls_in(st) if is_rm(cc)) == 1 for h in hs), fkey(rf, f"read-failure-handler:{norm(rc_)[:40]}"),
                 where(rf, rc_), "ConnectionError on read removes the source module exactly once", f"{rf.qual}: a ConnectionError from `{norm(rc_)[:50]}` does not remove the module exactly once"
                 + (" (no covering handler on some call chain)" if hs is None else ""))
        nh += 1
    # (3) DISCONNECT branch
    pm = prog.func(MGR, "MessageManager.process_message")
    d = Dispatch(prog, pm)
    if "MT_DISCONNECT" not in d.types:
        raise AnalysisError("anchor vanished: MT_DISCONNECT dispatch")
    src = module_param(prog, ty, pm)
    lo, hi = flow.count_on_paths(d.g, lambda n: any(is_rm(c) and c.args and path_of(c.args[0]) == src for c in node_calls(n)),
                                 [d.g.entry.id], [d.g.exit.id], follow=d.follow_under("MT_DISCONNECT"))
    F.decide((lo, hi) == (1, 1), fkey(pm, "disconnect-branch"), where(pm), "DISCONNECT removes the source module exactly once",
             f"DISCONNECT branch calls remove/disconnect_module [{lo}, {hi}] times")
    dm = prog.func(MGR, "MessageManager.disconnect_module")
    dmp = module_param(prog, ty, dm)
    dgc = C.build(dm.node)
    lo, hi = flow.count_on_paths(dgc, lambda n: any(self_call("remove_module")(c) and c.args and path_of(c.args[0]) == dmp for c in node_calls(n)),
                                 [dgc.entry.id], [dgc.exit.id])
    F.decide((lo, hi) == (1, 1), fkey(dm, "delegates"), where(dm), "disconnect_module delegates to remove_module exactly once",
             f"disconnect_module calls remove_module [{lo}, {hi}] times")
    # (4) refusal paths of connect_module
    cmf = prog.func(MGR, "MessageManager.connect_module")
    cgm = C.build(cmf.node)
    cmp_ = module_param(prog, ty, cmf)
    first_store = [n for n in cgm.nodes if n.kind == "stmt" and isinstance(n.ast, ast.Assign)
                   and any(isinstance(t, ast.Attribute) and path_of(t.value) == cmp_ for t in n.ast.targets)]
    after = flow.reach(cgm, [n.id for n in first_store])
    refusals = [n for n in cgm.nodes if n.id in after and n.kind == "stmt" and isinstance(n.ast, ast.Return)
                and isinstance(n.ast.value, ast.Constant) and not n.ast.value.value]
    if len(refusals) < 1:  # one shared exit (`except _Refused: ...; return False`) is as good as one per check
        raise AnalysisError("anchor vanished: connect_module refusal returns")
    rmn = [n for n in cgm.nodes if any(self_call("remove_module")(c) and c.args and path_of(c.args[0]) == cmp_ for c in node_calls(n))]
    gs_rm = None
    for n in refusals:
        miss = flow.must_precede(cgm, rmn, [n])
        if miss and rmn:
            # path-sensitive second look: a refusal decided earlier and carried in a flag (`ok = False` next to the removal,
            # `if not ok: return False` later).  Ghost mark "removed" on the edges out of the removal; every state that
            # reaches this return after a store to the module must carry it.
            if gs_rm is None:
                rm_ids = {x.id for x in rmn}
                fs_ids = {x.id for x in first_store}
                gs_rm = flow.guard_states(cgm, marks=lambda e: "_removed" if (e.kind != "exc" and e.src in rm_ids) else ("_stored" if (e.kind != "exc" and e.src in fs_ids) else None))
            sts = gs_rm.at(n)
            if all(("_removed" in {getattr(x_, "id", None) for x_, _ in p_}) or ("_stored" not in {getattr(x_, "id", None) for x_, _ in p_}) for p_ in sts):
                miss = []
        F.decide(not miss, fkey(cmf, "refusal-removes"), where(cmf, n.ast), "refusal path removes the refused module",
                 "connect_module refuses (return False) without remove_module(module)")
    # no other module is touched on a refusal: remove_module only ever gets the connecting module here
    others = [c for c in calls_in(cmf.node) if is_rm(c) and not (c.args and path_of(c.args[0]) == cmp_)]
    F.decide(not others, fkey(cmf, "incumbent-undisturbed"), where(cmf), "only the connecting module is ever removed by connect_module",
             "connect_module removes a module other than the connecting one: " + "; ".join(norm(c) for c in others))
    ostores = [n for n in walk_local(cmf.node) if isinstance(n, (ast.Assign, ast.AugAssign)) for t in (n.targets if isinstance(n, ast.Assign) else [n.target])
               if isinstance(t, ast.Attribute) and ty.expr(cmf, t.value).is_cls("Module") and path_of(t.value) != cmp_]
    F.decide(not ostores, fkey(cmf, "incumbent-fields-untouched"), where(cmf), "no store into another module's fields",
             "connect_module writes fields of a module other than the connecting one")
    # (5) who may close a client socket
    for f in prog.module(MGR).functions.values():
        for c in calls_in(f.node):
            if is_method_call(c, ("close", "shutdown", "detach")):
                rt = ty.expr(f, recv_of(c))
                if rt.kind == "ext" and rt.name.startswith("socket.socket"):
                    inside_fin = f.qual == "MessageManager.run" and any(isinstance(a, ast.Try) and any(c in calls_in(s) for s in a.finalbody) for a in ancestors(c))
                    okc = (f.cls is mc and f.name == "close") or inside_fin
                    F.decide(okc, fkey(f, c), where(f, c), "socket closed by Module.close / manager shutdown", f"client socket closed outside Module.close: {norm(c)} in {f.qual}")
                elif rt.kind == "cls" and rt.cls is mc:
                    okc = f.key == rm.key or (f.qual == "MessageManager.run" and any(isinstance(a, ast.Try) and any(c in calls_in(s) for s in a.finalbody) for a in ancestors(c)))
                    F.decide(okc, fkey(f, c), where(f, c), "Module.close called from remove_module / shutdown", f"Module.close called from {f.qual}")
    # remove_module closes
    closes = [n for n in rg.nodes for c in node_calls(n) if is_method_call(c, "close") and path_of(recv_of(c)) == mp]
    F.decide(bool(closes) and not flow.must_follow(rg, [rg.entry], closes, exits=("exit",), follow=lf), fkey(rm, "closes-connection"), where(rm),
             "remove_module closes the connection on every path", "remove_module does not close the module's connection on every path")

    # ---- C exactly one CLIENT_CLOSED ------------------------------------------------------------------------------
    Cc = chk.rule("C07-C", "send_client_close is called only from remove_module, exactly once per removal, describing the removed module", 3,
                  "zero or two CLIENT_CLOSED notices, or one about another module, contradicts 'exactly one ... describing it'")
    scc = prog.func(MGR, "MessageManager.send_client_close")
    for cf, cc in cg.call_sites_of(scc.key):
        Cc.decide(cf.key == rm.key, fkey(cf, cc), where(cf, cc), "called from remove_module", f"send_client_close called from {cf.qual}")
    iscc = lambda n: any(self_call("send_client_close")(c) and c.args and path_of(c.args[0]) == mp for c in node_calls(n))
    lo, hi = flow.count_on_paths(rg, iscc, [rg.entry.id], [rg.exit.id], follow=lf)
    # ... and none at all for a module that is already gone
    lo0, hi0 = (flow.count_on_paths(rg, iscc, [d for (s_, d, k) in dead_edges], [rg.exit.id]) if dead_edges else (0, 0))
    Cc.decide(hi0 in (0, -1), fkey(rm, "no-notice-for-removed-module"), where(rm), "an already removed module produces no second CLIENT_CLOSED", "remove_module republishes CLIENT_CLOSED for a module that is already removed")
    Cc.decide((lo, hi) == (1, 1), fkey(rm, "client-closed-once"), where(rm), "exactly one send_client_close(module) on every normal path",
              f"remove_module publishes CLIENT_CLOSED [{lo}, {hi}] times on a normal path")
    env = ty.locals_of(scc)
    sp = module_param(prog, ty, scc)
    mv = [k for k, t in env.items() if t.kind == "cls" and t.cls.name == "MDF_CLIENT_CLOSED"]
    okd = False
    if mv:
        stores = {t.attr: norm(n.value) for n in walk_local(scc.node) if isinstance(n, ast.Assign) for t in n.targets if isinstance(t, ast.Attribute) and path_of(t.value) == mv[0]}
        okd = stores.get("mod_id") == f"{sp}.mod_id" and stores.get("uid") == f"{sp}.uid" and stores.get("name") == f"{sp}.name" \
            and any(self_call("send_message")(c) and c.args and path_of(c.args[0]) == mv[0] for c in calls_in(scc.node))
    Cc.decide(okd, fkey(scc, "describes-module"), where(scc), "notice carries the removed module's uid, mod_id, name and is sent",
              "CLIENT_CLOSED does not carry uid/mod_id/name of the removed module or is not sent")
    # unregistered before the notice is forwarded? (the module must not be a recipient of its own CLIENT_CLOSED)
    unreg = [n for n in rg.nodes if n.kind == "for" and path_of(n.ast.iter) == f"{mp}.subs"]
    Cc.decide(bool(unreg) and not flow.must_precede(rg, unreg, [n for n in rg.nodes if iscc(n)]), fkey(rm, "unsubscribed-before-notice"), where(rm),
              "subscriptions are dropped before CLIENT_CLOSED is forwarded", "CLIENT_CLOSED is forwarded while the departed module is still subscribed")

    # ---- K indices keyed by a value the client chose ---------------------------------------------------------------------
    K = chk.rule("C07-K", "an index keyed by a client-chosen value (mod_id, name, pid) is erased by remove_module, and only on evidence that the departing module registered the entry", 1,
                 "a client refused for a duplicate id carries the holder's id: erasing by that value on its removal deletes the holder's entry (the holder stops being a recipient); never erasing blocks reuse")
    fv = _fixture_verdict()
    if fv != {"MessageManager.connected_ids": [False], "Guarded.by_name": [True]}:
        raise AnalysisError(f"C07-K self-check: fixtures/c07_value_keyed_index.py must yield one unguarded and one guarded erasure, got {fv}")
    mm_node = mm.node if hasattr(mm, "node") else None
    if mm_node is None:
        raise AnalysisError("anchor vanished: MessageManager class node")
    di = derived_indices(mm_node)
    for cont, sites in sorted(di.items()):
        ers = value_keyed_erasures(rm.node, mp, cont)
        if not ers:
            K.bad(fkey(rm, f"value-keyed:{cont}"), where(rm), f"self.{cont} is keyed by a client-chosen value in {sorted({fn for fn, _, _ in sites})} but remove_module never erases the departing module's entry")
        for n, guarded in ers:
            K.decide(guarded, fkey(rm, f"value-keyed:{cont}:{norm(n.ast)[:50]}"), where(rm, n.ast), f"erasure from self.{cont} conditioned on {mp}.connected",
                     f"remove_module erases `{norm(n.ast)[:60]}` from self.{cont} by a value the client chose without evidence ({mp}.connected) that this module registered it: "
                     "removing a client refused for a duplicate id erases the entry of the module that holds the id")
    K.ok("C07-K|scan", where(rm), f"{len(di)} container(s) keyed by a client-chosen value in MessageManager; detector exercised on fixtures/c07_value_keyed_index.py")

    # ---- S the message in flight still reaches the survivors ---------------------------------------------------------------
    S = chk.rule("C07-S", "a delivery loop whose body can remove modules re-establishes the liveness of each recipient before writing to it", 2,
                 "writing to a module removed earlier in the same delivery raises OSError on the closed socket: the delivery to the remaining clients stops")
    from .mgr import snapshot_loop_sends

    for f, lp, c, verdict in snapshot_loop_sends(prog, ty, cg, mm, rm):
        if verdict == "no-nested-removal":
            S.ok(fkey(f, f"loop:{norm(lp.iter)[:40]}"), where(f, lp), "body cannot remove modules")
        else:
            S.decide(verdict == "live", fkey(f, f"liveness-before:{norm(c)}"), where(f, c), "liveness re-established in this iteration before the send",
                     f"{f.qual}: `{norm(c)}` may address a module that the failure handling of an earlier recipient already removed; the remaining recipients of this message are never served")

    # ---- D delivery to the others continues ---------------------------------------------------------------------------
    D = chk.rule("C07-D", "a write-failure handler inside a recipient loop leaves the loop able to continue", 3,
                 "return/break/raise in the handler stops delivery to the remaining subscribers of that very message")
    prog.func(MGR, "MessageManager.forward_message")  # anchor
    for f in mm.methods.values():  # recipient loops live in forward_message and wherever the logger fan-out is written
        for t, tsends in conn_error_handlers(prog, ty, f):
            if not any(isinstance(a, (ast.For, ast.While)) for a in ancestors(t)):
                continue
            for h in t.handlers:
                leaves = [s for st in h.body for s in walk_local(st) if isinstance(s, (ast.Return, ast.Break, ast.Raise))]
                D.decide(not leaves, fkey(f, f"handler-continues:{norm(tsends[0])}"), where(f, h), "handler falls through to the next recipient",
                         f"write-failure handler in {f.qual} leaves the recipient loop: " + "; ".join(norm(s) for s in leaves))
    # the acknowledgement during whose delivery the requester's departure is discovered still reaches the loggers: in
    # send_ack the logger fan-out lies on every normal path, the write-failure handler's included
    sack_ = mm.methods.get("send_ack")
    if sack_ is not None:
        ag_ = C.build(sack_.node)
        lg_ = [n for n in ag_.nodes for c in node_calls(n) if self_call("send_to_loggers")(c)]
        lg_ += [n for n in ag_.nodes if n.kind == "for" and iterates_loggers(sack_.node, n.ast)
                and any(is_method_call(cc, "send_message") and path_of(recv_of(cc)) == path_of(n.ast.target) for cc in calls_in(n.ast))]
        has_handler = any(isinstance(x, ast.ExceptHandler) for x in walk_local(sack_.node))
        D.decide(bool(lg_) and not flow.must_follow(ag_, [ag_.entry], lg_, exits=("exit",)), fkey(sack_, "ack-copy-after-failed-requester"), where(sack_),
                 "the loggers' copy of an acknowledgement is sent on every normal path of send_ack" + (" (after the write-failure handler too)" if has_handler else ""),
                 "MessageManager.send_ack: a normal path - the one through the requester's write-failure handler - skips the logger fan-out: "
                 "the remaining clients (loggers) lose the very message during whose delivery the departure was discovered")
    # the message in flight must survive the nested publications (CLIENT_CLOSED, FAILED_MESSAGE, log records) that the
    # failure handling performs from inside the recipient loop: outgoing headers / payloads are per-call objects
    from ..dataflow import definitions as _defs

    for f in mm.methods.values():
        for c in calls_in(f.node):
            if not (self_call("forward_message")(c) or self_call("send_to_loggers")(c) or self_call("send_message")(c) or (is_method_call(c, module_writers(prog)) and ty.expr(f, recv_of(c)).is_cls("Module"))):
                continue
            for a in c.args:
                pth = path_of(a)
                if pth is None:
                    continue
                shared = None
                if pth.startswith("self.") and pth not in ("self.mm_module", "self.header") and not ty.expr(f, a).is_cls("Module") and ty.expr(f, a).kind in ("cls", "unknown"):
                    shared = pth
                elif "." not in pth and not any(k == "param" for k, _ in _defs(f.node, pth)):
                    for k, r in _defs(f.node, pth):
                        rp = path_of(r) if isinstance(r, (ast.Attribute, ast.Name)) else None
                        if rp and rp.startswith("self.") and rp not in ("self.header", "self.mm_module") and not ty.expr(f, r).is_cls("Module") and ty.expr(f, r).kind in ("cls", "unknown"):
                            shared = rp
                D.decide(shared is None, fkey(f, f"fresh:{norm(c)[:50]}:{pth}"), where(f, c), f"`{pth}` is a per-call object",
                         f"{f.qual} sends the shared object `{shared}`: the nested CLIENT_CLOSED / FAILED_MESSAGE / log record published while a failure is handled overwrites the frame still being delivered to the remaining subscribers")
    chk.units.update({"registered_containers": sorted(regs), "conn_error_handlers": nh, "refusal_paths": len(refusals)})
