"""C02 - client and manager agree on the subscription set (DESIGN §2 C02).

Exhaustive exploration of the abstract subscription state space; the
transformers are obtained by interpreting the current source of the client and
manager functions over symbolic message types (sa.setalg)."""
from __future__ import annotations

import ast
import itertools
from collections import defaultdict, deque
from typing import Dict, List, Tuple

from .. import callgraph
from ..program import AnalysisError, Program, norm, walk_local, ancestors
from ..report import Check
from ..setalg import Interp, ModelRaise, Obj, Sym
from ..types import Types
from ..util import calls_in, fkey, is_method_call, node_calls, path_of, recv_of, where
from .mgr import MGR, CORE, Dispatch, self_call

CLI = "pyrtma.client"
ALL = Sym("ALL")
PUBLIC_LIST_OPS = ["subscribe", "unsubscribe", "pause_subscription", "resume_subscription"]
PUBLIC_NOARG_OPS = ["unsubscribe_from_all", "pause_all_subscriptions", "resume_all_subscriptions"]
CONTEXTS = ["subscription_context", "paused_subscription_context"]
MUTATING_LIST_METHODS = {"remove", "append", "insert", "pop", "extend", "clear", "sort", "reverse"}


class Model:
    def __init__(self, prog: Program, universe: List[Sym]):
        self.prog = prog
        self.U = universe
        self.cl = prog.cls(CLI, "Client")
        self.mm = prog.cls(MGR, "MessageManager")
        self.mod = prog.cls(MGR, "Module")
        core = prog.module(CORE)
        self.const_env = {"ALL_MESSAGE_TYPES": ALL, "cd.ALL_MESSAGE_TYPES": ALL}
        self.frame_type: Dict[str, int] = {}
        for name, ci in core.classes.items():
            if name.startswith("MDF_"):
                self.const_env[f"cd.{name}"] = ("class", ci)
                self.const_env[name] = ("class", ci)
                tid = ci.class_consts.get("type_id")
                if isinstance(tid, ast.Constant):
                    self.frame_type[name] = tid.value
        # dispatch wiring read from process_message
        pm = prog.func(MGR, "MessageManager.process_message")
        self.dispatch = Dispatch(prog, pm)
        self.handlers: Dict[int, List] = {}
        ty = Types(prog)
        for tname, tval in self.dispatch.types.items():
            ids = self.dispatch.nodes_under(tname)
            hs = []
            for n in self.dispatch.g.nodes:
                if n.id not in ids:
                    continue
                for c in node_calls(n):
                    if isinstance(c.func, ast.Attribute) and path_of(recv_of(c)) == "self" and len(c.args) == 2 and norm(c.args[1]) in ("self.message",):
                        fi = prog.find_method(self.mm, c.func.attr)
                        if fi is not None:
                            hs.append(fi)
            self.handlers[tval] = hs
        self.frames_emitted: List[Tuple[str, Sym]] = []
        # the subscribed-to-ALL flag may be stored (assigned in the control method) or derived (a read-only property)
        fp = prog.find_method(self.cl, "_sub_all")
        self.flag_is_property = fp is not None and any(d.split(".")[-1] == "property" for d in fp.decorators)
        self.interp_steps = 0
        self.vocab: Dict[str, int] = {}

    # -- state <-> objects -------------------------------------------------------------------------
    def mk(self, state):
        sub, paused, sub_all, msubs, reg = state
        client = Obj(self.cl, "Client", _subscribed_types=set(sub), _paused_types=set(paused), _connected=True)
        if not self.flag_is_property:
            client.set("_sub_all", sub_all)
        module = Obj(self.mod, "Module", subs=set(msubs))
        table = defaultdict(set)
        for s in reg:
            table[s].add(module)
        mgr = Obj(self.mm, "MessageManager", subscriptions=table)
        return client, mgr, module

    def freeze(self, client, mgr, module):
        table = mgr.get("subscriptions")
        flag = client.get("_sub_all") if not self.flag_is_property else self._interp().call_method(self.prog.find_method(self.cl, "_sub_all"), client, [])
        return (frozenset(client.get("_subscribed_types")), frozenset(client.get("_paused_types")), bool(flag),
                frozenset(module.get("subs")), frozenset(s for s in list(table) if module in table[s]))

    def _interp(self):
        def send(selfobj, args, kwargs):
            m = args[0]
            if not isinstance(m, Obj) or not m.has("msg_type"):
                raise AnalysisError("C02 vocabulary exceeded: send_message of a non-subscription frame")
            self.frames_emitted.append((m._clsname, m.get("msg_type")))
            return None

        noop = lambda s_, a_, k_: None
        # acknowledgement / notification side effects are outside the subscription algebra (decided by C19 / C07)
        it = Interp(self.prog, {"send_message": send, "send_ack": noop, "send_client_info": noop, "send_to_loggers": noop, "send_failed_message": noop}, self.const_env)
        return it

    def deliver(self, mgr, module, frames):
        it = self._interp()
        for clsname, sym in frames:
            tid = self.frame_type.get(clsname)
            hs = self.handlers.get(tid)
            if hs is None:
                raise AnalysisError(f"C02: frame class {clsname} (type id {tid}) is not dispatched to a handler by process_message")
            frame = Obj(None, clsname, msg_type=sym)
            msg = Obj(None, "Message", data=frame)
            for h in hs:
                it.call_method(h, mgr, [module, msg])
        self._acc(it)

    def _acc(self, it):
        self.interp_steps += it.steps
        for k, v in it.vocab.items():
            self.vocab[k] = self.vocab.get(k, 0) + v

    def apply(self, state, opname, arg):
        """-> (new_state, raised or None, frames)"""
        client, mgr, module = self.mk(state)
        self.frames_emitted = []
        it = self._interp()
        fi = self.prog.find_method(self.cl, opname)
        if fi is None:
            raise AnalysisError(f"anchor vanished: Client.{opname}")
        raised = None
        try:
            it.call_method(fi, client, [list(arg)] if arg is not None else [])
        except ModelRaise as r:
            raised = r.name
        self._acc(it)
        frames = list(self.frames_emitted)
        self.deliver(mgr, module, frames)
        # the state is re-created from values for the next step: aliasing between the two sets would be lost there, so it is
        # reported here (`self._subscribed_types = self._paused_types = set()` makes every later change of one change the other)
        if raised is None and client.get("_subscribed_types") is client.get("_paused_types"):
            raised = "SetsAliased(_subscribed_types and _paused_types are now one object: every later change of one is a change of the other)"
        return self.freeze(client, mgr, module), raised, frames

    def apply_context(self, state, ctxname, arg):
        client, mgr, module = self.mk(state)
        it = self._interp()
        fi = self.prog.find_method(self.cl, ctxname)
        if fi is None:
            raise AnalysisError(f"anchor vanished: Client.{ctxname}")
        enter, exit_, shape = it.run_generator(fi, client, [list(arg)])
        self.frames_emitted = []
        raised = None
        try:
            enter()
        except ModelRaise as r:
            raised = "enter:" + r.name
        f1 = list(self.frames_emitted)
        self.deliver(mgr, module, f1)
        inside = self.freeze(client, mgr, module)
        f2 = []
        if raised is None:
            self.frames_emitted = []
            try:
                exit_()
            except ModelRaise as r:
                raised = "exit:" + r.name
            f2 = list(self.frames_emitted)
            self.deliver(mgr, module, f2)
        self._acc(it)
        return self.freeze(client, mgr, module), inside, raised, f1 + f2


def manager_closure(prog: Program, universe=None):
    """Explore the manager's subscription state alone under ARBITRARY control frames (any of the four kinds, any
    symbolic type, in any order - raw clients are not bound by the Python client's refusals).
    -> (states, transitions, violations[(code, text, trace)])"""
    U = universe or [ALL, Sym("a"), Sym("b")]
    m = Model(prog, U)
    init = (frozenset(), frozenset())
    seen, queue, viol, trans = {init}, deque([init]), [], 0
    kinds = ["MDF_SUBSCRIBE", "MDF_UNSUBSCRIBE", "MDF_PAUSE_SUBSCRIPTION", "MDF_RESUME_SUBSCRIPTION"]
    while queue:
        st = queue.popleft()
        for k in kinds:
            for sym in U:
                client, mgr, module = m.mk((frozenset(), frozenset(), False, st[0], st[1]))
                m.deliver(mgr, module, [(k, sym)])
                fz = m.freeze(client, mgr, module)
                s2 = (fz[3], fz[4])
                trans += 1
                trace = f"Module.subs={sorted(map(str, st[0]))} registered={sorted(map(str, st[1]))} --{k[4:]}({sym})--> Module.subs={sorted(map(str, s2[0]))} registered={sorted(map(str, s2[1]))}"
                bad = []
                if set(s2[0]) != set(s2[1]):
                    bad.append(("index", "Module.subs is not the inverse index of the subscription table"))
                if ALL in s2[1] and len(s2[1]) > 1:
                    bad.append(("double", "module registered for ALL_MESSAGE_TYPES and for an individual type at once (it would receive that type twice)"))
                # the routing table afterwards is what the frame asked for
                adding = k in ("MDF_SUBSCRIBE", "MDF_RESUME_SUBSCRIPTION")
                if sym == ALL:
                    want = frozenset([ALL]) if adding else frozenset()
                elif ALL in st[1]:
                    want = st[1]  # individual requests change nothing while registered for all types
                else:
                    want = (st[1] | {sym}) if adding else (st[1] - {sym})
                if set(s2[1]) != set(want) and not bad:
                    bad.append(("route", f"after {k[4:]}({sym}) the module is registered for {sorted(map(str, s2[1]))}, the frame asks for {sorted(map(str, want))}"))
                for code, text in bad:
                    viol.append((code, text, trace))
                if not bad and s2 not in seen:
                    seen.add(s2)
                    queue.append(s2)
    return len(seen), trans, viol


def fmt_state(s):
    sub, paused, sub_all, msubs, reg = s
    f = lambda x: "{" + ",".join(sorted(map(str, x))) + "}"
    return f"client(sub={f(sub)} paused={f(paused)} sub_all={sub_all}) manager(Module.subs={f(msubs)} registered={f(reg)})"


def invariants(U, s):
    sub, paused, sub_all, msubs, reg = s
    bad = []
    for x in U:
        if x == ALL:
            continue
        c = sub_all or x in sub
        m = (x in reg) or (ALL in reg)
        if c != m:
            bad.append(("I1", f"type {x}: client reports {'subscribed' if c else 'not subscribed'}, manager {'delivers' if m else 'does not deliver'}"))
        if x in paused and m:
            bad.append(("I2", f"type {x} is paused at the client but the manager still delivers it"))
    if sub_all != (ALL in reg):
        bad.append(("I1", f"client sub_all={sub_all} but manager registered-for-ALL={ALL in reg}"))
    if set(msubs) != set(reg):
        bad.append(("I3", f"Module.subs {sorted(map(str, msubs))} is not the inverse index of subscriptions {sorted(map(str, reg))}"))
    if ALL in msubs and len(msubs) > 1:
        bad.append(("I3", "Module.subs holds ALL together with individual types"))
    return bad


def arg_lists(symbols, maxlen):
    out = []
    for n in range(0, maxlen + 1):
        out += [tuple(p) for p in itertools.product(symbols, repeat=n)]
    return out


def run(prog: Program, chk: Check):
    thorough = chk.tier == "thorough"
    indiv = [Sym("a"), Sym("b")] + ([Sym("c")] if thorough else [])
    U = [ALL] + indiv
    chk.explanation = (
        "C02 decided exhaustively over an abstract state space: message types are only ever compared for equality/membership "
        "(checked: the interpreter rejects any other use), so a universe of the ALL sentinel plus "
        f"{len(indiv)} symbolic individual types is complete. Transformers are obtained by interpreting the current source of "
        "Client._subscription_control, its public wrappers, the two context managers and the manager's add/remove/pause/resume "
        "handlers (wired through process_message's dispatch as read from its CFG) over symbolic types. Every reachable "
        "(client, manager) state x every operation x every argument list is checked against I1 agreement, I2 paused-not-delivered, "
        "I3 index consistency, I4 refusal while subscribed to all, I5 scoped restore. Plus the syntactic rule L1 (no mutation of the "
        "iterated list). Frames are assumed delivered in order, one at a time (C05/C19)."
    )
    chk.assumptions += ["control frames of one client are processed in order, one at a time (C05-T, C19)",
                        "message types are used only through ==, != and membership (enforced: other uses abort the analysis)"]
    m = Model(prog, U)
    need = {"MDF_SUBSCRIBE", "MDF_UNSUBSCRIBE", "MDF_PAUSE_SUBSCRIPTION", "MDF_RESUME_SUBSCRIPTION"}
    if not need <= set(m.frame_type):
        raise AnalysisError("anchor vanished: subscription control message classes in core_defs")
    for clsname in sorted(need):
        # the viewing classes used with from_buffer must start with msg_type (layout-compatible views)
        ci = prog.module(CORE).classes[clsname]
        first = next((s for s in ci.node.body if isinstance(s, ast.AnnAssign) and isinstance(s.value, ast.Call)
                      and isinstance(s.target, ast.Name) and not s.target.id.startswith("type_")), None)
        if first is None or first.target.id != "msg_type":
            raise AnalysisError(f"C02: {clsname} does not start with a msg_type field; from_buffer views are not interchangeable")

    I = {k: chk.rule(k, d, f, nec) for k, d, f, nec in [
        ("C02-I1", "agreement: client-reported subscription <=> manager delivers, in every reachable state", 10, "the property's first sentence"),
        ("C02-I2", "a paused type is not delivered", 10, "paused types are not delivered until resumed"),
        ("C02-I3", "Module.subs is the exact inverse index; ALL excludes individual entries", 10, "remove_module and the ALL branches rely on it (C07-S, C01-R6)"),
        ("C02-I4", "while subscribed to all, individual requests raise before any frame and change nothing", 4, "refused by the client and change nothing at the manager"),
        ("C02-I5", "scoped contexts restore the entry subscribed/paused sets (empty body)", 10, "leaving a scoped context restores exactly the sets that held on entry"),
    ]}
    init = (frozenset(), frozenset(), False, frozenset(), frozenset())
    seen = {init}
    queue = deque([init])
    maxlen = 3 if thorough else 2
    lists = arg_lists(U, maxlen)
    ctx_lists = [l for l in arg_lists(indiv, 3) if l]
    transitions = 0
    viol: Dict[str, dict] = {}
    samples = []

    bad_states = set()

    def report(rule, key, detail):
        if key not in viol:
            viol[key] = {"rule": rule, "detail": detail}

    while queue:
        s = queue.popleft()
        for op in PUBLIC_LIST_OPS + PUBLIC_NOARG_OPS:
            for arg in (lists if op in PUBLIC_LIST_OPS else [None]):
                s2, raised, frames = m.apply(s, op, arg)
                transitions += 1
                trace = f"{fmt_state(s)} --{op}({list(map(str, arg)) if arg is not None else ''})--> {fmt_state(s2)}" + (f" raised {raised}" if raised else "")
                if len(samples) < 6 and frames and transitions % 7 == 0:
                    samples.append({"trace": trace, "frames": [f"{c}({t})" for c, t in frames]})
                if raised and raised != "InvalidSubscription":
                    report("C02-I1", f"{op}:raises:{raised}", f"{op} raises {raised}: {trace}")
                broken = invariants(U, s2)
                for code, text in broken:
                    shape = "ALL" if (arg is not None and ALL in arg) else "individual"
                    report(f"C02-{code}", f"{op}[{shape}]:{code}:{'sub_all' if s[2] else 'not_sub_all'}", f"{text}; {trace}")
                if broken:
                    bad_states.add(s2)
                    continue  # report the breaking transition only; do not explore from an inconsistent state
                # I4
                if s[2] and arg is not None and arg and ALL not in arg and op in PUBLIC_LIST_OPS:
                    okr = raised == "InvalidSubscription" and not frames and s2 == s
                    if not okr:
                        report("C02-I4", f"{op}:I4", f"individual request while subscribed to all was not refused cleanly: {trace} frames={frames}")
                    else:
                        I["C02-I4"].ok(f"{CLI}::Client.{op}|refused-in-sub_all:{fmt_state(s)}:{list(map(str, arg))}", "", "raises InvalidSubscription, no frame, no change")
                if s2 not in seen:
                    seen.add(s2)
                    queue.append(s2)
    # context managers
    nctx = 0
    for s in sorted(seen, key=fmt_state):
        if s[2] or s in bad_states:
            continue
        for cx in CONTEXTS:
            for arg in ctx_lists:
                s2, inside, raised, frames = m.apply_context(s, cx, arg)
                nctx += 1
                trace = f"{fmt_state(s)} --with {cx}({list(map(str, arg))}): pass--> {fmt_state(s2)}" + (f" raised {raised}" if raised else "")
                restored = (s2[0], s2[1]) == (s[0], s[1])
                overlap = "entered-with-paused" if (set(arg) & set(s[1])) else ("entered-with-subscribed" if (set(arg) & set(s[0])) else "disjoint")
                if not restored or raised:
                    adjacent = any(arg[i] in (s[0] if cx == "subscription_context" else set(indiv) - set(s[0])) and arg[i + 1] in (s[0] if cx == "subscription_context" else set(indiv) - set(s[0])) for i in range(len(arg) - 1))
                    kind = "adjacent-filtered-entries" if adjacent else overlap
                    report("C02-I5", f"{cx}:I5:{kind}", f"sets not restored on exit: {trace}")
                else:
                    I["C02-I5"].ok(f"{CLI}::Client.{cx}|{fmt_state(s)}|{list(map(str, arg))}", "", "subscribed and paused sets restored")
                for code, text in invariants(U, s2) + invariants(U, inside):
                    report(f"C02-{code}", f"{cx}:{code}", f"{text}; {trace}")
    # one obligation per (state, invariant) that held
    for s in seen - bad_states:
        for code in ("I1", "I2", "I3"):
            I[f"C02-{code}"].ok(f"state|{fmt_state(s)}", "", "holds in this reachable state after every operation leading to it")
    fwhere = {"C02-I1": where(prog.func(MGR, "MessageManager.add_subscription")), "C02-I2": where(prog.func(MGR, "MessageManager.remove_subscription")),
              "C02-I3": where(prog.func(MGR, "MessageManager.add_subscription")), "C02-I4": where(prog.func(CLI, "Client._subscription_control")),
              "C02-I5": where(prog.func(CLI, "Client.subscription_context"))}
    for key, v in sorted(viol.items()):
        I[v["rule"]].bad(key, fwhere.get(v["rule"], ""), v["detail"])

    # ---- M manager-side invariant under arbitrary frames (raw clients are not bound by the client's refusals) -------
    Mr = chk.rule("C02-M", "manager alone, arbitrary SUBSCRIBE/UNSUBSCRIBE/PAUSE/RESUME frames: Module.subs stays the inverse index and ALL excludes individual registrations", 3,
                  "a module registered under ALL and under a type receives that type twice; a stale index entry survives remove_module (C07-S)")
    ns, nt, mviol = manager_closure(prog, U)
    seenk = set()
    for code, text, trace in mviol:
        k = f"manager-only:{code}"
        if k in seenk:
            continue
        seenk.add(k)
        Mr.bad(k, where(prog.func(MGR, "MessageManager.add_subscription")), f"{text}: {trace}")
    for i in range(ns):
        Mr.ok(f"manager-state#{i}", "", "invariant holds in this manager state for every frame")
    chk.extra_coverage["manager_only"] = {"states": ns, "transitions": nt}

    # ---- L1 no mutation of the iterated list (syntactic, sweeps the package) -------------------------------------
    L1 = chk.rule("C02-L1", "no `for x in L` whose body mutates L without leaving the loop", 2,
                  "removing during iteration skips the next element: an already-subscribed type stays in the scoped list and is unsubscribed on exit")
    nloops = 0
    for f in prog.all_functions(include_extra=thorough):
        for lp in walk_local(f.node):
            if not isinstance(lp, ast.For) or not isinstance(lp.iter, ast.Name):
                continue
            nloops += 1
            L = lp.iter.id
            offenders = []
            for st in lp.body:
                for c in walk_local(st):
                    hit = (isinstance(c, ast.Call) and isinstance(c.func, ast.Attribute) and c.func.attr in MUTATING_LIST_METHODS and path_of(c.func.value) == L) or \
                          (isinstance(c, ast.Delete) and any(isinstance(t, ast.Subscript) and path_of(t.value) == L for t in c.targets))
                    if not hit:
                        continue
                    # immediately followed by break/return in the same block?
                    stmt = c
                    while not isinstance(stmt, ast.stmt):
                        stmt = stmt._parent
                    blk = None
                    par = stmt._parent
                    for fld in ("body", "orelse", "finalbody"):
                        b = getattr(par, fld, None)
                        if isinstance(b, list) and stmt in b:
                            blk = b
                    nxt = blk[blk.index(stmt) + 1] if blk is not None and blk.index(stmt) + 1 < len(blk) else None
                    if not isinstance(nxt, (ast.Break, ast.Return)):
                        offenders.append(c)
            if f.module.name == CLI and f.cls is not None and f.name in CONTEXTS:
                L1.decide(not offenders, fkey(f, f"for {norm(lp.target)} in {L}"), where(f, lp), "iterated list is not mutated in the loop body",
                          f"`{L}` is mutated while being iterated: " + "; ".join(norm(o) for o in offenders))
            elif offenders:
                L1.bad(fkey(f, f"for {norm(lp.target)} in {L}"), where(f, lp), f"`{L}` is mutated while being iterated: " + "; ".join(norm(o) for o in offenders))
    # the two context managers must exist even if they no longer loop: keep the rule from matching nothing
    for cx in CONTEXTS:
        fi = prog.find_method(prog.cls(CLI, "Client"), cx)
        if fi is None:
            raise AnalysisError(f"anchor vanished: Client.{cx}")
        if not any(i["key"].startswith(f"C02-L1|{CLI}::Client.{cx}|") for i in L1.instances):
            L1.ok(fkey(fi, "no-name-iterating-loop"), where(fi), "no loop over a named list in this context manager")
    chk.extra_coverage.update({
        "exhaustive": True,
        "states": len(seen),
        "transitions": transitions + nctx,
        "universe": [str(x) for x in U],
        "argument_lists_per_op": len(lists),
        "context_argument_lists": len(ctx_lists),
        "context_runs": nctx,
        "interpreter_steps": m.interp_steps,
        "interpreter_vocabulary_used": m.vocab,
        "dispatch_wiring": {str(k): [h.qual for h in v] for k, v in m.handlers.items() if v},
        "traces": samples,
    })
    chk.units.update({"loops_over_named_iterables_scanned": nloops})
