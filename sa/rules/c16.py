"""C16 - compilation is deterministic; shipped core definitions are current (DESIGN §2 C16)."""
from __future__ import annotations

import ast
import os

from .. import artefacts
from ..program import AnalysisError, Program, norm, walk_local, ancestors
from ..report import Check
from ..util import calls_in, fkey, is_method_call, node_calls, path_of, recv_of, where

PAR = "pyrtma.parser"
BACKEND_MODS = ["pyrtma.compilers.python", "pyrtma.compilers.c99", "pyrtma.compilers.javascript", "pyrtma.compilers.matlab",
                "pyrtma.compilers.yaml", "pyrtma.compilers.info"]
EMITTING_MODS = BACKEND_MODS + ["pyrtma.compile", PAR]
FORBIDDEN_PREFIX = ("time.", "datetime.", "random.", "uuid.", "secrets.")
FORBIDDEN_LAST = {"getpid", "getcwd", "cwd", "absolute", "resolve", "realpath", "abspath", "gethostname", "getuser", "now", "today", "urandom"}
FORBIDDEN_NAMES = {"id", "hash"}


MUT = {"add", "append", "extend", "insert", "update", "setdefault", "pop", "popitem", "clear", "remove", "discard"}


def shared_mutable_state(prog: Program, modnames):
    """Module-level or class-level containers of the compiler that some function mutates: state that survives from one
    compile to the next in the same process.  -> [(module, owner, name, mutation site (FuncInfo, node))]"""
    out = []
    for mn in modnames:
        m = prog.module(mn)
        shared = {}
        for k, v in m.assigns.items():
            if isinstance(v, (ast.Dict, ast.List, ast.Set)) or (isinstance(v, ast.Call) and norm(v.func) in ("dict", "list", "set", "defaultdict", "OrderedDict", "Counter")):
                shared[k] = (None, k)
        for ci in m.classes.values():
            if any(b in ("Enum", "IntEnum") for b in prog.base_names(ci)) or any(norm(d).endswith("dataclass") for d in ci.node.decorator_list):
                continue
            for k, v in ci.class_consts.items():
                if isinstance(v, (ast.Dict, ast.List, ast.Set)) or (isinstance(v, ast.Call) and norm(v.func) in ("dict", "list", "set", "defaultdict", "OrderedDict", "Counter")):
                    shared[k] = (ci.name, k)
        if not shared:
            continue
        for f in m.functions.values():
            for n in walk_local(f.node):
                tgt = None
                if isinstance(n, (ast.Assign, ast.AugAssign)):
                    for t in (n.targets if isinstance(n, ast.Assign) else [n.target]):
                        if isinstance(t, ast.Subscript):
                            tgt = t.value
                elif isinstance(n, ast.Call) and isinstance(n.func, ast.Attribute) and n.func.attr in MUT:
                    tgt = n.func.value
                elif isinstance(n, ast.Delete):
                    for t in n.targets:
                        if isinstance(t, ast.Subscript):
                            tgt = t.value
                if tgt is None:
                    continue
                p_ = path_of(tgt) or ""
                last = p_.split(".")[-1]
                if last in shared and (p_ == last or p_.split(".")[0] in ("self", "cls") or p_.split(".")[0] == (shared[last][0] or "")):
                    owner = shared[last][0]
                    # `self.x[...] = ` hits a class-level container only if no instance attribute of that name is created
                    if owner is not None and p_.startswith("self."):
                        ci = m.classes[owner]
                        init = ci.methods.get("__init__")
                        if init is not None and any(isinstance(x, (ast.Assign, ast.AnnAssign)) and norm(x.targets[0] if isinstance(x, ast.Assign) else x.target) == f"self.{last}" for x in walk_local(init.node)):
                            continue
                    out.append((mn, owner, last, f, n))
    return out


def forbidden_call(c: ast.Call):
    nm = norm(c.func)
    last = nm.split(".")[-1]
    if any(nm.startswith(p) for p in FORBIDDEN_PREFIX):
        return nm
    if isinstance(c.func, ast.Attribute) and last in FORBIDDEN_LAST:
        return nm
    if isinstance(c.func, ast.Name) and c.func.id in FORBIDDEN_NAMES:
        return nm
    return None


def usage_context(n: ast.AST) -> str:
    """How the value of expression n is consumed: log / raise / fs / compare / store:<target> / arg:<callee> / other"""
    child = n
    for a in ancestors(n):
        if isinstance(a, ast.Call) and child is not a.func:
            fn = norm(a.func)
            last = fn.split(".")[-1]
            if last in ("debug", "info", "warning", "warn", "error", "exception", "critical", "print") or fn in ("warnings.warn",):
                return "log"
            if last in ("chdir", "open", "is_dir", "is_file", "exists", "mkdir", "run", "parse_file", "parse_options", "relpath", "Path", "str", "tuple"):
                if last in ("str", "Path", "tuple", "relpath"):
                    child = a
                    continue
                return "fs"
            if last in ("trim_root",):
                return "sanitised"
            if fn[:1].isupper() or fn.endswith("Error"):
                # exception / dataclass constructor
                if fn.endswith("Error") or fn in ("RuntimeError",):
                    return "raise"
                return f"ctor:{fn}"
            child = a
            continue
        if isinstance(a, ast.Raise):
            return "raise"
        if isinstance(a, (ast.JoinedStr, ast.FormattedValue, ast.BinOp, ast.Attribute, ast.Subscript, ast.Starred, ast.List, ast.Tuple, ast.keyword)):
            child = a
            continue
        if isinstance(a, (ast.Compare, ast.If, ast.While, ast.BoolOp, ast.UnaryOp, ast.comprehension)):
            return "compare"
        if isinstance(a, (ast.Assign, ast.AnnAssign)):
            t = a.targets[0] if isinstance(a, ast.Assign) else a.target
            return f"store:{norm(t)}"
        if isinstance(a, ast.Expr):
            return "discarded"
        if isinstance(a, ast.Return):
            return "return"
        if isinstance(a, ast.stmt):
            return "other"
        child = a
    return "other"


def run(prog: Program, chk: Check):
    chk.explanation = (
        "C16 decided as: (N) no nondeterminism source (time, random, pid, cwd, absolute paths, id()/hash(), set iteration) reaches "
        "emitted text - every such call in parser/compile/back ends is classified by how its value is consumed and must end in "
        "logging, an exception message, file-system access, a comparison, parser bookkeeping, or trim_root; the back ends iterate the "
        "parser tables directly; MDF/SDF sources are root-relative; the debug dump is confined to `if debug`; (Y) every section parsed "
        "by parse_text is mirrored into yaml_dict and YAMLCompiler dumps it with IMPORT_COREDEFS false; repeated keys must not be "
        "lost by the merge; (A) the shipped generated module agrees with the shipped YAML closure on every constant, alias, id, "
        "type_def, type_hash (recomputed sha256), descriptor sequence and natural size (independent evaluator/layout). Not decided: "
        "byte-identity of two real compiler runs; the YAML emitter/loader round trip."
    )
    chk.assumptions += ["black is a deterministic function of its input (trusted third party)", "dict iteration is insertion ordered"]

    # ---- N no nondeterminism source reaches the output ---------------------------------------------------------
    N = chk.rule("C16-N", "every nondeterminism-source call is consumed only by logging / errors / file access / comparisons / bookkeeping / trim_root", 8,
                 "a timestamp, absolute path, pid or unordered iteration in emitted text breaks byte-identical recompilation")
    BOOKKEEPING_ATTRS = {"self.current_file", "self.root_path"}  # never emitted: see the constructor-argument rule below
    BENIGN = ("log", "raise", "fs", "compare", "sanitised", "discarded")

    def local_flow(f, name, depth=0, seen=()):
        """contexts in which local `name` of f (holding a nondeterministic value) is consumed that are NOT benign"""
        bad = []
        if depth > 4 or name in seen:
            return bad
        for n in walk_local(f.node):
            if isinstance(n, ast.Name) and n.id == name and isinstance(n.ctx, ast.Load):
                cx = usage_context(n)
                if cx in BENIGN or cx.endswith(".args"):
                    continue
                if cx.startswith("store:"):
                    tgt = cx[6:]
                    if tgt in BOOKKEEPING_ATTRS:
                        continue
                    if tgt.isidentifier():
                        bad += local_flow(f, tgt, depth + 1, seen + (name,))
                        continue
                bad.append(f"{name} -> {cx}")
        return bad

    nfound = 0
    for modname in EMITTING_MODS:
        m = prog.module(modname)
        for f in m.functions.values():
            for c in calls_in(f.node):
                fc = forbidden_call(c)
                if fc is None:
                    continue
                nfound += 1
                ctx = usage_context(c)
                okc = ctx in BENIGN or (ctx.startswith("store:") and (ctx[6:] in BOOKKEEPING_ATTRS or ctx.endswith(".args")))
                if ctx.startswith("store:") and ctx[6:].isidentifier():
                    esc = local_flow(f, ctx[6:])
                    okc = not esc
                    if esc:
                        ctx = ctx + " and from there to " + "; ".join(esc[:3])
                if ctx.startswith("ctor:") or ctx in ("return", "other"):
                    okc = False
                # frozen exceptions (one named symbol each, with reason)
                if modname == "pyrtma.compilers.python" and fc == "os.getcwd" and any(isinstance(a, ast.Call) and norm(a.func) == "subprocess.run" for a in ancestors(c)):
                    okc = True  # working directory of the formatter subprocess, not emitted
                if modname == PAR and f.qual == "CustomEncoder.default":
                    okc = True  # JSON debug dump encoder: only used by Parser.to_json (the `if debug` dump)
                N.decide(okc, fkey(f, c), where(f, c), f"`{fc}` consumed by: {ctx}", f"{f.key}: value of `{norm(c)}` flows to {ctx} (may reach emitted text)")
    # bookkeeping attributes must not be emitted: direct constructor arguments / writes of self.current_file etc.
    pm = prog.module(PAR)
    for f in pm.functions.values():
        for n in walk_local(f.node):
            if isinstance(n, ast.Attribute) and path_of(n) in ("self.current_file", "self.root_path") and isinstance(n.ctx, ast.Load):
                ctx = usage_context(n)
                if ctx.startswith("ctor:"):
                    cls = ctx[5:]
                    # only definitions whose src is printed by a back end matter for the emitted bytes
                    emitted = cls in ("MDF", "SDF", "MT", "MID")
                    if emitted:
                        N.bad(fkey(f, f"{cls}(...{path_of(n)}...)"), where(f, n), f"{f.qual} stores the absolute `{path_of(n)}` in a {cls} whose source is emitted by a back end")
                    else:
                        chk.note(f"O-9 {f.qual}: {cls}(...) receives the absolute `{path_of(n)}` (not printed by any back end; only its directory name is compared by the C back end)")
    tr = prog.func(PAR, "Parser.trim_root")
    N.decide(any(norm(c.func) in ("os.path.relpath",) for c in calls_in(tr.node)), fkey(tr, "relative"), where(tr), "trim_root returns a path relative to the root definition file", "trim_root no longer returns a root-relative path")
    # every MDF/SDF/MT/MID construction passes src=self.trim_root(...)
    for f in pm.functions.values():
        for c in calls_in(f.node):
            if norm(c.func) in ("MDF", "SDF", "MT", "MID", "HID", "ConstantExpr", "ConstantString"):
                src = next((k.value for k in c.keywords if k.arg == "src"), None)
                N.decide(src is not None and isinstance(src, ast.Call) and is_method_call(src, "trim_root"), fkey(f, f"{norm(c.func)}.src"), where(f, c),
                         "src is root-relative (trim_root)", f"{f.qual}: {norm(c.func)}(...) is not given src=self.trim_root(...)")
    # back ends iterate the parser tables directly (insertion = parse order); no set / sorted-by-identity iteration
    for modname in BACKEND_MODS:
        m = prog.module(modname)
        for f in m.functions.values():
            for lp in walk_local(f.node):
                it = None
                if isinstance(lp, ast.For):
                    it = lp.iter
                elif isinstance(lp, ast.comprehension):
                    it = lp.iter
                if it is None:
                    continue
                t = norm(it)
                bad = (isinstance(it, ast.Call) and isinstance(it.func, ast.Name) and it.func.id in ("set", "frozenset")) or isinstance(it, (ast.Set, ast.SetComp)) \
                    or ".difference(" in t or ".union(" in t or ".intersection(" in t
                N.decide(not bad, fkey(f, f"for ... in {t[:60]}"), where(f, lp if isinstance(lp, ast.For) else it), "iteration order is deterministic", f"{f.key} iterates an unordered set: {t}")
    # ... and nowhere in the front end or the back ends is a set turned into a sequence (list({...}), tuple(set(x)), iteration,
    # "".join(set)): the order of a set of strings changes from one interpreter start to the next (hash randomisation).
    # sorted(...) over a set is fine.
    def is_set_expr(e_):
        if isinstance(e_, (ast.Set, ast.SetComp)):
            return True
        if isinstance(e_, ast.Call) and isinstance(e_.func, ast.Name) and e_.func.id in ("set", "frozenset"):
            return True
        if isinstance(e_, ast.Call) and isinstance(e_.func, ast.Attribute) and e_.func.attr in ("union", "difference", "intersection", "symmetric_difference"):
            return True
        if isinstance(e_, ast.BinOp) and isinstance(e_.op, (ast.BitOr, ast.BitAnd, ast.Sub, ast.BitXor)) and (is_set_expr(e_.left) or is_set_expr(e_.right)):
            return True
        return False

    for modname in EMITTING_MODS:
        m_ = prog.module(modname)
        for f in m_.functions.values():
            for n_ in walk_local(f.node):
                seq = None
                if isinstance(n_, ast.Call) and isinstance(n_.func, ast.Name) and n_.func.id in ("list", "tuple", "enumerate", "iter", "zip") and n_.args and is_set_expr(n_.args[0]):
                    seq = n_
                elif isinstance(n_, ast.Call) and isinstance(n_.func, ast.Attribute) and n_.func.attr in ("join", "extend") and n_.args and is_set_expr(n_.args[0]):
                    seq = n_
                elif modname not in BACKEND_MODS and isinstance(n_, (ast.For, ast.comprehension)) and is_set_expr(n_.iter):
                    seq = n_.iter
                elif isinstance(n_, ast.Starred) and is_set_expr(n_.value) and isinstance(getattr(n_, "_parent", None), (ast.List, ast.Tuple, ast.Call)):
                    seq = n_
                if seq is not None:
                    N.bad(fkey(f, seq), where(f, seq), f"{f.qual} turns a set into a sequence (`{norm(seq)[:60]}`): its order differs between interpreter runs, and so does whatever is built from it")
    # generator / parser state must not survive from one compile to the next in the same process
    sms = shared_mutable_state(prog, EMITTING_MODS)
    for mn, owner, name, f, n in sms:
        N.bad(fkey(f, f"shared:{(owner + '.') if owner else ''}{name}"), where(f, n), f"{f.qual} mutates the {'class' if owner else 'module'}-level container `{(owner + '.') if owner else ''}{name}`: output of a compile depends on what was compiled earlier in the same process")
    if not sms:
        N.ok(f"{PAR}|no-shared-mutable-compiler-state", "src/pyrtma", "no module- or class-level container of parser/compile/back ends is mutated at run time")
    cf = prog.func("pyrtma.compile", "compile")
    dumps = [c for c in calls_in(cf.node) if is_method_call(c, "to_json")]
    okd = all(any(isinstance(a, ast.If) and norm(a.test) == "debug" for a in ancestors(c)) for c in dumps)
    N.decide(okd, fkey(cf, "debug-dump-guarded"), where(cf), "parser.json (absolute paths by design) is written only under `if debug`", "the parser debug dump is written outside `if debug`")
    if nfound < 5:
        raise AnalysisError(f"anchor vanished: expected >= 5 nondeterminism-source calls to classify in the compiler, found {nfound}")

    # ---- Y combined YAML carries every section ---------------------------------------------------------------------
    Y = chk.rule("C16-Y", "every section handled by parse_text is mirrored into yaml_dict under the same key; YAMLCompiler dumps all of it with IMPORT_COREDEFS false", 9,
                 "a section missing from the combined YAML recompiles to different ids/hashes/layouts")
    pt = prog.func(PAR, "Parser.parse_text")
    nsec = 0
    # the local holding the loaded document, whatever it is called
    loads = [n.targets[0].id for n in walk_local(pt.node) if isinstance(n, ast.Assign) and len(n.targets) == 1 and isinstance(n.targets[0], ast.Name) and isinstance(n.value, ast.Call) and is_method_call(n.value, ("load", "safe_load"))]
    dv = loads[0] if loads else "data"
    # a section block, however it is spelt: a loop over the entries of data[S] / data.get(S) (directly or through a local)
    # whose body hands each entry to a handle_* method, followed - whenever the loop completes - by
    # self.yaml_dict[S].update(<the same entries>)
    from .. import cfg as C_, flow as F_
    from ..dataflow import definitions as _defs

    def section_of(e):
        """S when expression e denotes the document's section S: data['S'], data.get('S'), or a local bound once to one of these"""
        if isinstance(e, ast.Name):
            ds = [r for k_, r in _defs(pt.node, e.id) if k_ == "assign"]
            return section_of(ds[0]) if len(ds) == 1 else None
        if isinstance(e, ast.Subscript) and path_of(e.value) == dv and isinstance(e.slice, ast.Constant) and isinstance(e.slice.value, str):
            return e.slice.value
        if isinstance(e, ast.Call) and is_method_call(e, "get") and path_of(recv_of(e)) == dv and len(e.args) == 1 and isinstance(e.args[0], ast.Constant) and isinstance(e.args[0].value, str):
            return e.args[0].value
        return None

    ptg_ = C_.build(pt.node)
    seen_secs = {}
    for lpn in [n for n in ptg_.nodes if n.kind == "for"]:
        lp = lpn.ast
        it = lp.iter
        base = it.func.value if isinstance(it, ast.Call) and isinstance(it.func, ast.Attribute) and it.func.attr in ("items", "values", "keys") else it
        sec = section_of(base)
        handled = [c for c in calls_in(lp) if isinstance(c.func, ast.Attribute) and c.func.attr.startswith("handle_") and path_of(c.func.value) == "self"]
        if sec is None or not handled:
            continue
        seen_secs.setdefault(sec, []).append(lpn)
    for sec, lpns in sorted(seen_secs.items()):
        nsec += 1
        if sec == "imports":
            Y.ok(fkey(pt, f"section:{sec}"), where(pt, lpns[0].ast), "imports are flattened by construction (the imported sections are merged)")
            continue
        upd_nodes = [n for n in ptg_.nodes for c in node_calls(n) if is_method_call(c, "update") and norm(c.func.value).replace('"', "'") == f"self.yaml_dict['{sec}']" and c.args and section_of(c.args[0]) == sec]
        okm = bool(upd_nodes)
        for lpn in lpns:
            # from the completion of the handler loop no normal path reaches the function's exit without the update
            done = [e.dst for e in ptg_.succ[lpn.id] if e.kind == "done"]
            r = F_.reach(ptg_, done, blocked={u.id for u in upd_nodes}, follow=lambda e: e.kind != "exc", blocked_pass_exc=False)
            if ptg_.exit.id in r and not ({u.id for u in upd_nodes} & set(done)):
                okm = False
            if any(d in {u.id for u in upd_nodes} for d in done):
                pass
        Y.decide(okm, fkey(pt, f"section:{sec}"), where(pt, lpns[0].ast), f"yaml_dict['{sec}'] updated with the section's entries whenever its handlers completed",
                 f"section `{sec}` is handled but not mirrored into self.yaml_dict['{sec}'] (lost from the combined YAML)")
    if nsec < 8:
        raise AnalysisError(f"anchor vanished: expected >= 8 handled sections in parse_text, found {nsec}")
    # keys that may legitimately repeat across files must not be overwritten by dict.update
    cn = prog.func(PAR, "Parser.check_name")
    exempt = []
    for t in walk_local(cn.node):
        if isinstance(t, ast.If) and isinstance(t.test, ast.Compare) and isinstance(t.test.comparators[0], ast.Constant) and any(isinstance(s, ast.Return) for s in t.body):
            exempt.append(t.test.comparators[0].value)
    hmd = prog.func(PAR, "Parser.handle_message_def")
    for key in exempt:
        # a repeatable key is merged if parse_text treats it specially before/after the update
        from .. import cfg as C

        ptg = C.build(pt.node)
        live = ptg.reachable_from_entry()
        merged = False
        for nd in ptg.nodes:
            n = nd.ast
            if nd.kind == "stmt" and nd.id in live and isinstance(n, ast.Assign) and any(
                    isinstance(t, ast.Subscript) and isinstance(t.slice, ast.Constant) and t.slice.value == key
                    and norm(t.value).replace('"', "'") == "self.yaml_dict['message_defs']" for t in n.targets):
                class _Sec(ast.NodeTransformer):  # `message_defs = data.get('message_defs')` used as an alias of the section
                    def visit_Name(self_, x):
                        sc = section_of(x) if isinstance(x.ctx, ast.Load) else None
                        return ast.copy_location(ast.parse(f"{dv}[{sc!r}]", mode="eval").body, x) if sc else x

                import copy as _cp

                txt = norm(_Sec().visit(_cp.deepcopy(n.value))).replace('"', "'")
                # the stored value must combine the previous entry with this file's entry
                prev = [d for d in walk_local(pt.node) if isinstance(d, ast.Assign) and isinstance(d.value, ast.Call) and is_method_call(d.value, "get")
                        and d.value.args and isinstance(d.value.args[0], ast.Constant) and d.value.args[0].value == key]
                pv = path_of(prev[0].targets[0]) if prev else None
                # the previous entry must be read before update() overwrites it
                upd = [x for x in ptg.nodes if x.kind == "stmt" and x.ast is not None and any(is_method_call(c, "update") and "message_defs" in norm(c.func.value) for c in calls_in(x.ast))] if prev else []
                pn = [x for x in ptg.nodes if x.ast is prev[0]] if prev else []
                from .. import flow

                before = bool(pn) and bool(upd) and not flow.must_precede(ptg, pn, upd)
                merged = pv is not None and f"{pv}['id']" in txt and f"{dv}['message_defs']['{key}']['id']" in txt and before
        Y.decide(merged, fkey(pt, f"repeatable-key:{key}"), where(pt), f"repeatable key {key} is merged across files",
                 f"`{key}` may appear in message_defs of several files (it is exempt from duplicate detection) but yaml_dict['message_defs'].update() keeps only the last occurrence: the combined YAML loses the earlier reserved ids")
    yc = prog.func("pyrtma.compilers.yaml", "YAMLCompiler.generate")
    opt = [n for n in walk_local(yc.node) if isinstance(n, ast.Dict)
           and any(isinstance(k, ast.Constant) and k.value == "IMPORT_COREDEFS" and isinstance(v, ast.Constant) and v.value is False for k, v in zip(n.keys, n.values))]
    Y.decide(bool(opt), fkey(yc, "IMPORT_COREDEFS-false"), where(yc), "combined output sets IMPORT_COREDEFS: false (core definitions are already inside)", "combined YAML does not force IMPORT_COREDEFS false: core definitions would be parsed twice")
    from ..util import iterations as _its2

    lp = [i_ for i_ in _its2(yc.node) if norm(i_.iter) == "self.parser.yaml_dict.items()"]
    okl = len(lp) == 1 and not lp[0].conditions and (lp[0].is_comp or not any(isinstance(s, (ast.Continue, ast.Break)) for s in walk_local(lp[0].node))) and any(is_method_call(c, "dump") for c in calls_in(yc.node))
    Y.decide(okl, fkey(yc, "dumps-every-section"), where(yc), "every yaml_dict section is copied and dumped", "YAMLCompiler skips sections of yaml_dict")
    init = prog.func(PAR, "Parser.__init__")
    keys = None
    for n in walk_local(init.node):
        if isinstance(n, (ast.Assign, ast.AnnAssign)) and norm(n.targets[0] if isinstance(n, ast.Assign) else n.target) == "self.yaml_dict" and isinstance(n.value, ast.Call):
            keys = [k.arg for k in n.value.keywords]
    for fn_ in ("Parser.__init__", "Parser.clear"):
        ff = prog.func(PAR, fn_)
        fresh = False
        for n in walk_local(ff.node):
            if isinstance(n, (ast.Assign, ast.AnnAssign)) and norm(n.targets[0] if isinstance(n, ast.Assign) else n.target) == "self.yaml_dict":
                v = n.value
                if isinstance(v, ast.Call) and norm(v.func) == "dict" and not v.args and all(isinstance(k.value, (ast.Dict, ast.List)) and not (k.value.keys if isinstance(k.value, ast.Dict) else k.value.elts) for k in v.keywords):
                    fresh = True
                if isinstance(v, ast.Dict) and all(isinstance(x, ast.Dict) and not x.keys for x in v.values):
                    fresh = True
        Y.decide(fresh, fkey(ff, "yaml_dict-fresh-sections"), where(ff), "yaml_dict is rebuilt with fresh, empty section dicts", f"{fn_} does not rebuild self.yaml_dict from fresh empty section dicts (sections shared between parsers / never emptied)")
    Y.decide(keys is not None and {"constants", "string_constants", "aliases", "host_ids", "module_ids", "struct_defs", "message_defs"} <= set(keys), fkey(init, "yaml_dict-sections"), where(init),
             "yaml_dict has a slot for every definition section", f"yaml_dict sections are {keys}")

    # ---- A shipped artefact agreement ------------------------------------------------------------------------------------
    A = chk.rule("C16-A", "shipped generated module == what the shipped YAML closure defines (constants, aliases, ids, type_def, sha256 hash, descriptors, natural size)", 300,
                 "client and manager speak core_defs.py; if it is stale they disagree with every other language output")
    pairs = artefacts.SHIPPED_PAIRS if chk.tier == "thorough" else artefacts.SHIPPED_PAIRS[:1]
    stats = {}
    for yrel, prel, tag in pairs:
        if not (os.path.exists(os.path.join(prog.root, yrel)) and os.path.exists(os.path.join(prog.root, prel))):
            if tag == "core":
                raise AnalysisError(f"anchor vanished: {yrel} / {prel}")
            continue
        out, st = artefacts.compare_pair(prog, yrel, prel)
        stats[tag] = st
        for kind, key, loc, okk, detail in out:
            A.decide(okk, key, loc, detail, detail)
    st = stats.get("core", {})
    if st and (st["structs"] < 5 or st["messages"] < 50 or st["constants"] < 15):
        raise AnalysisError(f"core definition closure unexpectedly small: {st}")
    chk.extra_coverage.update({"artefact_pairs": stats, "exhaustive": True})
    chk.units.update({"nondeterminism_source_calls_classified": nfound, "sections": nsec})

    # ---- G no state survives a compile -------------------------------------------------------------------------------------------------
    # A module-level table that the compile path writes to makes the second compile in a process depend on the first
    # (`self.desctypes = desctype_map` then `self.desctypes[alias] = ...` adds the aliases of one closure to the table every
    # later closure is compiled with): same closure, different bytes.
    G = chk.rule("C16-G", "the parser and the back ends never write to a module-level table (directly or through an attribute / local that names it)", 1,
                 "state left behind by one compile changes the output of the next compile of another - or the same - closure in the same process")
    MUT = {"update", "append", "extend", "insert", "add", "setdefault", "pop", "popitem", "clear", "remove", "discard", "sort", "reverse", "__setitem__", "__delitem__"}
    ntab = 0
    for m in prog.modules.values():
        if not (m.name.startswith("pyrtma.compilers") or m.name in (PAR, "pyrtma.compile")):
            continue
        if m.name == "pyrtma.compilers.python_v1":
            # the deprecated C-header (.h) compiler: not on the path of a YAML definition closure, which is what the property
            # quantifies over.  (It does add each file's typedefs to its module-level ctypes_map - observation O-11.)
            continue
        tables = {k for k, v in m.assigns.items() if isinstance(v, (ast.Dict, ast.List, ast.Set, ast.DictComp, ast.ListComp, ast.SetComp))
                  or (isinstance(v, ast.Call) and norm(v.func) in ("dict", "list", "set", "defaultdict", "collections.defaultdict", "OrderedDict"))}
        # tables imported from a sibling module count as well
        for nm, tgt in m.imports.items():
            src_mod, _, sym = tgt.rpartition(".")
            sm = prog.modules.get(src_mod)
            if sm is not None and sym in sm.assigns and isinstance(sm.assigns[sym], (ast.Dict, ast.List, ast.Set)):
                tables.add(nm)
        ntab += len(tables)
        if not tables:
            continue
        for f in m.functions.values():
            # names of this function / attributes of self that are bound to a table itself (not to a copy)
            alias = set(tables) - {p for p in f.params()}
            for n in walk_local(f.node):
                if isinstance(n, ast.Assign) and isinstance(n.value, ast.Name) and n.value.id in tables:
                    for t in n.targets:
                        if path_of(t):
                            alias.add(path_of(t))
            if f.cls is not None:
                for g_ in f.cls.methods.values():
                    for n in walk_local(g_.node):
                        if isinstance(n, ast.Assign) and isinstance(n.value, ast.Name) and n.value.id in tables and n.value.id not in g_.params():
                            for t in n.targets:
                                if (path_of(t) or "").startswith("self."):
                                    alias.add(path_of(t))
            shadow = {t_.id for n in walk_local(f.node) if isinstance(n, ast.Assign) for t_ in n.targets if isinstance(t_, ast.Name) and not (isinstance(n.value, ast.Name) and n.value.id in tables)}
            alias -= (shadow & tables)
            for n in walk_local(f.node):
                hit = None
                if isinstance(n, (ast.Assign, ast.AugAssign, ast.Delete)):
                    tg = n.targets if isinstance(n, (ast.Assign, ast.Delete)) else [n.target]
                    for t in tg:
                        if isinstance(t, ast.Subscript) and path_of(t.value) in alias:
                            hit = path_of(t.value)
                elif isinstance(n, ast.Call) and isinstance(n.func, ast.Attribute) and n.func.attr in MUT and path_of(n.func.value) in alias:
                    hit = path_of(n.func.value)
                if hit:
                    G.bad(fkey(f, n), where(f, n), f"{f.qual} writes to the module-level table behind `{hit}` (`{norm(n)[:70]}`): it is shared by every compile in the process")
    if ntab < 2:
        raise AnalysisError(f"anchor vanished: module-level tables of the compile path (found {ntab})")
    if not G.instances:
        G.ok(f"{PAR}|no-global-writes", "", f"{ntab} module-level table(s) of the parser / back ends are only read")

    # ---- R the root and the files are canonicalised the same way ---------------------------------------------------------------------
    # trim_root() expresses each definition's source relative to root_path; parse_file resolves (symlink- and ..-free) every file
    # it opens.  If the root is only made absolute, a symlink in the path given to the compiler shows up as ../../real/dir/file in
    # type_source: the same closure compiled through two spellings of its location gives different bytes.
    Rr = chk.rule("C16-R", "root_path is canonicalised exactly like the paths of the files that are parsed (resolve())", 2,
                  "a root that keeps a symlink while the files are resolved makes the emitted source paths depend on how the closure was named")
    pcls = prog.cls(PAR, "Parser")
    pf = pcls.methods.get("parse_file")
    canon = lambda v: "resolve" if any(isinstance(c, ast.Call) and isinstance(c.func, ast.Attribute) and c.func.attr == "resolve" for c in ast.walk(v)) else \
        ("absolute" if any(isinstance(c, ast.Call) and isinstance(c.func, ast.Attribute) and c.func.attr == "absolute" for c in ast.walk(v)) else "as-given")
    file_canon = set()
    if pf is not None:
        inc = [c for c in calls_in(pf.node) if is_method_call(c, "append") and norm(recv_of(c)) == "self.included_files"]
        for c in inc:
            v = path_of(c.args[0]) if c.args else None
            for n in walk_local(pf.node):
                if isinstance(n, ast.Assign) and v and any(path_of(t) == v for t in n.targets):
                    file_canon.add(canon(n.value))
    if not file_canon:
        raise AnalysisError("anchor vanished: how parse_file canonicalises the path it records")
    nroot = 0
    for f in pcls.methods.values():
        for n in walk_local(f.node):
            if isinstance(n, ast.Assign) and any(path_of(t) == "self.root_path" for t in n.targets) and f.name not in ("__init__", "clear"):
                if norm(n.value) in ("pkg_dir",) or isinstance(n.value, ast.Name):
                    continue  # the package directory, taken from the module's own location
                nroot += 1
                Rr.decide({canon(n.value)} == file_canon, fkey(f, n), where(f, n), f"root_path canonicalised with {sorted(file_canon)[0]}(), like the parsed files",
                          f"{f.qual}: root_path is `{norm(n.value)}` ({canon(n.value)}), the files are recorded {sorted(file_canon)}: with a symlink (or ..) in the given path the sources "
                          "are emitted relative to a different spelling of the same directory")
    if nroot < 2:
        raise AnalysisError(f"anchor vanished: root_path assignments (found {nroot})")
