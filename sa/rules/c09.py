"""C09 - field validation is sound, complete and atomic (DESIGN §2 C09): the code-shape core."""
from __future__ import annotations

import ast

from .. import cfg as C, dataflow, flow, guards
from ..program import AnalysisError, Program, norm, walk_local, ancestors
from ..report import Check
from ..util import calls_in, fkey, is_method_call, node_calls, path_of, recv_of, where

VAL = "pyrtma.validators"
VALIDATE = ("validate_one", "validate_many", "validate_array")
FLAG = "_VALIDATION_ENABLED"


def is_stub(fn: ast.FunctionDef) -> bool:
    body = [s for s in fn.body if not (isinstance(s, ast.Expr) and isinstance(s.value, ast.Constant) and isinstance(s.value.value, str))]
    return all(isinstance(s, ast.Expr) and isinstance(s.value, ast.Constant) and s.value.value is Ellipsis for s in body) or not body \
        or any(norm(d).endswith("overload") for d in fn.decorator_list)


def write_effects(node: C.Node):
    """[(kind, written value expr)] for the write effects performed at a CFG node."""
    out = []
    a = node.ast
    if node.kind != "stmt" or a is None:
        return out
    for c in node_calls(node):
        if isinstance(c.func, ast.Name) and c.func.id == "setattr" and len(c.args) == 3 and norm(c.args[1]) == "self._private_name":
            out.append(("setattr", c.args[2]))
        elif isinstance(c.func, ast.Attribute) and c.func.attr in ("__set__", "__setitem__") and c.args:
            out.append(("delegate", c.args[-1]))
    if isinstance(a, ast.Assign):
        for t in a.targets:
            if isinstance(t, ast.Subscript) and isinstance(t.value, ast.Call) and isinstance(t.value.func, ast.Name) and t.value.func.id == "getattr" \
                    and len(t.value.args) == 2 and norm(t.value.args[1]) == "self._private_name":
                out.append(("item-store", a.value))
    return out


def run(prog: Program, chk: Check):
    chk.explanation = (
        "C09 decided as code shape: every concrete validator class has effective __set__/validate_one/validate_many (and __setitem__ "
        "for sequences); in every __set__/__setitem__ each write effect is reached, on every path, only after a validate call on the "
        "same value under _VALIDATION_ENABLED, or with validation off, or through the own-ctype shortcut, or by delegation; no write "
        "precedes a validation call (atomicity); validate_many decides by universal quantification (max/min only after an all-int "
        "check, never over floats); disable_message_validation restores the flag on exceptional exit; the flag has a single writer; "
        "the integer bounds table agrees with 2**bits arithmetic. Not decided: read-back equality, float rounding, each numeric boundary."
    )
    chk.assumptions += ["ctypes rejects wrong-length slice assignment and wrong element types itself (trusted)",
                        "the descriptor protocol routes every attribute assignment on a message field through __set__"]
    m = prog.module(VAL)
    base = prog.cls(VAL, "FieldValidator")
    # the validation switch itself: a context variable (its own value per thread and per asyncio task, a default for contexts
    # that never set it).  A thread-local or a plain global gives other contexts a missing / shared value: validation is then
    # off (or on) where no disable block is active.
    T0 = chk.rule("C09-T", "the validation switch of pyrtma.validators is a contextvars.ContextVar", 1,
                  "thread-local or global state is not what `with disable_message_validation():` scopes: another thread / task sees validation off, or none at all")
    flag_def = m.assigns.get(FLAG)
    is_cv = isinstance(flag_def, ast.Call) and norm(flag_def.func).split(".")[-1] == "ContextVar"
    if not is_cv:
        others = [k_ for k_, v_ in m.assigns.items() if isinstance(v_, ast.Call) and norm(v_.func).split(".")[-1] == "ContextVar"]
        T0.bad(f"{VAL}|switch-is-contextvar", m.rel, f"pyrtma.validators has no ContextVar `{FLAG}`" + (f" (context variables present: {others})" if others else
               ": the switch consulted by the setters is not a context variable (" + ", ".join(sorted({norm(v_.func) for v_ in m.assigns.values() if isinstance(v_, ast.Call) and 'local' in norm(v_.func)}) or ["none found"]) + ")"))
        if not others:
            return  # every other rule is stated in terms of the context variable
    else:
        T0.ok(f"{VAL}|switch-is-contextvar", m.rel, f"{FLAG} = ContextVar(...)")

    # ---- E enumeration ------------------------------------------------------------------------------
    E = chk.rule("C09-E", "every concrete FieldValidator subclass has non-abstract __set__, validate_one, validate_many (+ __setitem__ for sequences)", 19,
                 "a validator kind without them assigns unvalidated values")
    concrete = []
    for ci in prog.subclasses(base):
        if ci.module is not m:
            continue
        abstract = any(any(norm(d).endswith("abstractmethod") for d in f.node.decorator_list) for f in ci.methods.values())
        if abstract:
            continue
        concrete.append(ci)
        need = ["__set__", "__get__", "validate_one", "validate_many"]
        if "Sequence" in prog.base_names(ci):
            need += ["__setitem__", "__getitem__", "validate_array"]
        missing = []
        for nm in need:
            fi = None
            for k in prog.mro(ci):
                cands = [f for q, f in k.module.functions.items() if f.cls is k and f.name == nm and not is_stub(f.node)]
                if cands:
                    fi = cands[-1]
                    break
            if fi is None:
                missing.append(nm)
        E.decide(not missing, f"{VAL}::{ci.name}|methods", f"{m.rel}:{ci.node.lineno}", "all required methods resolve to real bodies", f"{ci.name} lacks a non-abstract {missing}")

    # ---- V validate-before-write ----------------------------------------------------------------------
    V = chk.rule("C09-V", "each write effect in __set__/__setitem__ is preceded by validation of the same value (or validation is off / own-ctype / delegation); no write before a validation", 14,
                 "an unvalidated write stores an out-of-domain value; a write before a validation that then raises leaves a partial write")
    G = chk.rule("C09-G", "_VALIDATION_ENABLED is written only by disable_message_validation and read by every validating setter", 10,
                 "a second writer could leave validation off outside a disable block")
    setters = [f for f in m.functions.values() if f.cls is not None and f.name in ("__set__", "__setitem__") and not is_stub(f.node) and base in prog.mro(f.cls)]
    for f in setters:
        g = C.build(f.node)
        vparam = f.params()[-1]

        def is_validate(n, vparam=vparam, f=f):
            for c in node_calls(n):
                if isinstance(c.func, ast.Attribute) and c.func.attr in VALIDATE and c.args:
                    src = dataflow.source_closure(f.node, c.args[0])
                    if src <= {f"param:{vparam}"} or norm(c.args[0]) == vparam:
                        return True
            return False

        vnodes = [n for n in g.nodes if is_validate(n)]
        vids = {n.id for n in vnodes}
        gs_unval = flow.guard_states(g, edge_filter=lambda e: not (e.src in vids and e.kind != "exc"))
        writes = [(n, k, v) for n in g.nodes for (k, v) in write_effects(n)]
        if not writes:
            V.bad(fkey(f, "no-write-effect"), where(f), f"{f.qual} has no recognisable write effect (setattr / item store / delegation)")
            continue
        reads_flag = any(is_method_call(c, "get") and path_of(recv_of(c)) == FLAG for c in calls_in(f.node))
        delegates_only = all(k == "delegate" for _, k, _ in writes)
        if vnodes:
            G.decide(reads_flag, fkey(f, "reads-flag"), where(f), "validating setter consults the flag", f"{f.qual} validates without consulting {FLAG}")
        for n, kind, val in writes:
            # written value must be the parameter or derived from it only
            src = dataflow.source_closure(f.node, val)
            derived = all(s == f"param:{vparam}" or s.startswith("call:int.from_bytes") or s.startswith("call:getattr(") or s.startswith("expr:")
                          or s.startswith(f"{vparam}.") or s == "call:slice(None)" for s in src)
            mentions = vparam in {x.id for x in ast.walk(val) if isinstance(x, ast.Name)} or any(f"param:{vparam}" == s for s in src) or \
                any(vparam in s for s in src)
            if kind == "delegate":
                V.decide(mentions, fkey(f, f"{kind}:{norm(val)[:50]}"), where(f, n.ast), "delegates the same value to a validating setter",
                         f"{f.qual} delegates `{norm(val)}` instead of the assigned value")
                continue
            paths = gs_unval.at(n)
            goal = guards.parse(f"(not {FLAG}.get()) or isinstance({vparam}, self._ctype) or isinstance({vparam}, ctypes.c_char) or isinstance({vparam}, ArrayField) or isinstance({vparam}, StructArray)")
            bad = guards.any_path_implies(paths, goal)
            # isinstance(value, ArrayField) paths must run validate_array when enabled: those are validate nodes too, so they are
            # filtered out above; what remains unvalidated with an ArrayField value must have the flag off
            if not bad:
                for p in paths:
                    if guards.satisfiable(p) and (guards.implies(p, guards.parse(f"isinstance({vparam}, ArrayField)")) or guards.implies(p, guards.parse(f"isinstance({vparam}, StructArray)"))) \
                            and not guards.implies(p, guards.parse(f"not {FLAG}.get()")):
                        bad = [0]
            V.decide(not bad and mentions, fkey(f, f"{kind}:{norm(val)[:50]}"), where(f, n.ast),
                     "every unvalidated path to the write has validation off or an own-ctype value",
                     f"{f.qual}: write of `{norm(val)}` reachable with validation on and no validate_*({vparam}) before it" if bad else
                     f"{f.qual}: written value `{norm(val)}` is not derived from the assigned value")
        # atomicity: no write effect completes before a validation call
        wids = {n.id for n, k, _ in writes}
        after_w = flow.reach(g, [e.dst for w in wids for e in g.succ[w] if e.kind != "exc"])
        late = [n for n in vnodes if n.id in after_w]
        V.decide(not late, fkey(f, "no-write-before-validate"), where(f), "no validation call is reachable after a write effect",
                 f"{f.qual}: a validation call can run after a write effect (raise would leave a partial write): " + "; ".join(norm(n.ast)[:60] for n in late))
        # validations are dominated by the flag being on (so that 'off' really skips them) - and not the reverse
        for n in vnodes:
            ps = flow.guard_states(g).at(n)
            okf = not guards.any_path_implies(ps, guards.parse(f"{FLAG}.get()"))
            V.decide(okf, fkey(f, f"validate-under-flag:{norm(n.ast)[:40]}"), where(f, n.ast), "validation runs only when the flag is on", f"{f.qual}: validation not guarded by {FLAG}.get()")

    # flag writers
    nset = 0
    for mod in prog.modules.values():
        for f in mod.functions.values():
            # every mention of the flag's writers, called here or handed on uncalled (`stack.callback(FLAG.reset, token)`)
            for c in walk_local(f.node):
                if isinstance(c, ast.Attribute) and c.attr in ("set", "reset") and (path_of(c.value) or "").split(".")[-1] == FLAG:
                    nset += 1
                    G.decide(mod is m and f.qual == "disable_message_validation", fkey(f, c), where(f, c), "flag written by disable_message_validation",
                             f"{FLAG}.{c.attr} used in {f.key}")
    if nset < 2:
        raise AnalysisError("anchor vanished: _VALIDATION_ENABLED.set/reset")
    dflt = m.assigns.get(FLAG)
    G.decide(isinstance(dflt, ast.Call) and any(k.arg == "default" and isinstance(k.value, ast.Constant) and k.value.value is True for k in dflt.keywords),
             f"{VAL}|{FLAG}-default", m.rel, "validation is on by default", f"{FLAG} default is not True")

    # ---- C disable block restores on every exit ---------------------------------------------------------
    Cr = chk.rule("C09-C", "disable_message_validation restores the flag on normal AND exceptional exit of the block", 1,
                  "otherwise validation stays off after a block left through an exception")
    dm = prog.func(VAL, "disable_message_validation")
    dg = C.build(dm.node)
    sets = [n for n in dg.nodes for c in node_calls(n) if is_method_call(c, "set") and path_of(recv_of(c)) == FLAG]
    resets = [n for n in dg.nodes for c in node_calls(n) if is_method_call(c, "reset") and path_of(recv_of(c)) == FLAG]
    if not sets:
        raise AnalysisError("anchor vanished: flag set in disable_message_validation")
    yields = [n for n in dg.nodes if n.kind == "stmt" and isinstance(n.ast, ast.Expr) and isinstance(n.ast.value, ast.Yield)]
    after_set = flow.reach(dg, [n.id for n in sets])
    y_after = [n for n in yields if n.id in after_set]
    esc = flow.must_follow(dg, y_after, resets, exits=("exit", "raise"), from_exc_of_A=True)
    # second accepted idiom: `with ExitStack() as st:` ... `st.callback(FLAG.reset, token)` registered on every path from the set
    # to the yield, the yield inside that with block: the stack runs the callback however the block is left
    regs = []
    stacks = {}
    for w in walk_local(dm.node):
        if isinstance(w, ast.With):
            for it in w.items:
                if isinstance(it.context_expr, ast.Call) and (path_of(it.context_expr.func) or "").split(".")[-1] == "ExitStack" and isinstance(it.optional_vars, ast.Name):
                    stacks[it.optional_vars.id] = w
    for n in dg.nodes:
        for c in node_calls(n):
            if is_method_call(c, "callback") and path_of(recv_of(c)) in stacks and len(c.args) == 2 and isinstance(c.args[0], ast.Attribute) \
                    and c.args[0].attr == "reset" and path_of(c.args[0].value) == FLAG:
                regs.append((n, c, stacks[path_of(recv_of(c))]))
    if regs and esc:
        reg_ids = {n.id for n, _, _ in regs}
        unreg = flow.reach(dg, [e.dst for s_ in sets for e in dg.succ[s_.id] if e.kind != "exc"], blocked=reg_ids, blocked_pass_exc=False)
        inside = lambda y: any(y.ast in set(ast.walk(w)) for _, _, w in regs)
        if all(inside(y) and (y.id not in unreg or y.id in reg_ids) for y in y_after):
            esc = []
        resets = resets + [n for n, _, _ in regs]
    if esc and y_after and resets:
        # path-sensitive second look: a reset guarded by `token is not None` where token is None exactly on the paths that did
        # not set the flag.  Ghost marks record "the set ran" / "the reset ran"; a state that leaves the function after the
        # yield with the first mark and without the second is a missing restore.
        set_ids, reset_ids, y_ids = {n.id for n in sets}, {n.id for n in resets}, {n.id for n in y_after}

        def mk(e):
            if e.kind != "exc" and e.src in set_ids:
                return "_did_set"
            if e.kind != "exc" and e.src in reset_ids:
                return "_did_reset"
            if e.src in y_ids:
                return "_yielded"
            return None

        # one mark per edge: run the three separately and intersect by re-running with combined edge functions is not possible,
        # so the states are tracked with three passes keyed by mark name
        gsm = {}
        for name in ("_did_set", "_did_reset", "_yielded"):
            gsm[name] = None
        def cannot_raise(n_):
            a_ = n_.ast
            if n_.id in reset_ids:
                return True  # the reset failing is not a missing reset
            if isinstance(a_, ast.Assign) and len(a_.targets) == 1 and isinstance(a_.targets[0], ast.Name) and isinstance(a_.value, (ast.Name, ast.Constant)):
                return True
            if n_.kind == "test" and isinstance(a_, ast.Compare) and len(a_.ops) == 1 and isinstance(a_.ops[0], (ast.Is, ast.IsNot)) and isinstance(a_.left, ast.Name) and isinstance(a_.comparators[0], ast.Constant):
                return True
            return False

        gs_all = flow.guard_states(dg, marks=mk, nonnull_calls=(f"{FLAG}.set",), edge_filter=lambda e: not (e.kind == "exc" and cannot_raise(dg.nodes[e.src])))
        missing = []
        for ex in (dg.exit, dg.raise_exit):
            for p_ in gs_all.at(ex):
                names = {getattr(x_, "id", None) for x_, _ in p_}
                if "_did_set" in names and "_yielded" in names and "_did_reset" not in names:
                    missing.append(p_)
        if not missing:
            esc = []
    Cr.decide(bool(y_after) and not esc, fkey(dm, "restore-on-every-exit"), where(dm), "reset(token) follows the yield on the normal and the exceptional continuation",
              "the flag is not restored when the with-body raises: `yield` can be left to " + ", ".join(sorted({x.kind for _, x in esc})) + " without _VALIDATION_ENABLED.reset(token)")
    # reset uses the token of the matching set
    dcm = guards.copy_map(dm.node)  # `token = saved` between the set and the reset is looked through
    tok_ok = all(isinstance(n.ast, ast.Assign) and isinstance(n.ast.targets[0], ast.Name) for n in sets) and \
        all(any((is_method_call(c, "reset") and c.args and path_of(guards.subst(c.args[0], dcm)) == sets[0].ast.targets[0].id) or
                (is_method_call(c, "callback") and len(c.args) == 2 and path_of(c.args[1]) == sets[0].ast.targets[0].id) for c in node_calls(r)) for r in resets) if sets and resets else False
    Cr.decide(tok_ok, fkey(dm, "reset-own-token"), where(dm), "reset uses the token returned by the matching set (nesting safe)", "reset does not use the token of the matching set")

    # ---- Q every element is examined ---------------------------------------------------------------------
    Q = chk.rule("C09-Q", "validate_many decides by universal quantification; max/min only after an all-int check", 5,
                 "an order statistic over floats is position dependent next to NaN: a violating element can hide")
    for f in m.functions.values():
        if f.cls is None or f.name != "validate_many" or is_stub(f.node) or base not in prog.mro(f.cls):
            continue
        p = f.params()[-1]
        g = C.build(f.node)
        stats = [(n, c) for n in g.nodes for c in node_calls(n) if isinstance(c.func, ast.Name) and c.func.id in ("max", "min") and c.args and path_of(c.args[0]) == p]

        def all_int_check(n, p=p):
            if n.kind != "test":
                return False
            for c in calls_in(n.ast):
                if isinstance(c.func, ast.Name) and c.func.id in ("any", "all") and c.args and isinstance(c.args[0], ast.GeneratorExp):
                    ge = c.args[0]
                    if len(ge.generators) == 1 and path_of(ge.generators[0].iter) == p and not ge.generators[0].ifs:
                        t = norm(ge.elt)
                        v = norm(ge.generators[0].target)
                        if c.func.id == "any" and t == f"not isinstance({v}, int)":
                            return True
                        if c.func.id == "all" and t == f"isinstance({v}, int)":
                            return True
            return False

        universal = False
        for n in walk_local(f.node):
            if isinstance(n, ast.Call) and isinstance(n.func, ast.Name) and n.func.id in ("any", "all") and n.args and isinstance(n.args[0], (ast.GeneratorExp, ast.ListComp)):
                ge = n.args[0]
                if len(ge.generators) == 1 and path_of(ge.generators[0].iter) == p and not ge.generators[0].ifs:
                    universal = True
            if isinstance(n, ast.For) and path_of(n.iter) == p:
                universal = True
            if isinstance(n, ast.Call) and isinstance(n.func, ast.Attribute) and n.func.attr == "validate_many" and n.args and path_of(n.args[0]) == p:
                universal = True
            if isinstance(n, ast.Raise) and n.exc is not None and "NotImplementedError" in norm(n.exc):
                universal = True
        # no way around the element-wise decision: every normal exit passed a universally quantified test over the whole
        # argument (or a delegation / the frozen bytes exemption: a bytes object can only hold 0..255)
        def quantified(n, p=p):
            a_ = n.ast
            if a_ is None or n.kind not in ("test", "stmt", "for"):
                return False
            if n.kind == "for":
                return path_of(a_.iter) == p
            for c in calls_in(a_):
                if isinstance(c.func, ast.Name) and c.func.id in ("any", "all") and c.args and isinstance(c.args[0], (ast.GeneratorExp, ast.ListComp)):
                    ge = c.args[0]
                    if len(ge.generators) == 1 and path_of(ge.generators[0].iter) == p and not ge.generators[0].ifs:
                        return True
                if isinstance(c.func, ast.Attribute) and c.func.attr == "validate_many" and c.args and path_of(c.args[0]) == p:
                    return True
            return isinstance(a_, ast.Raise)
        qn = [n for n in g.nodes if quantified(n)]
        if qn:
            qids = {n.id for n in qn}
            gsq = flow.guard_states(g, edge_filter=lambda e: not (e.src in qids and e.kind != "exc"))
            skipping = []
            for e in g.pred[g.exit.id]:
                if e.kind in ("exc", "except") or e.src in qids:
                    continue
                for pth in gsq.after_edge(e):
                    if guards.satisfiable(pth) and not guards.implies(pth, guards.parse(f"isinstance({p}, (bytes, bytearray))")):
                        skipping.append(pth)
            Q.decide(not skipping, fkey(f, "no-way-around-the-scan"), where(f), "every normal exit passed the element-wise test (bytes objects excepted)",
                     f"{f.qual} can return normally without examining the elements (a fast path skips the scan); guards on that path: "
                     + (", ".join(("" if pol else "not ") + norm(x) for x, pol in skipping[0]) if skipping else ""))
        if stats:
            checks = [n for n in g.nodes if all_int_check(n)]
            # the check must raise on its true branch and dominate every order statistic
            raising = [n for n in checks if any(e.kind == "true" and g.exit.id not in flow.reach(g, [e.dst], follow=lambda x: x.kind != "exc") for e in g.succ[n.id])]
            undominated = flow.must_precede(g, raising, [n for n, _ in stats])
            # the same check written as a loop: `for v in value: if not isinstance(v, int): raise TypeError` - the order
            # statistic is then reachable only across the exhaustion of that loop
            if undominated or not raising:
                for lpn in [n for n in g.nodes if n.kind == "for" and path_of(n.ast.iter) == p and isinstance(n.ast.target, ast.Name) and not n.ast.orelse]:
                    v_ = n_v = lpn.ast.target.id
                    body = lpn.ast.body
                    okb = len(body) == 1 and isinstance(body[0], ast.If) and norm(body[0].test) == f"not isinstance({v_}, int)" and not body[0].orelse \
                        and isinstance(body[0].body[-1], ast.Raise) and not any(isinstance(x, (ast.Break, ast.Continue, ast.Return)) for x in walk_local(lpn.ast))
                    if okb:
                        r_ = flow.reach(g, [g.entry.id], follow=lambda e, lid=lpn.id: not (e.src == lid and e.kind == "done"))
                        if all(n.id not in r_ for n, _ in stats):
                            undominated, raising = [], [lpn]
            Q.decide(not undominated and bool(raising), fkey(f, "order-statistic"), where(f, stats[0][1]),
                     "max/min used only after every element was checked to be an int (total order)",
                     f"{f.qual}: `{norm(stats[0][1])}` decides by an order statistic without a dominating all-int check (floats/NaN make max/min position dependent)")
        else:
            Q.decide(universal, fkey(f, "universal"), where(f), "decides element-wise / by delegation", f"{f.qual} examines no element of `{p}`")

    # ---- B bound object and private name come from the same descriptor -----------------------------------------------------
    B = chk.rule("C09-B", "getattr/setattr on a message through `<d>._bound_obj` or in `<d>`'s own methods names the attribute by the same descriptor's `_private_name`", 4,
                 "reading the source array of `m.b = m.a` under the *destination's* private name copies b onto itself: the value read back is not the value assigned")
    nb = 0
    for f in m.functions.values():
        for c in calls_in(f.node):
            if not (isinstance(c.func, ast.Name) and c.func.id in ("getattr", "setattr") and len(c.args) >= 2):
                continue
            o, a = c.args[0], c.args[1]
            if not (isinstance(a, ast.Attribute) and a.attr == "_private_name"):
                continue
            if isinstance(o, ast.Attribute) and o.attr == "_bound_obj":
                nb += 1
                B.decide(norm(o.value) == norm(a.value), fkey(f, c), where(f, c), f"`{norm(o)}` read/written under `{norm(a)}` of the same descriptor",
                         f"{f.qual}: `{norm(c)[:80]}` accesses the object bound to `{norm(o.value)}` under the private name of `{norm(a.value)}` (another field)")
    if nb < 4:
        raise AnalysisError(f"anchor vanished: expected >= 4 accesses through <descriptor>._bound_obj in validators.py, found {nb}")

    # ---- D domain predicate at every normal exit of validate_one ------------------------------------------------
    D = chk.rule("C09-D", "every normal exit of validate_one implies the field's domain predicate (own ctype, or right Python type within range / length / ASCII)", 6,
                 "a value that passes validate_one outside the domain is stored (wrapped by ctypes) instead of refused")
    DOMAIN = {
        "IntValidatorBase": "isinstance({v}, self._ctype) or (isinstance({v}, int) and not (int({v}) < self._min) and not (int({v}) > self._max))",
        "Byte": "isinstance({v}, self._ctype) or (isinstance({v}, int) and not ({v} < self._min) and not ({v} > self._max)) or (isinstance({v}, (bytes, bytearray)) and len({v}) == 1)",
        "FloatValidatorBase": "isinstance({v}, self._ctype) or (isinstance({v}, (float, int)) and not math.isinf(self._ctype({v}).value))",
        "String": "isinstance({v}, str) and not (len({v}) > self.len - 1) and {v}.isascii()",
        "Char": "isinstance({v}, self._ctype) or (isinstance({v}, str) and not (len({v}) > self.len) and {v}.isascii())",
        "Struct": "isinstance({v}, self._ctype)",
    }
    for cname, tmpl in DOMAIN.items():
        ci = m.classes.get(cname)
        fi = ci.methods.get("validate_one") if ci is not None else None
        if fi is None or is_stub(fi.node):
            raise AnalysisError(f"anchor vanished: {cname}.validate_one")
        v = fi.params()[-1]
        g = C.build(fi.node)
        gs = flow.guard_states(g)
        goal = guards.parse(tmpl.format(v=v))
        paths = []
        vcm = guards.copy_map(fi.node, pure_calls=("int", "float", "len"))  # `int_value = int(value)` is looked through
        # a class whose __init__ fixes self._ctype to one ctypes class may name that class directly in its isinstance test
        own_ct = None
        init_ = ci.methods.get("__init__")
        if init_ is not None:
            cts = [norm(n_.value) for n_ in walk_local(init_.node) if isinstance(n_, (ast.Assign, ast.AnnAssign)) and n_.value is not None
                   and norm(n_.targets[0] if isinstance(n_, ast.Assign) else n_.target) == "self._ctype"]
            if len(cts) == 1 and cts[0].startswith("ctypes."):
                own_ct = cts[0]

        def by_ctype(x_):
            if own_ct is None:
                return x_

            class T(ast.NodeTransformer):
                def visit_Call(self, c_):
                    self.generic_visit(c_)
                    if isinstance(c_.func, ast.Name) and c_.func.id == "isinstance" and len(c_.args) == 2 and norm(c_.args[1]) == own_ct:
                        return ast.copy_location(ast.Call(func=c_.func, args=[c_.args[0], ast.parse("self._ctype", mode="eval").body], keywords=[]), c_)
                    return c_

            import copy as _copy
            return T().visit(_copy.deepcopy(x_))

        for e in g.pred[g.exit.id]:
            if e.kind in ("exc", "except"):
                continue
            paths += [[(by_ctype(guards.subst(x_, vcm)), pol_) for x_, pol_ in p_] for p_ in gs.after_edge(e)]
        # chained comparisons `a <= x <= b` are split by the guard logic; int(x) vs x are different operands on purpose
        with guards.int_theory():
            bad = guards.any_path_implies(paths, goal)
        D.decide(not bad and bool(paths), fkey(fi, "domain-at-exit"), where(fi), "every way of returning normally establishes the domain predicate",
                 f"{cname}.validate_one can return normally for a value outside the domain; facts on that path: "
                 + (", ".join(("" if pol else "not ") + norm(x) for x, pol in paths[bad[0]]) if bad else "no normal exit"))

    # ---- I a struct-array element is validated as an element ----------------------------------------------------------------
    # ctypes builds a Structure from a tuple of initialisers, so `arr[i] = ()` stores an all-zero element unless the element
    # validator (isinstance of the struct class) sees the value.  The setter must therefore choose the validator by the KEY: an
    # index -> validate_one, a slice -> validate_many.  Choosing by the shape of the value sends `()` to validate_many, which an
    # empty sequence passes vacuously (for int / float / byte arrays ctypes itself refuses a sequence as an element, so only
    # the struct array is affected).
    Ix = chk.rule("C09-I", "StructArray.__setitem__ validates an indexed element with the element validator (validate_many only for a slice key)", 1,
                  "an empty tuple assigned to one element passes the sequence validator vacuously and ctypes stores a zeroed struct: a wrong-type value is accepted")
    sa_ci = m.classes.get("StructArray")
    sa_set = sa_ci.methods.get("__setitem__") if sa_ci is not None else None
    if sa_set is None:
        raise AnalysisError("anchor vanished: StructArray.__setitem__")
    kparam, vparam_ = [p_ for p_ in sa_set.params() if p_ != "self"][:2]
    ge_ = C.build(sa_set.node)
    gse_ = flow.guard_states(ge_)
    many_nodes = [n_ for n_ in ge_.nodes for c_ in node_calls(n_) if is_method_call(c_, "validate_many") and c_.args and path_of(c_.args[0]) == vparam_]
    one_nodes = [n_ for n_ in ge_.nodes for c_ in node_calls(n_) if is_method_call(c_, "validate_one") and c_.args and path_of(c_.args[0]) == vparam_]
    if not many_nodes and not one_nodes:
        raise AnalysisError("anchor vanished: validator calls in StructArray.__setitem__")
    by_value = [n_ for n_ in many_nodes if guards.any_path_implies(gse_.at(n_), guards.parse(f"isinstance({kparam}, slice)"))]
    Ix.decide(not by_value and bool(one_nodes), fkey(sa_set, "element-key-validated-as-element"), where(sa_set),
              "validate_many runs only for a slice key; an index goes through validate_one",
              f"StructArray.__setitem__ can send the value of an indexed assignment (`arr[i] = v`) to validate_many: chosen by the shape of the value, not by the key - "
              f"`arr[i] = ()` passes vacuously and ctypes stores a zeroed struct (findings/c09_struct_element_tuple.py)")

    # ---- L a sequence is folded into one scalar only when it has exactly one element ---------------------------------
    # `int.from_bytes(value, ...)`, `value[0]`: ctypes would refuse a wrong-length sequence, the folded int it masks silently.
    L = chk.rule("C09-L", "a setter folds the assigned sequence into a scalar (int.from_bytes / [0]) only where its length is known to be 1", 2,
                 "bytes of any other length would be accepted and wrapped into the field instead of refused as a wrong-length sequence")
    len1_classes = {c for c, t in DOMAIN.items() if "len({v}) == 1" in t}

    def validate_one_owner(ci):
        for k in prog.mro(ci):
            fi_ = k.methods.get("validate_one")
            if fi_ is not None and not is_stub(fi_.node):
                return k.name
        return None

    nfold = 0
    for f in setters:
        g = C.build(f.node)
        vparam = f.params()[-1]
        gs = None
        for n in g.nodes:
            if n.ast is None:
                continue
            folds = []
            for x in ast.walk(n.ast) if n.kind in ("stmt", "test", "return") else []:
                if isinstance(x, ast.Call) and norm(x.func) == "int.from_bytes" and x.args and path_of(x.args[0]) == vparam:
                    folds.append((x, "int.from_bytes"))
                elif isinstance(x, ast.Subscript) and isinstance(x.ctx, ast.Load) and path_of(x.value) == vparam and isinstance(x.slice, ast.Constant) and x.slice.value in (0, -1):
                    folds.append((x, f"[{x.slice.value}]"))
            for x, how in folds:
                nfold += 1
                if gs is None:
                    gs = flow.guard_states(g)
                paths = gs.at_expr(n, x)
                goal = guards.parse(f"len({vparam}) == 1")
                bad = guards.any_path_implies(paths, goal)
                ok = not bad
                if bad and validate_one_owner(f.cls) in len1_classes:
                    # validate_one of this class establishes len == 1 for bytes (C09-D): enough when it has completed on every path here
                    v1 = [vn for vn in g.nodes for c in node_calls(vn) if is_method_call(c, "validate_one") and path_of(recv_of(c)) == "self" and c.args and path_of(c.args[0]) == vparam]
                    ok = bool(v1) and not flow.must_precede(g, v1, [n])
                L.decide(ok, fkey(f, f"fold:{how}"), where(f, x), f"`{norm(x)}` evaluated only with len({vparam}) == 1 established",
                         f"{f.qual}: `{norm(x)}` folds the assigned sequence into one scalar on a path where its length is not known to be 1 "
                         f"(bytes of another length are accepted and wrapped instead of refused)")
    if nfold < 2:
        raise AnalysisError(f"anchor vanished: sequence-to-scalar folds in the byte setters (found {nfold})")

    # ---- W bounds table ------------------------------------------------------------------------------------
    W = chk.rule("C09-W", "_min/_max of every integer validator equal the 2**bits bounds of its _size/_unsigned and its ctypes type", 9,
                 "a wrong bound accepts a value the C type wraps, or refuses a representable one")
    nW = 0
    for ci in m.classes.values():
        cc = ci.class_consts
        if not {"_size", "_unsigned", "_min", "_max"} <= set(cc) or ci.name.endswith("Base"):
            continue
        try:
            size, uns = prog.eval_const(m, cc["_size"]), prog.eval_const(m, cc["_unsigned"])
            mn, mx = prog.eval_const(m, cc["_min"]), prog.eval_const(m, cc["_max"])
        except AnalysisError:
            W.bad(f"{VAL}::{ci.name}|bounds", f"{m.rel}:{ci.node.lineno}", "bounds are not constant expressions")
            continue
        bits = 8 * size
        exp = (0, 2**bits - 1) if uns else (-(2 ** (bits - 1)), 2 ** (bits - 1) - 1)
        init = ci.methods.get("__init__")
        ctn = None
        if init is not None:
            for n in walk_local(init.node):
                if isinstance(n, (ast.Assign, ast.AnnAssign)) and norm(n.targets[0] if isinstance(n, ast.Assign) else n.target) == "self._ctype":
                    ctn = norm(n.value)
        exp_ct = {f"ctypes.c_{'u' if uns else ''}int{bits}"} | ({"ctypes.c_ubyte"} if (uns and bits == 8) else set()) | ({"ctypes.c_byte"} if (not uns and bits == 8) else set())
        nW += 1
        W.decide((mn, mx) == exp and ctn in exp_ct, f"{VAL}::{ci.name}|bounds", f"{m.rel}:{ci.node.lineno}", f"[{mn}, {mx}] with {ctn}",
                 f"{ci.name}: bounds [{mn}, {mx}] / ctype {ctn} disagree with size={size} unsigned={uns} (expected [{exp[0]}, {exp[1]}], {sorted(exp_ct)})")
    chk.units.update({"concrete_validators": [c.name for c in concrete], "setter_bodies": len(setters), "int_bound_classes": nW})
