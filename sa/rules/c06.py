"""C06 - module identity: unique ids, sound dynamic ids, options honoured (DESIGN §2 C06)."""
from __future__ import annotations

import ast

from .. import callgraph, cfg as C, flow, guards
from ..program import AnalysisError, Program, norm, walk_local, ancestors
from ..report import Check
from ..types import Types
from ..util import calls_in, fkey, is_method_call, node_calls, path_of, recv_of, where
from .mgr import MGR, CORE, const_resolver, self_call
from .c19 import module_param

CLI = "pyrtma.client"
OPTION_NAMES = {"logger_status", "daemon_status", "allow_multiple", "name", "module_id", "host_id", "timecode", "server_name"}


def field_stores(f, var):
    """{field: [value expr]} for `var.field = value` in f."""
    out = {}
    for n in walk_local(f.node):
        if isinstance(n, ast.Assign):
            for t in n.targets:
                if isinstance(t, ast.Attribute) and path_of(t.value) == var:
                    out.setdefault(t.attr, []).append(n.value)
    return out


def mirror_map(f):
    """{local: `self.attr` expression} for a local assigned exactly once whose very next statement stores it into an attribute of
    self (`requested_id = ...; self._module_id = requested_id`): from there on the local is a name for that attribute's value
    (until the attribute is stored again - callers use it for facts established before the next store)."""
    out = {}
    vals = {}
    counts = {}
    for n in walk_local(f.node):
        if isinstance(n, ast.Assign) and len(n.targets) == 1 and isinstance(n.targets[0], ast.Name):
            counts[n.targets[0].id] = counts.get(n.targets[0].id, 0) + 1
            vals[n.targets[0].id] = n.value
        elif isinstance(n, (ast.AugAssign, ast.AnnAssign, ast.For, ast.NamedExpr)):
            t = n.target
            for x in ast.walk(t):
                if isinstance(x, ast.Name):
                    counts[x.id] = counts.get(x.id, 0) + 2
    for blk in [b for n in ast.walk(f.node) for fld in ("body", "orelse", "finalbody") for b in [getattr(n, fld, None)] if isinstance(b, list)]:
        for a, b in zip(blk, blk[1:]):
            if isinstance(a, ast.Assign) and len(a.targets) == 1 and isinstance(a.targets[0], ast.Name) and counts.get(a.targets[0].id) == 1 \
                    and isinstance(b, ast.Assign) and len(b.targets) == 1 and isinstance(b.targets[0], ast.Attribute) and path_of(b.targets[0].value) == "self" \
                    and isinstance(b.value, ast.Name) and b.value.id == a.targets[0].id:
                out[a.targets[0].id] = (guards.parse(f"self.{b.targets[0].attr}"), a.value, b)
    return out


def names_in(e):
    return {path_of(x) for x in ast.walk(e) if isinstance(x, (ast.Name, ast.Attribute)) and path_of(x)} - {"int", "bool", "os", "os.getpid"}


def run(prog: Program, chk: Check):
    ty = Types(prog)
    cg = callgraph.get(prog)
    chk.explanation = (
        "C06 decided as: positional-argument binding of the connect options at every resolved call site (swap detector); def-use "
        "flow of each option into the same-named CONNECT/CONNECT_V2 field and from the payload into the Module attributes; the "
        "admission guards of connect_module (range test, completed uniqueness loop with both `unique` refusals and the name test, "
        "dynamic ids drawn from assign_module_id whose returns are dominated by `not in current_ids` over all modules, candidate "
        "interval); adoption of the acknowledged id by the client. Not decided: wrap-around of the dynamic cursor over long histories."
    )
    # ---- A argument binding ------------------------------------------------------------------------------------
    A = chk.rule("C06-A", "no positional actual named like a *different* option parameter of the callee (swap detector)", 4,
                 "`f(server_name, logger_status, allow_multiple)` silently turns allow_multiple into daemon_status")
    funcs = list(prog.all_functions(include_extra=True))
    for f in funcs:
        in_pkg = f.module.name.startswith("pyrtma")
        for c, st, fi, desc in cg.calls.get(f.key, []) if in_pkg else _resolve_extra(prog, ty, f):
            if fi is None or not isinstance(c, ast.Call):
                continue
            params = fi.params()
            if params and params[0] in ("self", "cls") and (isinstance(c.func, ast.Attribute) or fi.name == "__init__"):
                params = params[1:]
            if len(OPTION_NAMES & set(params)) < 2:
                continue
            swapped = []
            for i, a in enumerate(c.args):
                if isinstance(a, ast.Starred):
                    break
                if i < len(params) and isinstance(a, ast.Name) and a.id in params and a.id != params[i] and a.id in OPTION_NAMES:
                    swapped.append(f"`{a.id}` binds to parameter `{params[i]}`")
            A.decide(not swapped, fkey(f, c), where(f, c), f"arguments of {fi.qual} bind to the parameters they are named after",
                     f"call {norm(c)}: " + "; ".join(swapped) + f" of {fi.qual}({', '.join(params)})")

    # ---- F option flow, client side ------------------------------------------------------------------------------
    F = chk.rule("C06-F", "each connect option reaches the same-named field of MDF_CONNECT_V2 / MDF_CONNECT in _connect_helper", 7,
                 "an option that does not reach the wire cannot take effect at the manager")
    ch = prog.func(CLI, "Client._connect_helper")
    env = ty.locals_of(ch)
    v2 = [k for k, t in env.items() if t.kind == "cls" and t.cls.name == "MDF_CONNECT_V2"]
    v1 = [k for k, t in env.items() if t.kind == "cls" and t.cls.name == "MDF_CONNECT"]
    if len(v2) != 1 or len(v1) != 1:
        raise AnalysisError("anchor vanished: MDF_CONNECT_V2 / MDF_CONNECT locals in _connect_helper")
    want_v2 = {"logger_status": {"logger_status"}, "daemon_status": {"daemon_status"}, "allow_multiple": {"allow_multiple"},
               "mod_id": {"self.module_id", "self._module_id"}, "name": {"self.name", "self._name"}}
    mirrors = mirror_map(ch)
    msub = {k: v[0] for k, v in mirrors.items()}
    for var, want in ((v2[0], want_v2), (v1[0], {k: want_v2[k] for k in ("logger_status", "daemon_status")})):
        st = field_stores(ch, var)
        for fld, srcs in want.items():
            vals = [guards.subst(v_, msub) for v_ in st.get(fld, [])]
            # a field copied from the other frame's same field (`connect_v1.x = connect_v2.x`) takes that field's source
            if len(vals) == 1 and isinstance(vals[0], ast.Attribute) and path_of(vals[0].value) in (v2[0], v1[0]) and path_of(vals[0].value) != var:
                other = field_stores(ch, path_of(vals[0].value)).get(vals[0].attr, [])
                if len(other) == 1:
                    vals = other
            good = len(vals) == 1 and any(s in names_in(vals[0]) for s in srcs) and not (names_in(vals[0]) & (OPTION_NAMES - srcs))
            # value transformation limited to int()/bool()
            if good:
                v = vals[0]
                good = isinstance(v, (ast.Name, ast.Attribute)) or (isinstance(v, ast.Call) and isinstance(v.func, ast.Name) and v.func.id in ("int", "bool") and len(v.args) == 1 and isinstance(v.args[0], (ast.Name, ast.Attribute)))
            F.decide(good, fkey(ch, f"{env[var].cls.name}.{fld}"), where(ch), f"{fld} <- {sorted(srcs)[0]}",
                     f"{env[var].cls.name}.{fld} is set from {[norm(v) for v in vals] or 'nothing'}, expected from {sorted(srcs)}")
    # both frames are sent
    for var in (v2[0], v1[0]):
        sent = [c for c in calls_in(ch.node) if self_call("send_message")(c) and c.args and path_of(c.args[0]) == var]
        F.decide(len(sent) == 1, fkey(ch, f"sent:{env[var].cls.name}"), where(ch), "frame is sent once", f"{env[var].cls.name} is sent {len(sent)} times")
    # connect() hands its options to the helper
    cn = prog.func(CLI, "Client.connect")
    hc = [c for c in calls_in(cn.node) if self_call("_connect_helper")(c)]
    okc = len(hc) == 1
    if okc:
        b = callgraph.bind_args(ch, hc[0], bound_method=True)
        okc = all(path_of(b.get(p)) == p for p in ("logger_status", "daemon_status", "allow_multiple"))
    F.decide(okc, fkey(cn, "passes-options"), where(cn), "connect() passes logger_status, daemon_status, allow_multiple to the helper unchanged",
             "Client.connect does not pass its three options to _connect_helper under the same names")
    cc = prog.func(CLI, "client_context")
    ccalls = [c for c in calls_in(cc.node) if is_method_call(c, "connect")]
    okx = len(ccalls) == 1
    if okx:
        b = callgraph.bind_args(cn, ccalls[0], bound_method=True)
        okx = all(p not in cc.params() or path_of(b.get(p)) == p for p in ("server_name", "logger_status", "allow_multiple", "daemon_status"))
    F.decide(okx, fkey(cc, "forwards-options"), where(cc), "client_context forwards each of its connect options under its own name",
             "client_context does not forward server_name / logger_status / allow_multiple to connect() as named")
    kc = [c for c in calls_in(cc.node) if isinstance(c.func, ast.Name) and c.func.id == "Client"]
    okk = len(kc) == 1
    if okk:
        init = prog.func(CLI, "Client.__init__")
        b = callgraph.bind_args(init, kc[0], bound_method=True)
        okk = all(path_of(b.get(p)) == p for p in ("module_id", "host_id", "timecode", "name"))
    F.decide(okk, fkey(cc, "constructs-client"), where(cc), "client_context passes module_id, host_id, timecode, name to Client()",
             "client_context does not pass module_id / host_id / timecode / name to Client() as named")

    # ---- M option flow, manager side --------------------------------------------------------------------------------
    Mr = chk.rule("C06-M", "connect_module copies each payload field into the corresponding Module attribute", 7,
                  "a mis-copied field makes the manager honour a different option than the caller named")
    cm = prog.func(MGR, "MessageManager.connect_module")
    mp = module_param(prog, ty, cm)
    msgp = next((p for p in cm.params() if p not in ("self", mp)), None)
    st = field_stores(cm, mp)
    want_m = {"mod_id": {f"{msgp}.data.mod_id", f"{msgp}.header.src_mod_id", "self.assign_module_id()"},
              "unique": {f"{msgp}.data.allow_multiple == 0", f"not {msgp}.data.allow_multiple"},
              "pid": {f"{msgp}.data.pid"}, "name": {f"{msgp}.data.name"},
              "is_logger": {f"{msgp}.data.logger_status == 1", f"bool({msgp}.data.logger_status)"},
              "is_daemon": {f"{msgp}.data.daemon_status == 1", f"bool({msgp}.data.daemon_status)"},
              "connected": {"True"}}
    for fld, okvals in want_m.items():
        vals = [norm(v) for v in st.get(fld, [])]
        Mr.decide(bool(vals) and all(v in okvals for v in vals), fkey(cm, f"module.{fld}"), where(cm), f"module.{fld} <- {vals}",
                  f"module.{fld} is set from {vals or 'nothing'}, expected one of {sorted(okvals)}")
    # what else connect_module may not touch: the fields that identify the connection itself.  Other attributes (delivery
    # statistics, anything new) are not identity or options and belong to other properties (C05 / C14)
    extra = set(st) & {"uid", "conn", "address", "header_cls", "subs"}
    Mr.decide(not extra, fkey(cm, "no-other-field"), where(cm), "the connection's own identity (uid, conn, address, header_cls, subs) is not rewritten", f"connect_module rewrites the connection's own {sorted(extra)}")
    g = C.build(cm.node)
    gs = flow.guard_states(g)
    adds = [n for n in g.nodes for c in node_calls(n) if is_method_call(c, "add") and path_of(recv_of(c)) == "self.logger_modules"]
    okl = len(adds) == 1 and not guards.any_path_implies(gs.at(adds[0]), guards.parse(f"{mp}.is_logger"))
    Mr.decide(okl, fkey(cm, "logger-registration"), where(cm), "logger_modules.add(module) is guarded by module.is_logger", "registration in logger_modules is not guarded by module.is_logger")
    # v2 fields only under the isinstance(MDF_CONNECT_V2) branch
    for n in g.nodes:
        if n.kind == "stmt" and isinstance(n.ast, ast.Assign) and any(isinstance(t, ast.Attribute) and path_of(t.value) == mp and t.attr in ("unique", "pid", "name") for t in n.ast.targets):
            okb = not guards.any_path_implies(gs.at(n), guards.parse(f"isinstance({msgp}.data, cd.MDF_CONNECT_V2)"))
            Mr.decide(okb, fkey(cm, n.ast), where(cm, n.ast), "V2-only field read under the V2 payload test", "V2-only payload field read without the MDF_CONNECT_V2 type test")

    # ---- G admission guards ---------------------------------------------------------------------------------------------
    G = chk.rule("C06-G", "connected=True only after the range test and the completed uniqueness loop, or with an id from assign_module_id", 6,
                 "without them two unique modules can share an id, or an out-of-range id is admitted")
    res = const_resolver(prog, cm.module)
    consts = prog.module_constants(CORE)
    dyn = [n for n in g.nodes if n.kind == "stmt" and isinstance(n.ast, ast.Assign) and any(path_of(t) == f"{mp}.mod_id" for t in n.ast.targets)
           and any(self_call("assign_module_id")(c) for c in node_calls(n))]
    conn = [n for n in g.nodes if n.kind == "stmt" and isinstance(n.ast, ast.Assign) and any(path_of(t) == f"{mp}.connected" for t in n.ast.targets)]
    if len(dyn) != 1 or len(conn) != 1:
        raise AnalysisError("anchor vanished: dynamic id assignment / connected=True in connect_module")
    dyn_ids = {dyn[0].id}
    gsd = flow.guard_states(g, edge_filter=lambda e: not (e.src in dyn_ids and e.kind != "exc"))
    ccm = guards.copy_map(cm.node)
    fold = lambda ps: [[(guards.fold_consts(guards.subst(e, ccm), res), pol) for e, pol in p] for p in ps]
    dstart = consts["DYN_MOD_ID_START"]
    rng = guards.parse(f"not ({mp}.mod_id < 1) and not ({mp}.mod_id > {dstart})")
    with guards.int_theory():
        rng_ok = not guards.any_path_implies(fold(gsd.at(conn[0])), rng)
    G.decide(rng_ok, fkey(cm, "static-id-in-range"), where(cm, conn[0].ast),
             f"static ids are admitted only within 1..{dstart}", "a static module id outside the user-assignable range can be admitted")
    dyn_guard = guards.parse(f"{mp}.mod_id == 0")
    G.decide(not guards.any_path_implies(fold(gs.at(dyn[0])), dyn_guard), fkey(cm, "dynamic-iff-zero"), where(cm, dyn[0].ast),
             "dynamic assignment only for requested id 0", "assign_module_id() overrides a non-zero requested id")
    G.decide(not guards.any_path_implies(fold(gsd.at(conn[0])), guards.parse(f"{mp}.mod_id != 0")), fkey(cm, "zero-gets-dynamic"), where(cm, conn[0].ast),
             "id 0 is never admitted as is", "a module can be connected with id 0 without dynamic assignment")
    # the loop over every table entry: directly over self.modules.values() (or a copy), or over a local built from it by
    # a comprehension that leaves out nothing but the connecting module itself
    from ..dataflow import source_closure
    from .mgr import comprehension_facts

    def whole_table(lpn):
        if not isinstance(lpn.ast.target, ast.Name) or source_closure(cm.node, lpn.ast.iter) != {"self.modules"}:
            return False
        extra_ = comprehension_facts(cm.node, lpn.ast.target.id)
        return all(norm(e_) in (f"{lpn.ast.target.id} is not {mp}", f"{lpn.ast.target.id} != {mp}") for e_, _ in extra_)

    loops = [n for n in g.nodes if n.kind == "for" and whole_table(n)]
    if not loops:
        raise AnalysisError("anchor vanished: uniqueness loop over self.modules.values() in connect_module")
    follow_static = lambda e: not (e.src in dyn_ids and e.kind != "exc")

    def nearest_loop(a):
        for p_ in ancestors(a):
            if isinstance(p_, (ast.For, ast.While)):
                return p_
        return None

    def loop_completed(lp) -> bool:
        # static path must complete the loop: connected reachable only via the loop's 'done' edge
        r = flow.reach(g, [g.entry.id], follow=lambda e: follow_static(e) and not (e.src == lp.id and e.kind == "done"))
        completed = conn[0].id not in r
        if not completed:
            # the loop may be left by `break` with a flag that the code after it turns into a refusal: follow the paths that
            # took a break out of this loop (ghost mark) and see whether any of them still reaches connected=True
            brk = {n.id for n in g.nodes if isinstance(n.ast, ast.Break) and nearest_loop(n.ast) is lp.ast}
            lbody = {n.id for n in g.nodes if n.ast is not None and any(a is lp.ast for a in ancestors(n.ast))}
            leaves_other = [e for n in lbody | {lp.id} for e in g.succ[n] if e.dst not in lbody and e.dst != lp.id and e.kind != "exc" and not (e.src == lp.id and e.kind == "done")
                            and e.src not in brk and e.dst != g.exit.id]
            if brk and not leaves_other:
                gsm = flow.guard_states(g, edge_filter=follow_static, marks=lambda e: "_left_by_break" if e.src in brk else None)
                completed = not any(any(getattr(ex, "id", None) == "_left_by_break" for ex, _ in p_) for p_ in gsm.at(conn[0]))
        return completed

    incomplete = [lp for lp in loops if not loop_completed(lp)]
    G.decide(not incomplete, fkey(cm, "loop-completed"), where(cm, loops[0].ast), "static admission passes the exhausted uniqueness loop",
             "connected=True is reachable for a static id without completing the loop over all modules")

    # per iteration: continuing to the next module requires no id / name conflict (with several scans over the table, each
    # requirement must be enforced by one of them)
    def iteration_ok(lp):
        mv = path_of(lp.ast.target)
        loop_facts = comprehension_facts(cm.node, mv)
        id_goal = guards.parse(f"{mv} is {mp} or not ({mv}.mod_id == {mp}.mod_id) or (not {mv}.unique and not {mp}.unique)")
        nm_goal = guards.parse(f"{mv} is {mp} or not {mp}.name or not (({mv}.unique or {mp}.unique) and {mv}.name == {mp}.name)")
        body_ids = {n.id for n in g.nodes if n.ast is not None and any(a is lp.ast for a in ancestors(n.ast))}
        bad_id, bad_nm, nb = [], [], 0
        for e in g.pred[lp.id]:
            if e.src not in body_ids:
                continue
            nb += 1
            paths = fold([list(p_) + loop_facts for p_ in gs.after_edge(e)])  # locals such as `exclusive = m.unique or module.unique` are looked through
            if guards.any_path_implies(paths, id_goal):
                bad_id.append(e)
            if guards.any_path_implies(paths, nm_goal):
                bad_nm.append(e)
        return nb > 0 and not bad_id, nb > 0 and not bad_nm

    verdicts = [iteration_ok(lp) for lp in loops]
    lp = loops[0]
    G.decide(any(v[0] for v in verdicts), fkey(cm, "iteration:id-conflict-refused"), where(cm, lp.ast),
             "an iteration continues only if ids differ or both modules allow multiple instances",
             "the uniqueness loop can continue past an incumbent with the same id although one of the two is unique")
    G.decide(any(v[1] for v in verdicts), fkey(cm, "iteration:name-conflict-refused"), where(cm, lp.ast),
             "an iteration continues only if names differ or neither module is unique (explicit id)",
             "the loop can continue past an incumbent with the same name although one of the two is unique")
    # assign_module_id
    am = prog.func(MGR, "MessageManager.assign_module_id")
    ag = C.build(am.node)
    ags = flow.guard_states(ag)
    rets = [n for n in ag.nodes if n.kind == "stmt" and isinstance(n.ast, ast.Return) and n.ast.value is not None]
    if not rets:
        raise AnalysisError("anchor vanished: assign_module_id returns nothing")
    cur = None
    for n in walk_local(am.node):
        if not isinstance(n, (ast.Assign, ast.AnnAssign)) or n.value is None:
            continue
        comp = n.value
        wrapped = False
        # list / set comprehension, or set(...) / frozenset(...) / list(...) / tuple(...) over a generator or comprehension
        # (a bare generator expression is NOT a snapshot: the first `in` test consumes it)
        if isinstance(comp, ast.Call) and isinstance(comp.func, ast.Name) and comp.func.id in ("set", "frozenset", "list", "tuple", "sorted") and len(comp.args) == 1 and not comp.keywords:
            comp = comp.args[0]
            wrapped = True
        if isinstance(comp, (ast.ListComp, ast.SetComp) + ((ast.GeneratorExp,) if wrapped else ())) and len(comp.generators) == 1 \
                and norm(comp.generators[0].iter) == "self.modules.values()" and not comp.generators[0].ifs \
                and isinstance(comp.elt, ast.Attribute) and comp.elt.attr == "mod_id" and path_of(comp.elt.value) == path_of(comp.generators[0].target):
            cur = path_of(n.targets[0] if isinstance(n, ast.Assign) else n.target)
    G.decide(cur is not None, fkey(am, "current-ids-from-all-modules"), where(am), f"`{cur}` collects mod_id of every module in self.modules",
             "assign_module_id does not collect the ids of all modules in self.modules (unfiltered)")
    # a local read once from the cursor (`offset = self.next_dynamic_mod_id_offset`) stands for a value of the cursor
    CUR = "self.next_dynamic_mod_id_offset"
    cur_locals = {}
    for d in walk_local(am.node):
        if isinstance(d, ast.Assign) and len(d.targets) == 1 and isinstance(d.targets[0], ast.Name):
            cur_locals.setdefault(d.targets[0].id, []).append(d.value)
    cur_sub = {k: guards.parse(CUR) for k, vs in cur_locals.items() if len(vs) == 1 and norm(vs[0]) == CUR}
    for n in rets:
        v = path_of(n.ast.value)
        okr = cur is not None and v is not None and not guards.any_path_implies(ags.at(n), guards.parse(f"{v} not in {cur}"))
        G.decide(okr, fkey(am, n.ast), where(am, n.ast), "returned id is dominated by `not in current ids`", "assign_module_id can return an id that a live module holds")
        # candidate interval: v = offset + DYN_MOD_ID_START
        defs = [d for d in walk_local(am.node) if isinstance(d, ast.Assign) and any(path_of(t) == v for t in d.targets)]
        okv = len(defs) == 1 and isinstance(defs[0].value, ast.BinOp) and isinstance(defs[0].value.op, ast.Add) and \
            {norm(guards.subst(guards.fold_consts(defs[0].value.left, res), cur_sub)), norm(guards.subst(guards.fold_consts(defs[0].value.right, res), cur_sub))} == {CUR, str(dstart)}
        G.decide(okv, fkey(am, "candidate=offset+DYN_START"), where(am), "candidate = cursor + DYN_MOD_ID_START", "dynamic candidate is not cursor + DYN_MOD_ID_START")
    # cursor stays in [0, MAX_MODULES - DYN_MOD_ID_START)
    span = consts["MAX_MODULES"] - dstart
    cm_map = guards.copy_map(am.node)
    mm_cls = prog.cls(MGR, "MessageManager")
    okw = True
    why = []
    n_modular = 0
    for f in mm_cls.methods.values():
        for n in walk_local(f.node):
            tg = n.targets if isinstance(n, ast.Assign) else ([n.target] if isinstance(n, ast.AugAssign) else [])
            if not any(path_of(t) == "self.next_dynamic_mod_id_offset" for t in tg):
                continue
            if isinstance(n, ast.Assign):
                v = n.value
                # `cursor = (cursor + 1) % span` keeps the cursor in [0, span) by construction
                modular = isinstance(v, ast.BinOp) and isinstance(v.op, ast.Mod) and norm(guards.subst(v.left, cur_sub if f.key == am.key else {})) in ("self.next_dynamic_mod_id_offset + 1", "1 + self.next_dynamic_mod_id_offset") \
                    and f.key == am.key and _eval_local(prog, am, v.right) == span
                # `following = cursor + 1; ...; cursor = following` on paths where following == span is excluded
                succ_ok = False
                if isinstance(v, ast.Name) and f.key == am.key and len(cur_locals.get(v.id, [])) == 1 \
                        and norm(guards.subst(cur_locals[v.id][0], cur_sub)) in (f"{CUR} + 1", f"1 + {CUR}"):
                    nodes_ = [x for x in ag.nodes if x.ast is n]
                    if len(nodes_) == 1:
                        def excludes_span(path):
                            for ex, pol in path:
                                if isinstance(ex, ast.Compare) and len(ex.ops) == 1 and isinstance(ex.ops[0], (ast.Eq, ast.NotEq)):
                                    l_, r_ = ex.left, ex.comparators[0]
                                    other = r_ if path_of(l_) == v.id else (l_ if path_of(r_) == v.id else None)
                                    if other is not None and (isinstance(ex.ops[0], ast.Eq)) != pol:
                                        try:
                                            if _eval_local(prog, am, other) == span:
                                                return True
                                        except AnalysisError:
                                            pass
                            return False
                        ps_ = ags.at(nodes_[0])
                        succ_ok = bool(ps_) and all(excludes_span(p_) for p_ in ps_)
                if modular:
                    n_modular += 1
                elif succ_ok:
                    n_modular += 1  # like the modular form: successor and wrap in one step, no separate wrap test needed
                elif not (isinstance(v, ast.Constant) and v.value == 0):
                    okw = False
                    why.append(norm(n))
            else:
                if not (isinstance(n.op, ast.Add) and isinstance(n.value, ast.Constant) and n.value.value == 1 and f.key == am.key):
                    okw = False
                    why.append(norm(n))
    # after the increment the wrap test runs before anything else reads the cursor
    incs = [n for n in ag.nodes if n.kind == "stmt" and isinstance(n.ast, ast.AugAssign) and path_of(n.ast.target) == "self.next_dynamic_mod_id_offset"]
    wraps = [n for n in ag.nodes if n.kind == "test" and "self.next_dynamic_mod_id_offset" in flow.access_paths(n.ast)]
    okwrap = len(incs) == 1 and len(wraps) == 1
    if n_modular == 1 and not incs:
        okwrap = True  # the modular update needs no separate wrap test
    elif okwrap:
        t = wraps[0]
        val = None
        if isinstance(t.ast, ast.Compare) and len(t.ast.ops) == 1 and isinstance(t.ast.ops[0], ast.Eq):
            other = t.ast.comparators[0] if path_of(t.ast.left) == "self.next_dynamic_mod_id_offset" else t.ast.left
            val = _eval_local(prog, am, other)
        okwrap = val == span and all(e.dst == t.id for e in ag.succ[incs[0].id] if e.kind != "exc")
        resets = [e for e in ag.succ[t.id] if e.kind == "true"]
        okwrap = okwrap and all(isinstance(ag.nodes[e.dst].ast, ast.Assign) and norm(ag.nodes[e.dst].ast) == "self.next_dynamic_mod_id_offset = 0" for e in resets)
    G.decide(okw and okwrap, fkey(am, "cursor-interval"), where(am), f"cursor only set to 0 or incremented then wrapped at {span}: candidates lie in [{dstart}, {consts['MAX_MODULES']})",
             "dynamic cursor can leave [0, MAX_MODULES - DYN_MOD_ID_START): " + ("; ".join(why) or "wrap test does not immediately follow the increment / compares another bound"))

    # ---- K id learned from the ACK -----------------------------------------------------------------------------------------
    K = chk.rule("C06-K", "the client adopts ack.header.dest_mod_id as its id when it asked for 0", 1, "a client asking for id 0 must learn its dynamic id")
    hg = C.build(ch.node)
    hgs = flow.guard_states(hg)
    ackv = [path_of(n.targets[0]) for n in walk_local(ch.node) if isinstance(n, ast.Assign) and isinstance(n.value, ast.Call) and self_call("_wait_for_acknowledgement")(n.value)]
    # the attribute behind the public `module_id` property (self._module_id today)
    mid_prop = prog.cls(CLI, "Client").methods.get("module_id")
    mid_ret = [norm(r.value) for r in walk_local(mid_prop.node) if isinstance(r, ast.Return) and r.value is not None] if mid_prop is not None else []
    idattr = mid_ret[0] if len(mid_ret) == 1 and mid_ret[0].startswith("self.") else "self._module_id"
    adopt = [n for n in hg.nodes if n.kind == "stmt" and isinstance(n.ast, ast.Assign) and any(path_of(t) == idattr for t in n.ast.targets)
             and ackv and norm(n.ast.value) == f"{ackv[0]}.header.dest_mod_id"]
    # facts about a local that mirrors the id attribute (`requested_id = ...; self._module_id = requested_id`) are facts about the attribute
    apaths = [[(guards.subst(e_, msub), pol_) for e_, pol_ in p_] for p_ in hgs.at(adopt[0])] if len(adopt) == 1 else []
    okk = len(adopt) == 1 and not guards.any_path_implies(apaths, guards.parse(f"{idattr} == 0"))
    # ... and the id that was asked for is that attribute: what is tested is what was sent
    sent_vals = [guards.subst(v_, msub) for v_ in field_stores(ch, v2[0]).get("mod_id", [])]
    sent_is_attr = len(sent_vals) == 1 and norm(sent_vals[0]) in (idattr, "self.module_id")
    K.decide(okk and sent_is_attr, fkey(ch, "adopt-ack-id"), where(ch), "self._module_id = ack.header.dest_mod_id under `self._module_id == 0`, the id that was sent",
             "_connect_helper does not adopt the acknowledged id under the == 0 guard" if not okk else
             f"the id sent in CONNECT_V2 (`{norm(sent_vals[0]) if sent_vals else None}`) is not the attribute tested before adopting the acknowledged id (`{idattr} == 0`): "
             "a client that asked for 0 may keep a stale id")
    # a client created with id 0 asks for a dynamic id on EVERY connect: the reset dominates the CONNECT_V2 construction
    def zero_under_dynamic(v):
        if isinstance(v, ast.Constant) and v.value == 0:
            return "const"
        if isinstance(v, ast.IfExp):
            t = norm(v.test)
            if t == "self._dynamic_id" and isinstance(v.body, ast.Constant) and v.body.value == 0:
                return "ifexp"
            if t == "not self._dynamic_id" and isinstance(v.orelse, ast.Constant) and v.orelse.value == 0:
                return "ifexp"
        return None

    resets = []
    cond_free = set()
    for n in hg.nodes:
        if n.kind == "stmt" and isinstance(n.ast, ast.Assign) and any(path_of(t) == "self._module_id" for t in n.ast.targets):
            v_ = n.ast.value
            if isinstance(v_, ast.Name) and v_.id in mirrors and mirrors[v_.id][2] is n.ast:
                v_ = mirrors[v_.id][1]
            z = zero_under_dynamic(v_)
            if z:
                resets.append(n)
                if z == "ifexp":
                    cond_free.add(n.id)  # `x = 0 if self._dynamic_id else ...` resets exactly when dynamic: no enclosing test needed
    modid = [n for n in hg.nodes if n.kind == "stmt" and isinstance(n.ast, ast.Assign) and any(isinstance(t, ast.Attribute) and t.attr == "mod_id" and path_of(t.value) == v2[0] for t in n.ast.targets)]
    okd = bool(resets) and bool(modid) and all(r.id in cond_free or not guards.any_path_implies(hgs.at(r), guards.parse("self._dynamic_id")) for r in resets)
    if okd:
        # on the paths where the client is dynamic (false edge of the `self._dynamic_id` test excluded) the reset precedes the store
        okd = not flow.must_precede(hg, resets, modid, follow=lambda e: not (e.cond is not None and norm(e.cond) == "self._dynamic_id" and e.pol is False))
    K.decide(okd, fkey(ch, "dynamic-id-requested-on-every-connect"), where(ch), "`if self._dynamic_id: self._module_id = 0` precedes the CONNECT_V2 id on every connect path",
             "_connect_helper can send a stale previously assigned dynamic id instead of 0 (reconnect after a lost link): the manager treats it as an explicit id")
    chk.units.update({"option_call_sites": len(A.instances)})


def _eval_local(prog, f, e, depth=0):
    """Evaluate an expression over module constants and single-assignment local constants of f."""
    from ..dataflow import definitions

    if depth > 6:
        return None
    if isinstance(e, ast.Name):
        defs = definitions(f.node, e.id)
        if len(defs) == 1 and defs[0][0] == "assign":
            return _eval_local(prog, f, defs[0][1], depth + 1)
    if isinstance(e, ast.BinOp):
        l, r = _eval_local(prog, f, e.left, depth + 1), _eval_local(prog, f, e.right, depth + 1)
        if l is None or r is None:
            return None
        try:
            return prog.eval_const(f.module, ast.BinOp(left=ast.Constant(l), op=e.op, right=ast.Constant(r)))
        except AnalysisError:
            return None
    try:
        return prog.eval_const(f.module, e)
    except AnalysisError:
        return None


def _resolve_extra(prog, ty, f):
    """Call resolution for functions outside the package (examples/tests/utils, thorough tier)."""
    out = []
    for n in walk_local(f.node):
        if isinstance(n, ast.Call):
            try:
                st, fi, desc = ty.callee(f, n)
            except Exception:
                continue
            out.append((n, st, fi, desc))
    return out
