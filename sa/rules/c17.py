"""C17 - the data logger loses, duplicates and reorders nothing (DESIGN §2 C17): the hand-off discipline.

The property quantifies over thread interleavings; deciding it is model checking and is NOT attempted.
Decided: ownership and signalling-order rules without which some interleaving loses or duplicates a message."""
from __future__ import annotations

import ast
from typing import List, Set

from .. import callgraph, cfg as C, flow, guards
from ..program import AnalysisError, Program, norm, walk_local, ancestors
from ..report import Check
from ..types import Types
from ..util import calls_in, fkey, is_method_call, node_calls, path_of, recv_of, where

DC = "pyrtma.data_logger.data_collection"
DS = "pyrtma.data_logger.data_set"
DF = "pyrtma.data_logger.data_formatter"
QL = "pyrtma.data_logger.formatters.quicklogger"


def attr_accesses(f, attr):
    """[(node, kind)] kind in load / rebind / mutate(<method>) for `<x>.attr` in f."""
    out = []
    for n in walk_local(f.node):
        if isinstance(n, ast.Attribute) and n.attr == attr:
            par = getattr(n, "_parent", None)
            if isinstance(n.ctx, ast.Store):
                out.append((n, "rebind"))
            elif isinstance(par, ast.Attribute) and isinstance(getattr(par, "_parent", None), ast.Call) and par._parent.func is par:
                out.append((n, f"call:{par.attr}"))
            else:
                out.append((n, "load"))
    return out


def first_before(g, A_nodes, B_nodes, start_ids, stop_ids) -> bool:
    """Within one pass from start (not crossing stop_ids): is every B reached only after some A? (True = A precedes B)"""
    a = {n.id for n in A_nodes}
    r = flow.reach(g, start_ids, blocked=a, follow=lambda e: e.dst not in stop_ids, blocked_pass_exc=False)
    return not any(b.id in r and b.id not in a for b in B_nodes)


def run(prog: Program, chk: Check):
    ty = Types(prog)
    cg = callgraph.get(prog)
    chk.explanation = (
        "C17: the exactly-once / in-order claim over all interleavings of the recorder and the writer thread is a model-checking "
        "problem and is NOT decided. Decided is the hand-off discipline of the double buffer, each rule being a necessary condition "
        "(the interleaving that breaks the property when the rule is broken is given per rule): buffer ownership by thread role, "
        "staging only on evidence that the previous hand-off completed, signalling order on both sides (completion published before "
        "the token is released), append-before-flush, finalisation order of data sets and formatters."
    )
    chk.assumptions += ["threading.Event set/clear/wait are atomic and sequentially consistent (CPython)",
                        "thread roles: writer = functions reachable from the Thread(target=self.write) target; recorder = the other public methods"]
    dcc = prog.cls(DC, "DataCollection")
    dsc = prog.cls(DS, "DataSet")
    wr = dcc.methods["write"]
    init = dcc.methods["__init__"]
    # writer role: target of the thread
    tgt = [c for c in calls_in(init.node) if norm(c.func) in ("threading.Thread", "Thread")]
    if len(tgt) != 1 or not any(k.arg == "target" and norm(k.value) == "self.write" for k in tgt[0].keywords):
        raise AnalysisError("anchor vanished: threading.Thread(target=self.write) in DataCollection.__init__")
    writer: Set[str] = {wr.key} | cg.may_call(wr)
    bw = dcc.methods["blocking_write"]
    stage = dsc.methods.get("stage_for_write")  # None when the swap is written in place at its (two) call sites

    def swap_stmt(st):
        """`X.wbuf, X.rbuf = X.rbuf, []`: the receiver X, or None"""
        if isinstance(st, ast.Assign) and len(st.targets) == 1 and isinstance(st.targets[0], ast.Tuple) and isinstance(st.value, ast.Tuple) \
                and len(st.targets[0].elts) == 2 and len(st.value.elts) == 2:
            t0, t1 = st.targets[0].elts
            v0, v1 = st.value.elts
            if isinstance(t0, ast.Attribute) and isinstance(t1, ast.Attribute) and t0.attr == "wbuf" and t1.attr == "rbuf" and norm(t0.value) == norm(t1.value) \
                    and norm(v0) == f"{norm(t0.value)}.rbuf" and norm(v1) in ("[]", "list()"):
                return norm(t0.value)
        return None

    def stage_nodes(g, recv=None):
        """CFG nodes that hand the read buffer over: a call of stage_for_write, or the swap written in place"""
        out = []
        for n in g.nodes:
            if stage is not None and any(is_method_call(c, "stage_for_write") and (recv is None or path_of(recv_of(c)) == recv) for c in node_calls(n)):
                out.append(n)
            elif n.kind == "stmt" and swap_stmt(n.ast) is not None and (recv is None or swap_stmt(n.ast) == recv):
                out.append(n)
        return out

    inline_swaps = [(f, st) for m in prog.modules.values() if m.name.startswith("pyrtma.data_logger") for f in m.functions.values() for st in walk_local(f.node) if swap_stmt(st) is not None]
    if stage is None and not inline_swaps:
        raise AnalysisError("anchor vanished: DataSet.stage_for_write (and no in-place buffer swap)")
    stage_key = stage.key if stage is not None else None
    swap_hosts = {f.key for f, _ in inline_swaps}

    # ---- O buffer ownership ------------------------------------------------------------------------------
    O = chk.rule("C17-O", "rbuf is appended only by update and rebound only by stage_for_write (fresh list); wbuf is rebound only by stage_for_write; the writer never touches rbuf", 7,
                 "a second owner of either buffer loses or duplicates messages under some interleaving (e.g. wbuf.clear() erasing newly recorded messages if rbuf were reused)")
    for m in prog.modules.values():
        if not m.name.startswith("pyrtma.data_logger"):
            continue
        for f in m.functions.values():
            for buf in ("rbuf", "wbuf"):
                for n, kind in attr_accesses(f, buf):
                    key = fkey(f, f"{buf}:{kind}:{norm(getattr(n, '_parent', n))[:50]}")
                    in_swap = any(f2 is f and any(x is n for x in ast.walk(st)) for f2, st in inline_swaps)
                    if in_swap:
                        # part of `X.wbuf, X.rbuf = X.rbuf, []` written in place: its host is checked under C17-G, its shape is the swap
                        O.decide(f.key not in writer, key, where(f, n), f"{buf} handed over by the in-place swap in {f.qual}", f"the buffer swap in {f.qual} runs in the writer thread role")
                        continue
                    if kind == "rebind":
                        okk = f.key == stage_key or (f.cls is dsc and f.name == "__init__")
                        O.decide(okk, key, where(f, n), f"{buf} bound in {f.qual}", f"{buf} is rebound in {f.qual} (only stage_for_write may swap the buffers)")
                    elif kind.startswith("call:"):
                        meth = kind[5:]
                        if buf == "rbuf":
                            okk = meth == "append" and f.key == dcc.methods["update"].key
                            O.decide(okk, key, where(f, n), "rbuf.append in update (recorder)", f"rbuf.{meth}() in {f.qual}: only DataCollection.update may append, nothing may remove")
                        else:
                            okk = f.key in writer and f.cls is dsc and f.name == "write" and meth == "clear"
                            O.decide(okk, key, where(f, n), "wbuf.clear() by the writer after writing", f"wbuf.{meth}() in {f.qual}")
                    else:
                        if buf == "rbuf":
                            okk = f.key == stage_key and f.key not in writer
                            O.decide(okk, key, where(f, n), "rbuf read only to hand it over", f"rbuf read in {f.qual}" + (" (writer thread role)" if f.key in writer else ""))
                        else:
                            okk = f.cls is dsc and f.name in ("write", "stop", "subdivide")
                            O.decide(okk, key, where(f, n), f"wbuf read in DataSet.{f.name}", f"wbuf read in {f.qual}")
    # shape of the swap: wbuf = rbuf ; rbuf = <fresh list>
    if stage is not None:
        sg = C.build(stage.node)
        mv = [n for n in sg.nodes if n.kind == "stmt" and isinstance(n.ast, ast.Assign) and norm(n.ast.targets[0]) == "self.wbuf" and norm(n.ast.value) == "self.rbuf"]
        fresh = [n for n in sg.nodes if n.kind == "stmt" and isinstance(n.ast, ast.Assign) and norm(n.ast.targets[0]) == "self.rbuf" and norm(n.ast.value) in ("[]", "list()")]
        okswap = len(mv) == 1 and len(fresh) == 1 and not flow.must_precede(sg, mv, fresh) and not flow.must_follow(sg, [sg.entry], fresh, exits=("exit",))
        if not okswap and len(stage_nodes(sg, "self")) == 1 and not flow.must_follow(sg, [sg.entry], stage_nodes(sg, "self"), exits=("exit",)):
            okswap = True  # stage_for_write itself written as the tuple swap
        O.decide(okswap, fkey(stage, "swap"), where(stage), "the same list moves to wbuf and a fresh list is installed in rbuf, in that order",
                 "stage_for_write does not (wbuf = rbuf; rbuf = fresh list): recorded messages can be lost or cleared by the writer")
        if stage.key in writer:
            O.bad(fkey(stage, "called-by-writer"), where(stage), "stage_for_write is reachable from the writer thread")
    for f_, st_sw in inline_swaps:
        if stage is not None and f_.key == stage.key:
            continue
        O.ok(fkey(f_, "swap-in-place"), where(f_, st_sw), "the same list moves to wbuf and a fresh list is installed in rbuf (one simultaneous assignment)")

    # ---- G stage only when no write is pending ---------------------------------------------------------------
    G = chk.rule("C17-G", "every recorder path to stage_for_write passes evidence that the previous hand-off completed", 3,
                 "restaging while a write is pending overwrites a staged-but-unwritten buffer (loss)")
    callers = cg.call_sites_of(stage.key) if stage is not None else []
    allowed = {dcc.methods["trigger_write"].key, dsc.methods["stop"].key}
    for cf, cc in callers:
        G.decide(cf.key in allowed, fkey(cf, cc), where(cf, cc), "stage_for_write called from trigger_write / DataSet.stop", f"stage_for_write called from {cf.qual}")
    for f_, st_sw in inline_swaps:
        if stage is not None and f_.key == stage.key:
            continue
        G.decide(f_.key in allowed, fkey(f_, "swap-in-place"), where(f_, st_sw), "buffers swapped in trigger_write / DataSet.stop", f"the buffers are swapped in {f_.qual}")

    def evidence_edge(e) -> bool:
        if e.cond is None:
            return False
        for c in [x for x in ast.walk(e.cond) if isinstance(x, ast.Call)]:
            if is_method_call(c, "is_set") and (path_of(recv_of(c)) or "").endswith("write_to_disk"):
                if guards.implies([(e.cond, e.pol)], guards.parse(f"not {norm(c)}")):
                    return True
            if is_method_call(c, "wait") and (path_of(recv_of(c)) or "").endswith("write_finished"):
                if guards.implies([(e.cond, e.pol)], guards.parse(norm(c))):
                    return True
        return False

    for host, callee_name, label in ((dcc.methods["update"], "trigger_write", "flush"), (dcc.methods["stop"], "stop", "stop")):
        hg = C.build(host.node)
        if callee_name == "trigger_write":
            sites = [n for n in hg.nodes if any(is_method_call(c, "trigger_write") and path_of(recv_of(c)) == "self" for c in node_calls(n))]
        else:
            sites = [n for n in hg.nodes if any(is_method_call(c, "stop") and ty.expr(host, recv_of(c)).is_cls("DataSet") for c in node_calls(n))]
        if not sites:
            raise AnalysisError(f"anchor vanished: staging call site in {host.qual}")
        r = flow.reach(hg, [hg.entry.id], follow=lambda e: not evidence_edge(e))
        for n in sites:
            G.decide(n.id not in r, fkey(host, f"{label}:evidence-before-staging"), where(host, n.ast),
                     "reachable only through `not write_to_disk.is_set()` or a completed write_finished.wait()",
                     f"{host.qual} can stage the buffers without evidence that the pending write finished")
    for cf, cc in cg.call_sites_of(dcc.methods["trigger_write"].key):
        G.decide(cf.key == dcc.methods["update"].key, fkey(cf, cc), where(cf, cc), "trigger_write called from update only", f"trigger_write called from {cf.qual}")

    # ---- S signalling order -------------------------------------------------------------------------------------
    S = chk.rule("C17-S", "recorder: stage + write_finished.clear() before write_to_disk.set(); writer: ds.write() before both signals and write_finished.set() before write_to_disk.clear()", 6,
                 "token released before completion is published: recorder stages+clears+sets in between, the late write_finished.set() then reports the NEW hand-off as finished and stop() restages over the unwritten buffer")

    def ev(nodes_g, attr, meth):
        return [n for n in nodes_g.nodes if any(is_method_call(c, meth) and (path_of(recv_of(c)) or "") == f"self.{attr}" for c in node_calls(n))]

    tw = dcc.methods["trigger_write"]
    tg = C.build(tw.node)
    stg = stage_nodes(tg)
    clr = ev(tg, "write_finished", "clear")
    st_ = ev(tg, "write_to_disk", "set")
    S.decide(bool(stg) and len(st_) == 1 and not any(s.id in flow.reach(tg, [st_[0].id]) for s in stg), fkey(tw, "stage-before-token"), where(tw), "all staging precedes write_to_disk.set()", "staging can happen after the token was handed to the writer")
    S.decide(len(clr) == 1 and len(st_) == 1 and not flow.must_precede(tg, clr, st_) and clr[0].id not in flow.reach(tg, [st_[0].id]), fkey(tw, "clear-finished-before-token"), where(tw),
             "write_finished.clear() precedes write_to_disk.set()", "write_finished is cleared after (or not before) the token is set: a stale completion can be observed")
    for f in (wr, bw):
        g = C.build(f.node)
        waits = [n for n in g.nodes if n.kind == "test" and any(is_method_call(c, "wait") and (path_of(recv_of(c)) or "") == "self.write_to_disk" for c in calls_in(n.ast))]
        if len(waits) != 1:
            S.bad(fkey(f, "wait"), where(f), f"{f.qual}: expected one wait on write_to_disk, found {len(waits)}")
            continue
        # the continuation on which the wait returned true (`if wait(..):` or `if not wait(..): <skip> else:`)
        wcall = [c for c in calls_in(waits[0].ast) if is_method_call(c, "wait") and (path_of(recv_of(c)) or "") == "self.write_to_disk"][0]
        start = [e.dst for e in g.succ[waits[0].id] if e.cond is not None and guards.implies([(e.cond, e.pol)], guards.parse(norm(wcall)))]
        loop_heads = {n.id for n in g.nodes if n.kind == "test" and isinstance(getattr(n.stmt, "test", None), ast.AST) and isinstance(n.stmt, ast.While)}
        fin = ev(g, "write_finished", "set")
        tok = ev(g, "write_to_disk", "clear")
        wrs = [n for n in g.nodes if any(is_method_call(c, "write") and ty.expr(f, recv_of(c)).is_cls("DataSet") for c in node_calls(n))]
        S.decide(len(fin) == 1 and len(tok) == 1 and first_before(g, fin, tok, start, loop_heads), fkey(f, "finished-before-token-release"), where(f),
                 "write_finished.set() precedes write_to_disk.clear()", f"{f.qual}: write_to_disk.clear() can run before write_finished.set()")
        okw = bool(wrs) and not any(w.id in flow.reach(g, [x.id], follow=lambda e: e.dst not in loop_heads) for w in wrs for x in fin + tok)
        S.decide(okw, fkey(f, "write-before-signals"), where(f), "every ds.write() precedes both signals", f"{f.qual}: a data set can be written after completion was signalled")
        # both signals on every path of a served hand-off
        ends = {n.id for n in g.nodes if n.id in loop_heads or n.kind == "exit"}
        miss = [x for x in (fin + tok) if ends & flow.reach(g, start, blocked={x.id}, follow=lambda e: e.kind not in ("exc", "except"), blocked_pass_exc=False)]
        S.decide(not miss, fkey(f, "signals-on-every-path"), where(f), "both signals are raised on every normal path of a served hand-off", f"{f.qual}: a served hand-off can end without raising {[norm(x.ast) for x in miss]}")

    # ---- E append then flush ---------------------------------------------------------------------------------------
    E = chk.rule("C17-E", "update appends the current message under `all_sub or type_id in msg_types` before deciding to flush", 3,
                 "a message must be in the buffer that the flush it triggers stages")
    up = dcc.methods["update"]
    ug = C.build(up.node)
    ugs = flow.guard_states(ug)
    apps = [n for n in ug.nodes if any(is_method_call(c, "append") and (path_of(recv_of(c)) or "").endswith(".rbuf") for c in node_calls(n))]
    if len(apps) != 1:
        raise AnalysisError("anchor vanished: rbuf.append in update")
    ac = [c for c in node_calls(apps[0]) if is_method_call(c, "append")][0]
    dsv = path_of(recv_of(ac)).rsplit(".", 1)[0]
    msgv = path_of(ac.args[0])
    sel = f"({dsv}.all_sub or {msgv}.type_id in {dsv}.msg_types)"
    goals = [guards.parse(f"{msgv} and {sel}"), guards.parse(f"{msgv} is not None and {sel}")]  # a Message is never falsy
    goal = goals[0]
    E.decide(any(not guards.any_path_implies(ugs.at(apps[0]), gl) for gl in goals), fkey(up, "selection-guard"), where(up, ac), "append guarded by msg and (all_sub or type_id in msg_types)",
             "the append is not guarded by exactly the data set's selection")
    # ... and every selected message is appended: the negation leads around the append only
    # converse: paths that bypass the append must have the selection false
    joins = [e.dst for e in ug.succ[apps[0].id] if e.kind != "exc"]
    gs_by = flow.guard_states(ug, edge_filter=lambda e: e.dst != apps[0].id)
    okall = bool(joins)
    app_loop = next((a for a in ancestors(apps[0].ast) if isinstance(a, ast.For)), None)
    in_loop = {n.id for n in ug.nodes if n.ast is not None and app_loop is not None and any(a is app_loop for a in ancestors(n.ast))}
    for j in joins:
        # the ways of reaching the point after the append, within the same iteration, that did not pass the append
        byp = [p_ for e in ug.pred[j] if e.src != apps[0].id and e.kind != "exc" and (not in_loop or e.src in in_loop) for p_ in gs_by.after_edge(e)]
        if all(guards.any_path_implies(byp, guards.parse(f"not ({norm(gl)})")) for gl in goals):
            okall = False
    E.decide(okall, fkey(up, "every-selected-message"), where(up), "a selected message always reaches the append", "a selected message can bypass the append")
    trig = [n for n in ug.nodes if any(is_method_call(c, "trigger_write") for c in node_calls(n))]
    loops = [n for n in ug.nodes if n.kind == "for" and norm(n.ast.iter) == "self.datasets" and n.ast is app_loop]
    okord = len(loops) == 1 and bool(trig)
    if okord:
        # a way to the flush that did not complete the append loop is taken only when there is no message to append
        gs_nl = flow.guard_states(ug, edge_filter=lambda e: not (e.src == loops[0].id and e.kind == "done"))
        nomsg = [guards.parse(f"not {msgv}"), guards.parse(f"{msgv} is None")]
        okord = all(any(not guards.any_path_implies(gs_nl.at(t), gl) for gl in nomsg) or not gs_nl.at(t) for t in trig) and not any(isinstance(a, ast.For) for t in trig for a in ancestors(t.ast))
    E.decide(okord, fkey(up, "append-all-before-flush"), where(up), "the flush decision is taken after every data set received the message", "trigger_write can run before every data set appended the message")

    # ---- F finalisation --------------------------------------------------------------------------------------------------
    F = chk.rule("C17-F", "stop: wait, then per data set stage -> finalize(wbuf) -> close; formatters write the remaining buffer before the footer / offsets / data", 6,
                 "finalising before the last buffer is written, or closing first, truncates the files")
    sp = dcc.methods["stop"]
    spg = C.build(sp.node)
    dstop = [n for n in spg.nodes if any(is_method_call(c, "stop") and ty.expr(sp, recv_of(c)).is_cls("DataSet") for c in node_calls(n))]
    dclose = [n for n in spg.nodes if any(is_method_call(c, "close") and ty.expr(sp, recv_of(c)).is_cls("DataSet") for c in node_calls(n))]
    okf = len(dstop) == 1 and len(dclose) == 1
    if okf:
        lp = [a for a in ancestors(dstop[0].ast) if isinstance(a, ast.For)]
        okf = bool(lp) and norm(lp[0].iter) == "self.datasets" and any(x is lp[0] for x in ancestors(dclose[0].ast)) and dclose[0].id in flow.reach(spg, [dstop[0].id], follow=lambda e: e.kind not in ("iter",)) \
            and not any(isinstance(s, (ast.Break, ast.Continue, ast.If)) for s in walk_local(lp[0]) if s is not lp[0])
    F.decide(okf, fkey(sp, "stop-then-close-each"), where(sp), "every data set is stopped (staged + finalised) and then closed", "DataCollection.stop does not stop-then-close every data set unconditionally")
    flag = [n for n in spg.nodes if n.kind == "stmt" and isinstance(n.ast, ast.Assign) and norm(n.ast.targets[0]).endswith(".collection_stopped")]
    dst = dsc.methods["stop"]
    dg = C.build(dst.node)
    s1 = stage_nodes(dg, "self")
    okflag = bool(flag) and bool(dstop) and not flow.must_precede(spg, flag, dstop)
    if not flag:
        # ... or DataSet.stop sets it itself before it hands the last buffer over
        flag2 = [n for n in dg.nodes if n.kind == "stmt" and isinstance(n.ast, ast.Assign) and norm(n.ast.targets[0]) == "self.collection_stopped"
                 and isinstance(n.ast.value, ast.Constant) and n.ast.value.value is True]
        okflag = bool(flag2) and bool(s1) and not flow.must_precede(dg, flag2, s1)
    F.decide(okflag, fkey(sp, "collection_stopped-before-stop"), where(sp), "collection_stopped is set before the data set is finalised (no subdivision during shutdown)",
             "collection_stopped is not set before ds.stop()")
    s2 = [n for n in dg.nodes if any(is_method_call(c, "finalize") and c.args and norm(c.args[0]) == "self.wbuf" for c in node_calls(n))]
    F.decide(len(s1) == 1 and len(s2) == 1 and not flow.must_precede(dg, s1, s2) and not flow.must_follow(dg, [dg.entry], s2, exits=("exit",)), fkey(dst, "stage-then-finalize"), where(dst),
             "DataSet.stop stages, then finalises the staged buffer", "DataSet.stop does not stage and then finalize(self.wbuf) on every path")
    bf = prog.func(DF, "DataFormatter.finalize")
    bg = C.build(bf.node)
    w1 = [n for n in bg.nodes if any(is_method_call(c, "write") and path_of(recv_of(c)) == "self" for c in node_calls(n))]
    ft = [n for n in bg.nodes if any(is_method_call(c, "write") and path_of(recv_of(c)) == "self.fd" for c in node_calls(n))]
    F.decide(len(w1) == 1 and not flow.must_follow(bg, [bg.entry], w1, exits=("exit",)) and all(x.id in flow.reach(bg, [w1[0].id]) for x in ft), fkey(bf, "buffer-before-footer"), where(bf),
             "remaining buffer written before the footer", "DataFormatter.finalize does not write the remaining buffer before the footer")
    bw_ = prog.func(DF, "DataFormatter.write")
    gen = [c for c in calls_in(bw_.node) if is_method_call(c, "writelines") and c.args and isinstance(c.args[0], ast.GeneratorExp)]
    okw = len(gen) == 1 and not gen[0].args[0].generators[0].ifs and norm(gen[0].args[0].generators[0].iter) == bw_.params()[-1]
    F.decide(okw, fkey(bw_, "every-message-in-order"), where(bw_), "every buffered message is formatted and written, in buffer order", "DataFormatter.write filters or reorders the buffer")
    # overriding formatters: finalize / write must still write the buffer (sibling agreement)
    base = prog.cls(DF, "DataFormatter")
    nsub = 0
    for ci in prog.subclasses(base):
        nsub += 1
        for mn in ("write", "finalize"):
            fi = ci.methods.get(mn)
            if fi is None:
                continue
            p = fi.params()[-1]
            g = C.build(fi.node)
            hdr = [n for n in g.nodes if any((is_method_call(c, "write") and norm(recv_of(c)) in ("super()", "self") and c.args and path_of(c.args[0]) == p) for c in node_calls(n))]
            # ... or hands the file every message of the buffer itself: self.fd.write / writelines of an expression built from an
            # unfiltered generator / comprehension over the buffer
            def whole_buffer(c_):
                if not (is_method_call(c_, ("write", "writelines")) and norm(recv_of(c_)) == "self.fd" and c_.args):
                    return False
                for x_ in ast.walk(c_.args[0]):
                    if isinstance(x_, (ast.GeneratorExp, ast.ListComp)) and len(x_.generators) == 1 and not x_.generators[0].ifs and path_of(x_.generators[0].iter) == p:
                        return True
                return False

            hdr += [n for n in g.nodes if any(whole_buffer(c) for c in node_calls(n))]
            esc = flow.must_follow(g, [g.entry], hdr, exits=("exit",)) if hdr else [1]
            F.decide(not esc, fkey(fi, "writes-buffer-on-every-path"), where(fi), f"{ci.name}.{mn} writes the buffer headers on every path", f"{ci.name}.{mn} can return without writing the buffer")
            if ci.name == "QLFormatter" and mn == "finalize":
                offs = [n for n in g.nodes if any(is_method_call(c, "write_offsets") for c in node_calls(n))]
                data = [n for n in g.nodes if any(is_method_call(c, ("copy_data", "writelines")) for c in node_calls(n))]
                okq = bool(offs) and bool(data) and not flow.must_precede(g, hdr, offs) and not flow.must_precede(g, offs, data) and not flow.must_follow(g, [g.entry], data, exits=("exit",))
                F.decide(okq, fkey(fi, "headers-offsets-data"), where(fi), "both branches write headers, then offsets, then data", "QLFormatter.finalize does not write headers -> offsets -> data on every path")
    if nsub < 3:
        raise AnalysisError(f"anchor vanished: expected >= 3 DataFormatter subclasses, found {nsub}")
    # ---- J the JSON log is newline delimited across flushes -----------------------------------------------------------------------------------
    # A data set is written in several flushes into one file.  Every record must carry its own terminator: a separator placed
    # *between* the records of one flush (`"\n".join(...)`) leaves the last record of a flush and the first of the next on one line.
    J = chk.rule("C17-J", "every record of the JSON formatter ends with its own newline (a terminator, not a separator between the records of one flush)", 1,
                 "two flushes into the same file would join two documents on one line: the file no longer decodes line by line")
    jci = next((c_ for c_ in prog.subclasses(base) if c_.name == "JsonFormatter"), None)
    if jci is None:
        raise AnalysisError("anchor vanished: JsonFormatter")

    def ends_nl(e_):
        if isinstance(e_, ast.Constant) and isinstance(e_.value, str):
            return e_.value.endswith("\n")
        if isinstance(e_, ast.BinOp) and isinstance(e_.op, ast.Add):
            return ends_nl(e_.right)
        if isinstance(e_, ast.JoinedStr) and e_.values:
            return ends_nl(e_.values[-1])
        return False

    fmj = jci.methods.get("format_message")
    rets_j = [r_ for r_ in walk_local(fmj.node) if isinstance(r_, ast.Return)] if fmj is not None else []
    elem_term = bool(rets_j) and all(r_.value is not None and ends_nl(r_.value) for r_ in rets_j)
    wj = jci.methods.get("write")
    if wj is None:
        J.decide(elem_term, fkey(fmj or jci.methods.get("finalize") or next(iter(jci.methods.values())), "record-terminated"), where(fmj) if fmj is not None else "",
                 "format_message ends every record with a newline", "JsonFormatter.format_message does not end the record with a newline and nothing else adds one: records of successive flushes share a line")
    else:
        okj, whyj = False, "no write of the buffer found"
        for c_ in calls_in(wj.node):
            if is_method_call(c_, ("write", "writelines")) and norm(recv_of(c_)) == "self.fd" and c_.args:
                a_ = c_.args[0]
                trailing = False
                if isinstance(a_, ast.BinOp) and isinstance(a_.op, ast.Add) and ends_nl(a_.right):
                    trailing, a_ = True, a_.left
                if isinstance(a_, ast.Call) and isinstance(a_.func, ast.Attribute) and a_.func.attr == "join" and isinstance(a_.func.value, ast.Constant) and a_.args:
                    sep = a_.func.value.value
                    gen_ = a_.args[0]
                    el_ = gen_.elt if isinstance(gen_, (ast.GeneratorExp, ast.ListComp)) else None
                    el_term = el_ is not None and (ends_nl(el_) or (elem_term and isinstance(el_, ast.Call) and is_method_call(el_, "format_message")))
                    okj = (sep == "" and el_term) or (sep.endswith("\n") and trailing) or (el_term and sep == "")
                    whyj = f"`{norm(c_)[:80]}` puts `{sep!r}` between the records of one flush" + ("" if trailing else " and nothing after the last one")
                elif isinstance(a_, (ast.GeneratorExp, ast.ListComp)):
                    el_ = a_.elt
                    okj = ends_nl(el_) or (elem_term and isinstance(el_, ast.Call) and is_method_call(el_, "format_message"))
                    whyj = "the written elements do not end with a newline"
                else:
                    okj, whyj = elem_term, "records are not newline terminated"
        J.decide(okj, fkey(wj, "record-terminated"), where(wj), "every record written carries its own newline", f"JsonFormatter.write: {whyj}: the last record of a flush and the first of the next share a line")
    chk.units.update({"writer_role_functions": sorted(writer)[:12], "formatters": nsub})
